"""A tiny translator from a Python expression sub-language to Lean 4 terms.

Used by the extractors (DESIGN.md 4.1).  It refuses anything it does not understand
(`Untranslatable`) instead of guessing; the caller then marks the fact unextractable.

Sub-language (values are integers, results Bool or Int):
  names / self.attr        -> looked up in `env` (a dict from dotted Python name to Lean term)
  bool(e)                  -> (e != 0)          (truthiness of an integer)
  not e, a and b, a or b   -> !e, (a && b), (a || b)     (operands must be boolean-typed)
  a < b <= c ... == !=     -> conjunction of `decide (a < b)` ...
  f(a, b) with f bound to an operator.* name in `ops` -> the comparison
  integer literals, + - *  -> Int arithmetic
  x if c else y            -> if c then x else y
"""
from __future__ import annotations

import ast


class Untranslatable(Exception):
    pass


CMP = {ast.Lt: "<", ast.LtE: "≤", ast.Gt: ">", ast.GtE: "≥", ast.Eq: "==", ast.NotEq: "!="}
OPERATOR_FUNCS = {"lt": "<", "le": "≤", "gt": ">", "ge": "≥", "eq": "==", "ne": "!="}


def dotted(node) -> str | None:
    if isinstance(node, ast.Name):
        return node.id
    if isinstance(node, ast.Attribute):
        b = dotted(node.value)
        return None if b is None else b + "." + node.attr
    return None


def cmp_term(op: str, a: str, b: str) -> str:
    if op in ("==", "!="):
        return f"({a} {op} {b})"
    return f"decide ({a} {op} {b})"


class Tr:
    def __init__(self, env: dict[str, str], ops: dict[str, str] | None = None, bool_names: set[str] | None = None):
        self.env = env
        self.ops = ops or {}  # python callable name (dotted) -> comparison symbol
        self.bool_names = bool_names or set()  # dotted names whose value is a Bool

    def is_bool(self, n) -> bool:
        if isinstance(n, (ast.Compare, ast.BoolOp)):
            return True
        if isinstance(n, ast.UnaryOp) and isinstance(n.op, ast.Not):
            return True
        if isinstance(n, ast.Call):
            f = dotted(n.func)
            return f == "bool" or f in self.ops
        if isinstance(n, ast.Constant) and isinstance(n.value, bool):
            return True
        d = dotted(n)
        return d in self.bool_names

    def b(self, n) -> str:
        """Translate as a Bool term (Python truthiness of an int when not already boolean)."""
        if isinstance(n, ast.Constant) and isinstance(n.value, bool):
            return "true" if n.value else "false"
        if isinstance(n, ast.UnaryOp) and isinstance(n.op, ast.Not):
            return f"(!{self.b(n.operand)})"
        if isinstance(n, ast.BoolOp):
            op = "&&" if isinstance(n.op, ast.And) else "||"
            return "(" + f" {op} ".join(self.b(v) for v in n.values) + ")"
        if isinstance(n, ast.Compare):
            terms = []
            left = n.left
            for op, right in zip(n.ops, n.comparators):
                if type(op) not in CMP:
                    raise Untranslatable(ast.dump(op))
                terms.append(cmp_term(CMP[type(op)], self.i(left), self.i(right)))
                left = right
            return terms[0] if len(terms) == 1 else "(" + " && ".join(terms) + ")"
        if isinstance(n, ast.Call):
            f = dotted(n.func)
            if f == "bool" and len(n.args) == 1 and not n.keywords:
                return self.b(n.args[0])
            if f in self.ops and len(n.args) == 2 and not n.keywords:
                return cmp_term(self.ops[f], self.i(n.args[0]), self.i(n.args[1]))
            raise Untranslatable(f"call {f}")
        d = dotted(n)
        if d in self.bool_names and d in self.env:
            return self.env[d]
        # truthiness of an integer-valued expression
        return f"({self.i(n)} != 0)"

    def i(self, n) -> str:
        if isinstance(n, ast.Constant) and isinstance(n.value, int) and not isinstance(n.value, bool):
            return f"({n.value} : Int)"
        if isinstance(n, ast.UnaryOp) and isinstance(n.op, ast.USub):
            return f"(-{self.i(n.operand)})"
        if isinstance(n, ast.BinOp) and type(n.op) in (ast.Add, ast.Sub, ast.Mult):
            s = {ast.Add: "+", ast.Sub: "-", ast.Mult: "*"}[type(n.op)]
            return f"({self.i(n.left)} {s} {self.i(n.right)})"
        if isinstance(n, ast.IfExp):
            return f"(if {self.b(n.test)} then {self.i(n.body)} else {self.i(n.orelse)})"
        d = dotted(n)
        if d is not None and d in self.env and d not in self.bool_names:
            return self.env[d]
        raise Untranslatable(ast.dump(n)[:200])


def find_class(tree: ast.Module, name: str) -> ast.ClassDef:
    for n in tree.body:
        if isinstance(n, ast.ClassDef) and n.name == name:
            return n
    raise Untranslatable(f"class {name} not found")


def find_method(tree: ast.Module, cls: str, meth: str) -> tuple[ast.FunctionDef, str]:
    """Look the method up along the (single-inheritance, same-module) MRO."""
    seen = set()
    while cls and cls not in seen:
        seen.add(cls)
        c = find_class(tree, cls)
        for n in c.body:
            if isinstance(n, ast.FunctionDef) and n.name == meth:
                return n, cls
        cls = next((dotted(b) for b in c.bases if dotted(b) and any(isinstance(x, ast.ClassDef) and x.name == dotted(b) for x in tree.body)), None)
    raise Untranslatable(f"method {meth} not found")


def body_wo_doc(fn: ast.FunctionDef) -> list[ast.stmt]:
    b = list(fn.body)
    if b and isinstance(b[0], ast.Expr) and isinstance(b[0].value, ast.Constant) and isinstance(b[0].value.value, str):
        b = b[1:]
    return b


class _Inline(ast.NodeTransformer):
    def __init__(self, env):
        self.env = env

    def visit_Name(self, node):
        if isinstance(node.ctx, ast.Load) and node.id in self.env:
            import copy

            return copy.deepcopy(self.env[node.id])
        return node


def single_return(fn: ast.FunctionDef) -> ast.expr:
    """The expression a function returns.  Accepted shapes: `return e`, or a straight line of plain local assignments
    `x = e1; y = e2(x); return e3(x, y)` (inlined -- the translated sub-language has no side effects), so that naming an
    intermediate value is not mistaken for a change of behaviour.  Anything else (branches, loops, calls as statements,
    augmented or attribute assignments) is not translated."""
    import copy

    b = body_wo_doc(fn)
    env = {}
    for st in b[:-1]:
        if isinstance(st, ast.Assign) and len(st.targets) == 1 and isinstance(st.targets[0], ast.Name):
            env[st.targets[0].id] = _Inline(dict(env)).visit(copy.deepcopy(st.value))
        else:
            raise Untranslatable(f"{fn.name}: body is not a single return")
    if b and isinstance(b[-1], ast.Return) and b[-1].value is not None:
        return ast.fix_missing_locations(_Inline(env).visit(copy.deepcopy(b[-1].value))) if env else b[-1].value
    raise Untranslatable(f"{fn.name}: body is not a single return")
