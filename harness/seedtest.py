"""Confirm a seeded change and run the property's check against it, in a scratch worktree.

usage: /venv/bin/python harness/seedtest.py <seeded-dir> [--tests "<pytest args>"] [--tier quick]

<seeded-dir> holds patch.diff, demo.py (exit 1 with the change, 0 without) and meta.json with at least
{"property": "Cxx"}.  Steps: (1) demo on the unchanged tree -> 0; (2) worktree + patch: demo -> 1;
(3) optional existing tests on the patched tree; (4) `./check Cxx` with VERIF_REPO/PYTHONPATH pointing at the
patched tree -> expected exit 1 with a VIOLATION line; (5) clean up, re-run the check on the clean tree.
Results are written back into meta.json under "confirmed".
"""
from __future__ import annotations

import json
import os
import subprocess
import sys
import time
from pathlib import Path

VERIF = Path(__file__).resolve().parent.parent


def sh(cmd, env=None, cwd=None, timeout=3600):
    p = subprocess.run(cmd, shell=True, cwd=cwd, env=env, capture_output=True, text=True, timeout=timeout)
    return p.returncode, (p.stdout + p.stderr)


def main():
    d = Path(sys.argv[1]).resolve()
    tests = None
    tier = "quick"
    if "--tests" in sys.argv:
        tests = sys.argv[sys.argv.index("--tests") + 1]
    if "--tier" in sys.argv:
        tier = sys.argv[sys.argv.index("--tier") + 1]
    meta = json.loads((d / "meta.json").read_text())
    prop = meta["property"]
    wt = Path(f"/tmp/seedrun_{d.name}")
    out = {"when": time.strftime("%Y-%m-%d %H:%M:%S")}
    env0 = dict(os.environ, PYTHONPATH="/repo/src")
    rc, txt = sh(f"/venv/bin/python {d / 'demo.py'}", env=env0, cwd="/tmp", timeout=900)
    out["demo_unchanged_rc"] = rc
    sh(f"git -C /repo worktree remove --force {wt}")
    rc, txt = sh(f"git -C /repo worktree add --detach {wt} HEAD && cp /repo/src/bluesky/_version.py {wt}/src/bluesky/")
    assert rc == 0, txt
    try:
        rc, txt = sh(f"git -C {wt} apply {d / 'patch.diff'}")
        out["patch_applies"] = rc == 0
        if rc != 0:
            out["patch_error"] = txt[-500:]
        env1 = dict(os.environ, PYTHONPATH=f"{wt}/src")
        rc, txt = sh(f"/venv/bin/python {d / 'demo.py'}", env=env1, cwd="/tmp", timeout=900)
        out["demo_patched_rc"] = rc
        out["demo_patched_tail"] = txt[-400:]
        if tests:
            rc, txt = sh(f"/venv/bin/python -m pytest -q -p no:cacheprovider --timeout=900 {tests}", env=env1, cwd=str(wt), timeout=7200)
            out["tests_cmd"] = tests
            out["tests_rc"] = rc
            out["tests_tail"] = txt[-600:]
        env2 = dict(os.environ, PYTHONPATH=f"{wt}/src", VERIF_REPO=str(wt))
        t0 = time.time()
        rc, txt = sh(f"./check {prop} --tier {tier}", env=env2, cwd=str(VERIF), timeout=7200)
        out["check_rc"] = rc
        out["check_s"] = round(time.time() - t0, 1)
        out["check_lines"] = [l for l in txt.splitlines() if l.startswith(("VIOLATION", "KNOWN-FINDING", prop))][:8]
        out["caught"] = rc == 1 and any(l.startswith("VIOLATION") for l in txt.splitlines())
        out["caught_with_input"] = out["caught"] and not all("no-failing-input-found" in l for l in txt.splitlines() if l.startswith("VIOLATION"))
    finally:
        sh(f"git -C /repo worktree remove --force {wt}")
    rc, txt = sh(f"./check {prop} --tier quick", cwd=str(VERIF), timeout=7200)
    out["clean_check_rc"] = rc
    meta["confirmed"] = out
    (d / "meta.json").write_text(json.dumps(meta, indent=1))
    print(json.dumps(out, indent=1))


if __name__ == "__main__":
    main()
