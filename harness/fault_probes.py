"""Implementation-only fault probes for the engine family (NOT in the Lean model).

The Lean model of `_run` has no failing document subscriber, no failing `clear_sub`, no Stageable without a
name and no request arriving while the engine stops the motors at the end of a call.  These probes run such
scenarios on the REAL RunEngine only (harness/engine_impl.py: `cb_faults`, modes["clear_sub"], kind "anon",
spec["on_stop"]) and hand the observation to the property's own oracle.  They exist because realistic code
changes in the error paths of `_run`'s exit block / `_close_run` / `_open_run` are invisible to fault-free
scenarios (seeded changes C14-B, C01-C, C06-B, C06-C, C07-C, C07-D, C19-C).
"""
from __future__ import annotations

import copy

from engine_common import M, number, seq

KEYS = ["a", "b", "c"]


def _point(key, det="d1"):
    return [M("create", None, run=key, name="primary"), M("read", det, run=key), M("save", None, run=key)]


def close_fault_scenarios(rng, n):
    """1-3 runs open under different keys, some with a monitored signal; the plan ends normally, by raising or by
    pause + abort/stop/halt; ONE fault hits the closing (or opening) of ONE run."""
    out = []
    for _ in range(n):
        nr = rng.choice([1, 2, 2, 3, 3])
        keys = KEYS[:nr]
        devs = {"d1": {"kind": "det"}, "m1": {"kind": "motor"}}
        monitored = [k for k in keys if rng.random() < 0.6]
        for k in keys:
            devs[f"s{k}"] = {"kind": "sig"}
        body = []
        for k in keys:
            body.append(M("open_run", run=k))
            if k in monitored:
                body.append(M("monitor", f"s{k}", run=k, name=f"s{k}_monitor"))
        body.append(M("checkpoint"))
        for k in keys:
            if rng.random() < 0.8:
                body += _point(k)
        for k in monitored:
            r = rng.random()
            if r < 0.25:
                body.append(M("unmonitor", f"s{k}", run=k))
            elif r < 0.5:   # the plan swallows a failing unmonitor and goes on
                body.append({"k": "try", "body": M("unmonitor", f"s{k}", run=k), "handler": M("null"), "fin": None})
        ending = rng.choice(["close", "close", "raise", "raise-odd", "pause-abort", "pause-stop", "pause-halt", "leave-open"])
        decisions = []
        if ending == "close":
            order = list(keys)
            rng.shuffle(order)
            body += [M("close_run", run=k) for k in order]
        elif ending == "raise":
            body.append({"k": "raise", "tag": "boom"})
        elif ending == "raise-odd":
            # an exception whose first argument is not a string (errno of an OSError, an int key), or without arguments
            body.append({"k": "raise", "tag": "boom", "exc": rng.choice(["oserror", "keyerror-int", "noargs"])})
        elif ending.startswith("pause-"):
            body += [M("checkpoint"), M("pause", None, defer=False), M("null")]
            decisions = [ending.split("-")[1]]
        victim = rng.randrange(nr)
        fkind = rng.choice(["clear_sub", "cb-stop", "cb-stop", "cb-start", "cb-descriptor", "cb-event"] + (["none"] * 6 if ending == "raise-odd" else []))
        sc = {"record_interruptions": False, "devices": devs, "script": {}, "decisions": decisions, "max_arrivals": 200}
        if fkind == "none":
            sc["fault"] = {"kind": "none"}
        elif fkind == "clear_sub":
            if not monitored:
                monitored = [keys[victim]]
                body.insert(1 + 2 * victim if False else body.index(next(b for b in body if b.get("cmd") == "open_run" and b.get("run") == keys[victim])) + 1,
                            M("monitor", f"s{keys[victim]}", run=keys[victim], name=f"s{keys[victim]}_monitor"))
            vk = rng.choice(monitored)
            devs[f"s{vk}"]["modes"] = {"clear_sub": ["raise"]}
            sc["fault"] = {"kind": "clear_sub", "run_key": vk}
        else:
            sc["cb_faults"] = [{"doc": fkind[3:], "run": f"run#{victim}", "nth": 0}]
            sc["fault"] = {"kind": fkind, "run": f"run#{victim}"}
        sc["plan"] = seq(*body)
        sc["ending"] = ending
        sc["tag"] = "fault-probe:close"
        out.append(number(sc))
    return out


def fixed_close_scenarios():
    """always run: a plan that opens 1-2 runs itself, takes a point and dies with an exception whose args[0] is not a
    string / that has no args (no other fault); a failing subscriber / clear_sub for every document kind with 2 runs"""
    out = []
    for exc in ("oserror", "keyerror-int", "noargs"):
        for nr in (1, 2):
            keys = KEYS[:nr]
            body = [M("open_run", run=k) for k in keys] + [M("checkpoint")]
            for k in keys:
                body += _point(k)
            body.append({"k": "raise", "tag": "boom", "exc": exc})
            out.append(number({"record_interruptions": False, "devices": {"d1": {"kind": "det"}}, "script": {}, "decisions": [], "max_arrivals": 200,
                               "plan": seq(*body), "ending": "raise-odd", "fault": {"kind": "none", "exc": exc}, "tag": "fault-probe:close"}))
    for doc in ("start", "descriptor", "event", "stop"):
        for victim in (0, 1):
            for ending in ("close", "raise", "leave-open"):
                body = [M("open_run", run="a"), M("monitor", "sa", run="a", name="sa_monitor"), M("open_run", run="b"), M("checkpoint")] + _point("a") + _point("b")
                if ending == "close":
                    body += [M("close_run", run="a"), M("close_run", run="b")]
                elif ending == "raise":
                    body.append({"k": "raise", "tag": "boom"})
                out.append(number({"record_interruptions": False, "devices": {"d1": {"kind": "det"}, "sa": {"kind": "sig"}}, "script": {}, "decisions": [],
                                   "max_arrivals": 200, "plan": seq(*body), "ending": ending, "cb_faults": [{"doc": doc, "run": f"run#{victim}", "nth": 0}],
                                   "fault": {"kind": "cb-" + doc, "run": f"run#{victim}"}, "tag": "fault-probe:close"}))
    for ending in ("close", "raise", "leave-open"):
        body = [M("open_run", run="a"), M("monitor", "sa", run="a", name="sa_monitor"), M("monitor", "sb", run="a", name="sb_monitor"), M("open_run", run="b"), M("checkpoint")] + _point("a") + _point("b")
        if ending == "close":
            body += [M("close_run", run="a"), M("close_run", run="b")]
        elif ending == "raise":
            body.append({"k": "raise", "tag": "boom"})
        out.append(number({"record_interruptions": False, "devices": {"d1": {"kind": "det"}, "sa": {"kind": "sig", "modes": {"clear_sub": ["raise"]}}, "sb": {"kind": "sig"}},
                           "script": {}, "decisions": [], "max_arrivals": 200, "plan": seq(*body), "ending": ending,
                           "fault": {"kind": "clear_sub", "run_key": "a"}, "tag": "fault-probe:close"}))
    # an explicit unmonitor whose clear_sub fails once (the plan swallows the error or dies from it)
    for swallow in (True, False):
        for ending in ("close", "raise", "leave-open"):
            um = M("unmonitor", "sa", run="a")
            body = [M("open_run", run="a"), M("monitor", "sa", run="a", name="sa_monitor"), M("checkpoint")] + _point("a")
            body.append({"k": "try", "body": um, "handler": M("null"), "fin": None} if swallow else um)
            body += _point("a")
            if ending == "close":
                body.append(M("close_run", run="a"))
            elif ending == "raise":
                body.append({"k": "raise", "tag": "boom"})
            out.append(number({"record_interruptions": False, "devices": {"d1": {"kind": "det"}, "sa": {"kind": "sig", "modes": {"clear_sub": ["raise"]}}},
                               "script": {}, "decisions": [], "max_arrivals": 200, "plan": seq(*body), "ending": ending,
                               "fault": {"kind": "clear_sub", "run_key": "a", "at": "unmonitor", "swallowed": swallow}, "tag": "fault-probe:close"}))
    return out


def teardown_request_scenarios(rng, n):
    """a request (pause / abort / stop / halt / suspend) issued from inside Motor.stop() while the engine stops the
    motors at the END of a call (after the plan finished, raised, or was terminated)"""
    out = []
    for _ in range(n):
        act = rng.choice([{"a": "pause", "defer": False}, {"a": "abort"}, {"a": "stop"}, {"a": "halt"},
                          {"a": "suspend", "fut": 0, "pre": None, "post": None, "just": None}])
        body = [M("open_run"), M("checkpoint"), M("set", "m1", rng.randrange(1, 4), group="g"), M("wait", None, group="g")]
        body += _point(None)
        ending = rng.choice(["close", "raise", "leave-open"])
        if ending == "close":
            body.append(M("close_run"))
        elif ending == "raise":
            body.append({"k": "raise", "tag": "boom"})
        sc = {"record_interruptions": rng.random() < 0.3, "devices": {"d1": {"kind": "det"}, "m1": {"kind": "motor", "on_stop": act}},
              "plan": seq(*body), "script": {}, "decisions": ["resume", "halt"], "max_arrivals": 200,
              "tag": "fault-probe:teardown-request", "fault": {"kind": "request-in-stop", "request": act["a"]}, "ending": ending}
        out.append(number(sc))
    return out


def leftover_stage_scenarios(rng, n):
    """devices left staged at the end of a call (never unstaged, or the call was terminated), some of them without a
    .name, some whose unstage() raises: the exit block must still try every one of them and end idle"""
    out = []
    for _ in range(n):
        nd = rng.choice([1, 2, 3, 3, 4])
        devs = {"d1": {"kind": "det"}}
        names = []
        for i in range(nd):
            nm = f"g{i}"
            kind = rng.choice(["det", "motor", "anon"])
            devs[nm] = {"kind": kind}
            if rng.random() < 0.5:
                devs[nm]["modes"] = {"unstage": ["raise"]}
            names.append(nm)
        body = [M("stage", nm) for nm in names] + [M("open_run"), M("checkpoint")] + _point(None)
        ending = rng.choice(["leave", "raise", "pause-abort", "pause-stop", "pause-halt"])
        decisions = []
        if ending == "leave":
            body.append(M("close_run"))
        elif ending == "raise":
            body.append({"k": "raise", "tag": "boom"})
        else:
            body += [M("pause", None, defer=False), M("null"), M("close_run")] + [M("unstage", nm) for nm in names]
            decisions = [ending.split("-")[1]]
        sc = {"record_interruptions": False, "devices": devs, "plan": seq(*body), "script": {}, "decisions": decisions, "max_arrivals": 200,
              "tag": "fault-probe:leftover-stage", "fault": {"kind": "leftover-stage", "raising": sorted(k for k, v in devs.items() if v.get("modes"))},
              "ending": ending, "staged": names}
        out.append(number(sc))
    return out


def pause_hook_scenarios(rng, n):
    """a Pausable device whose pause() is a coroutine that really takes time (bounded real time): the blocking call
    (RE(...) / resume()) must not hand control back before the hooks have run and the state is 'paused'"""
    out = []
    for i in range(n):
        body = [M("open_run"), M("checkpoint"), M("set", "m1", 1 + i % 3, group="g"), M("wait", None, group="g")]
        body += [M("null")] * rng.randrange(0, 3) + [M("pause", None, defer=False), M("null")]
        if rng.random() < 0.5:
            body += [M("checkpoint"), M("pause", None, defer=False), M("null")]
        body.append(M("close_run"))
        sc = {"record_interruptions": rng.random() < 0.5, "devices": {"m1": {"kind": "motor", "pausable": "async-slow"}}, "plan": seq(*body),
              "script": {}, "decisions": [rng.choice(["resume", "resume", "abort", "stop", "halt"]) for _ in range(3)], "max_arrivals": 200,
              "tag": "fault-probe:pause-hook", "fault": {"kind": "slow-async-pause-hook"}, "ending": "close"}
        out.append(number(sc))
    return out


def list_plan_suspension_scenarios(rng, n):
    """a suspension whose pre / post plans are plain LISTS of messages with non-None responses (set, wait, read ...);
    the helper must run them like any plan and the user's plan must keep receiving its own responses"""
    out = []
    for _ in range(n):
        body = [M("open_run"), M("checkpoint"), M("set", "m1", 1, group="g"), M("wait", None, group="g"), M("sleep", None, 1), M("null")] + _point(None) + [M("close_run")]
        base = {"record_interruptions": False, "devices": {"d1": {"kind": "det"}, "m1": {"kind": "motor"}, "m2": {"kind": "motor"}}, "plan": seq(*body),
                "script": {}, "decisions": [], "max_arrivals": 200}
        pre = seq(M("set", "m2", 5, group="pp"), M("wait", None, group="pp"))
        post = seq(M("set", "m2", 0, group="qq"), M("wait", None, group="qq"), M("null"))
        which = rng.choice(["pre", "post", "both"])
        at = rng.randrange(1, 7)
        act = {"a": "suspend", "fut": 0, "pre": pre if which in ("pre", "both") else None, "post": post if which in ("post", "both") else None, "just": None, "form": "list"}
        sc = dict(base, script={str(at): [act]}, tag="fault-probe:list-plan-suspension", fault={"kind": "list-pre-post-plan", "which": which}, ending="close")
        out.append(number(sc))
    return out


def plan_undisturbed(sc, o):
    """C13: the helper plans of a suspension do not disturb the user's plan: the call ends normally, nothing is thrown into
    the plan, and every run is closed 'success'"""
    bad = []
    thrown = [y for y in o["yields"] if y[1] == "throw"]
    if thrown:
        bad.append((f"exception-thrown-into-plan:{thrown[0][2]}", f"{thrown[0][2]} was thrown into the user's plan at msg #{thrown[0][0]} during a suspension with {sc['fault']}"))
    for r in o["returns"]:
        if r[1] not in ("return",):
            bad.append((f"call-ended-{r[1]}", f"{r[0]} ended with {r[1]} ({o['return_texts']}) although only a suspension with list-valued pre/post plans happened"))
    for d in o["docs"]:
        if d["k"] == "stop" and d["exit"] != "success":
            bad.append(("run-not-success", f"{d['run']} closed with {d['exit']!r} ({d['reason_text']!r})"))
    return bad


def stop_dispatch_scenarios(rng, n):
    """a subscriber writes to a monitored signal WHILE the RunStop of its run is being dispatched: the run is over, nothing
    may be emitted for it any more and the numbers in the RunStop stay true"""
    out = []
    for i in range(n):
        key = rng.choice([None, "a"])
        body = [M("open_run", run=key), M("monitor", "s1", run=key, name="s1_monitor"), M("checkpoint")] + _point(key)
        body += [M("null")] * rng.randrange(0, 3)
        if rng.random() < 0.25:
            body += [M("unmonitor", "s1", run=key)]
        ending = "close" if rng.random() < 0.8 else "leave-open"
        if ending == "close":
            body += [M("close_run", run=key)]
        sc = {"record_interruptions": False, "devices": {"s1": {"kind": "sig"}, "d1": {"kind": "det"}}, "plan": seq(*body), "script": {"2": [{"a": "monitor", "sig": "s1", "v": 5}]},
              "decisions": [], "max_arrivals": 100, "doc_triggers": {"stop": [{"a": "monitor", "sig": "s1", "v": 7000 + i}]},
              "tag": "fault-probe:stop-dispatch", "fault": {"kind": "update-while-stop-is-dispatched"}, "ending": ending}
        out.append(number(sc))
    return out


def num_events_true(sc, o):
    """the RunStop's num_events equals the events emitted for that run, per stream"""
    bad = []
    for stop in [d for d in o["docs"] if d["k"] == "stop"]:
        r = stop["run"]
        per = {}
        for d in o["docs"]:
            if d["k"] == "event" and d["run"] == r:
                per.setdefault(d["stream"], set()).add(d["seq"])
        for st, seqs in per.items():
            if stop["num_events"].get(st, 0) != len(seqs):
                bad.append(("num_events-differs-from-events-emitted", f"{r}/{st}: seq_nums {sorted(seqs)} were emitted but RunStop.num_events = {stop['num_events'].get(st, 0)} (fault: {sc.get('fault')})"))
    return bad


def odd_status_scenarios(rng, n):
    """a device action whose Status ends done / NOT successful while exception() returns None (allowed by the Status
    protocol): the failure reaches the plan as FailedStatus at the wait of its group all the same"""
    out = []
    for _ in range(n):
        cmd = rng.choice(["set", "trigger"])
        dev = "m1" if cmd == "set" else "d1"
        args = [2] if cmd == "set" else []
        act = M(cmd, dev, *args, group="g")
        body = [M("open_run"), M("checkpoint"), act, M("null"), M("wait", None, group="g"), M("null"), M("close_run")]
        handled = rng.random() < 0.5
        if handled:
            body = [M("open_run"), M("checkpoint"), act, {"k": "try", "body": seq(M("wait", None, group="g"), M("null")), "handler": M("null"), "fin": None}, M("close_run")]
        sc = {"record_interruptions": False, "devices": {"m1": {"kind": "motor", "modes": {"set": ["fail-noexc"]}}, "d1": {"kind": "det", "modes": {"trigger": ["fail-noexc"]}}},
              "plan": seq(*body), "script": {}, "decisions": [], "max_arrivals": 100, "tag": "fault-probe:odd-status",
              "fault": {"kind": "failed-status-without-exception", "cmd": cmd, "handled": handled}, "ending": "close"}
        out.append(number(sc))
    return out


def failed_status_delivered(sc, o):
    bad = []
    thrown = [y for y in o["yields"] if y[1] in ("throw", "caught") and y[2] == "FailedStatus"]
    if not thrown:
        bad.append(("failed-status-without-exception-treated-as-success", f"{sc['fault']['cmd']} ended with a Status done / not successful (exception() is None): no FailedStatus reached the plan; the call ended {[r[1] for r in o['returns']]}"))
    elif not sc["fault"]["handled"] and not any(r[1] == "raise:FailedStatus" for r in o["returns"]):
        bad.append(("unhandled-failed-status-does-not-end-the-call", f"calls ended {[r[1] for r in o['returns']]}"))
    return bad


def cross_run_checkpoint_scenarios(rng, n):
    """two runs interleaved at message level; a checkpoint (addressed to the other run, or to none) arrives while one run is
    between create and save: it is rejected like any checkpoint inside a bundle (the rewind point is shared by all runs)"""
    out = []
    for _ in range(n):
        ck_key = rng.choice(["b", None, "a"])
        body = [M("open_run", run="a"), M("open_run", run="b"), M("checkpoint"),
                M("create", None, run="a", name="primary"), M("read", "d1", run="a")]
        ck = M("checkpoint", None, run=ck_key)
        body.append({"k": "try", "body": ck, "handler": M("null"), "fin": None})
        body += [M("null"), M("save", None, run="a"), M("close_run", run="a"), M("close_run", run="b")]
        sc = {"record_interruptions": False, "devices": {"d1": {"kind": "det"}}, "plan": seq(*body), "script": {}, "decisions": ["resume"] * 3, "max_arrivals": 100,
              "tag": "fault-probe:cross-run-checkpoint", "fault": {"kind": "checkpoint-inside-another-runs-bundle", "checkpoint_run": ck_key}, "ending": "close"}
        out.append(number(sc))
    return out


def checkpoint_rejected(sc, o):
    bad = []
    ck = [y for y in o["yields"] if y[1] in ("caught", "throw") and y[2] == "IllegalMessageSequence"]
    if not ck:
        bad.append(("checkpoint-inside-another-runs-bundle-accepted", f"checkpoint(run={sc['fault']['checkpoint_run']!r}) while run 'a' was between create and save was not rejected with IllegalMessageSequence"))
    for r in o["returns"]:
        if r[1] not in ("return", "raise:RunEngineInterrupted"):
            bad.append((f"call-ended-{r[1]}", f"{r[0]} ended with {r[1]} ({o['return_texts']})"))
    evs = [d for d in o["docs"] if d["k"] == "event" and d["run"] == "run#0"]
    if o["final_state"] == "idle" and not evs:
        bad.append(("event-of-the-open-bundle-lost", "run 'a' ended without the event of the bundle that was open when the checkpoint arrived"))
    return bad


def grace_sleep_pause_scenarios(rng, n):
    """a deferred pause is pending; while _checkpoint sits in its 0.5 s grace sleep (arrival 'ckpt') an IMMEDIATE pause
    request arrives (the documented second Ctrl+C): the engine pauses AT the checkpoint and the resume replays nothing"""
    import engine_impl as EI

    out = []
    for _ in range(n):
        k = rng.randrange(1, 4)
        body = [M("open_run"), M("checkpoint")] + [M("null") for _ in range(k)] + [M("set", "m1", 1, group="g"), M("wait", None, group="g"), M("checkpoint"), M("null"), M("null"), M("close_run")]
        base = {"record_interruptions": rng.random() < 0.5, "devices": {"m1": {"kind": "motor"}}, "plan": seq(*body), "script": {"2": [{"a": "pause", "defer": True}]},
                "decisions": ["resume"] * 3 + ["halt"], "max_arrivals": 200}
        probe = EI.run_scenario(number(copy.deepcopy(base)))
        ck = [i for i, a in enumerate(probe["arrivals"]) if a == "ckpt"]
        if not ck:
            continue
        sc = copy.deepcopy(base)
        sc["script"][str(ck[0])] = [{"a": "pause", "defer": False}]
        sc.update(tag="fault-probe:grace-sleep-pause", fault={"kind": "immediate-pause-in-the-checkpoint-grace-sleep"}, ending="close")
        out.append(number(sc))
    return out


def resume_replays_nothing(sc, o):
    bad = []
    if not any(t[1] == "paused" for t in o["trans"]):
        bad.append(("did-not-pause-at-the-checkpoint", f"transitions {o['trans']}, returns {[r[:3] for r in o['returns']]}"))
        return bad
    mids = [m[3] for m in o["msgs"] if m[3] is not None]
    dup = sorted({x for x in mids if mids.count(x) > 1})
    if dup:
        names = [m[0] for m in o["msgs"] if m[3] in dup]
        bad.append(("resume-after-pause-at-checkpoint-replays", f"the engine paused at the checkpoint (immediate pause during the grace sleep of a pending deferred pause) and the resume replayed messages #{dup} ({names})"))
    if o["final_state"] != "idle":
        bad.append((f"ended-{o['final_state']}", f"returns {[r[:3] for r in o['returns']]}"))
    return bad


def async_stop_scenarios(rng, n):
    """a moved device whose stop() is a coroutine that really suspends; the plan itself asks for a pause (or a deferred pause
    fires at a checkpoint) inside a non-resumable section with a run open: the engine aborts, closes the run 'abort' and ends
    idle -- the exit block of _run is not torn down by the plan's own pending cancellation"""
    out = []
    for _ in range(n):
        how = rng.choice(["pause-message", "deferred-at-checkpoint", "pause-message-resumable"])
        body = [M("open_run"), M("checkpoint"), M("set", "m1", rng.randrange(1, 4), group="g"), M("wait", None, group="g")]
        if how != "pause-message-resumable":
            body.append(M("clear_checkpoint"))
        body.append(M("null"))
        if how == "deferred-at-checkpoint":
            body += [M("pause", None, defer=True), M("null"), M("checkpoint")]
        else:
            body.append(M("pause", None, defer=False))
        body += [M("null")]
        if rng.random() < 0.5:
            body.append(M("close_run"))
        sc = {"record_interruptions": False, "devices": {"m1": {"kind": "motor", "stoppable": "async"}}, "plan": seq(*body), "script": {},
              "decisions": [rng.choice(["resume", "abort", "stop", "halt"])], "max_arrivals": 200, "tag": "fault-probe:async-stop",
              "fault": {"kind": "async-stop-device", "how": how}, "ending": "leave-open"}
        out.append(number(sc))
    return out


def all_scenarios(rng, n):
    a = close_fault_scenarios(rng, n)
    b = teardown_request_scenarios(rng, max(1, n // 3))
    c = leftover_stage_scenarios(rng, max(1, n // 2))
    return a + b + c


# ----------------------------------------------------------------------------- generic expectations
def ends_usable(sc, o):
    """every blocking call returned and left the engine idle or paused (no transient state, no hang)"""
    bad = []
    for r in o["returns"]:
        if r[1] == "hang":
            bad.append(("call-hangs", f"{r[0]} never returned (state {r[2]})"))
        elif r[2] not in ("idle", "paused"):
            bad.append((f"stuck-in-{r[2]}", f"{r[0]} ended with {r[1]} but the engine is left in state {r[2]!r}"))
    return bad


def every_run_closed_once(sc, o):
    """when the engine is idle again every run that got a RunStart has exactly one RunStop"""
    bad = []
    if o["final_state"] != "idle":
        return bad
    starts = [d["run"] for d in o["docs"] if d["k"] == "start"]
    for r in starts:
        n = sum(1 for d in o["docs"] if d["k"] == "stop" and d.get("run") == r)
        if n != 1:
            bad.append((f"run-with-{n}-stops", f"{r} has {n} RunStop documents although the engine is idle (fault: {sc.get('fault')}, ending {sc.get('ending')})"))
    return bad


def nothing_left_behind(sc, o):
    """at idle no monitored signal keeps a subscription and every staged device was asked to unstage"""
    bad = []
    if o["final_state"] != "idle":
        return bad
    for name, n in o.get("subs_left", {}).items():
        if n:
            bad.append(("monitor-subscription-left", f"{name} still has {n} subscription(s) at idle (fault: {sc.get('fault')}, ending {sc.get('ending')})"))
    for nm in sc.get("staged", []):
        calls = sum(1 for e in o["ledger"] if e[0] == nm and e[1] == "unstage")
        if calls == 0:
            bad.append(("staged-device-never-unstaged", f"{nm} was staged, the call ended ({sc.get('ending')}) and unstage() was never called on it"))
    return bad


def other_runs_closed(sc, o):
    """C14: a fault while opening / closing ONE run must not cost ANOTHER run its RunStop"""
    bad = []
    if o["final_state"] != "idle":
        return bad
    victim = sc.get("fault", {}).get("run")
    if sc.get("fault", {}).get("kind") == "clear_sub":
        vk = sc["fault"]["run_key"]
        victim = f"run#{KEYS.index(vk)}"
    for r in [d["run"] for d in o["docs"] if d["k"] == "start"]:
        if r == victim:
            continue
        n = sum(1 for d in o["docs"] if d["k"] == "stop" and d.get("run") == r)
        if n != 1:
            bad.append((f"independence:other-run-has-{n}-stops", f"{r} has {n} RunStop documents after a fault that hit only {victim} ({sc.get('fault')}, ending {sc.get('ending')})"))
    return bad


def callback_exception_policy(sc, o):
    """C19 (engine half, ignore_callback_exceptions = False): an exception raised by a subscriber while the plan is
    running ends the blocking call with that exception, and every run is closed (the ones the engine closes: 'fail')"""
    bad = []
    fired = o.get("cb_faults_fired") or []
    if not fired:
        return bad
    name, run = fired[0]
    by_engine = name == "stop" and run in o.get("engine_closed", [])
    if by_engine:
        return bad       # raised while the exit block closes the runs: logged and swallowed, nothing to propagate
    if not any(r[1] == "raise:CallbackFault" for r in o["returns"]):
        bad.append((f"callback-exception-not-propagated:{name}", f"a subscriber raised on the {name} document of {run} but no blocking call ended with that exception: {[r[:3] for r in o['returns']]}"))
    for r in [d["run"] for d in o["docs"] if d["k"] == "start"]:
        stops = [d for d in o["docs"] if d["k"] == "stop" and d.get("run") == r]
        if o["final_state"] == "idle" and len(stops) != 1:
            bad.append((f"run-not-closed-after-callback-exception:{name}", f"{r} has {len(stops)} RunStop documents after a subscriber raised on the {name} document of {run}"))
        for d in stops:
            if r in o.get("engine_closed", []) and d["exit"] != "fail":
                bad.append((f"run-not-closed-as-failed:{name}", f"{r} was closed by the engine with exit_status {d['exit']!r} after a subscriber raised on the {name} document of {run}"))
    return bad


FAMILIES = {"async-stop": async_stop_scenarios, "grace-sleep-pause": grace_sleep_pause_scenarios, "stop-dispatch": stop_dispatch_scenarios, "odd-status": odd_status_scenarios, "cross-run-checkpoint": cross_run_checkpoint_scenarios, "list-plan-suspension": list_plan_suspension_scenarios, "pause-hook": pause_hook_scenarios, "close": close_fault_scenarios, "teardown-request": teardown_request_scenarios, "leftover-stage": leftover_stage_scenarios}


def run_probes(ctx, res, judges, families, quick, thorough):
    import common as C
    import engine_impl as EI

    n = ctx.budget(quick, thorough)
    total = 0
    for fam in families:
        for sc in (fixed_close_scenarios() if fam == "close" else []) + FAMILIES[fam](ctx.rng, n):
            o = EI.run_scenario(sc)
            total += 1
            res.seen(sc, True)
            res.count(f"impl-only-{sc['tag']}:{sc['fault']['kind']}:{sc['ending']}")
            for judge in judges:
                for sig, what in judge(sc, o):
                    res.violations.append(C.Violation("fault-probe:" + sig, f"implementation-only fault probe ({sc['tag']}): " + what, sc))
    res.notes.append(f"{total} implementation-only fault probes ({', '.join(families)}): failing subscriber / clear_sub / unstage, nameless Stageable, "
                     "request from inside Motor.stop() at the end of a call -- situations the Lean model of _run does not contain")
    res.rule += f" | fault probes (implementation only): {', '.join(families)}"


def is_probe(data):
    return str((data.get("case") or {}).get("tag", "")).startswith("fault-probe:")


def replay_probe(ctx, data, judges):
    import common as C
    import engine_impl as EI

    res = C.Result()
    sc = data["case"]
    o = EI.run_scenario(sc)
    res.seen(sc, True)
    for judge in judges:
        for sig, what in judge(sc, o):
            res.violations.append(C.Violation("fault-probe:" + sig, what, sc))
    return res


def no_document_after_stop(sc, o):
    """C41 / C01: once a run has its RunStop nothing more is emitted for it (a leaked monitor subscription would)"""
    bad = []
    closed = set()
    for d in o["docs"]:
        r = d.get("run")
        if d["k"] == "stop":
            closed.add(r)
        elif r in closed:
            bad.append((f"{d['k']}-after-stop", f"a {d['k']} document of {r} ({d.get('stream')}) was emitted after its RunStop (fault: {sc.get('fault')}, ending {sc.get('ending')})"))
            break
    return bad
