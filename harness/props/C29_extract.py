"""Translator for C29: re-reads `adaptive_scan.adaptive_core` and `tune_centroid._tune_core` from the
CURRENT src/bluesky/plans.py and regenerates
    lean/BlueskyVerif/Pure/AdaptiveGenerated.lean   and   lean/BlueskyVerif/Pure/TuneGenerated.lean.

What is extracted: every arithmetic / comparison expression of the two loops (initial step, direction
test, loop condition, slope, both `new_step` formulas with their clamps and constants, the backstep
test and both branches' updates, the weights 0.2/0.8; tune: validity guards, limits, step, loop guard,
accumulators, in-range test, zero guard, centroid, new range, the two clips) -- translated from the
AST into Lean terms over `Rat` (a decimal literal `0.2` becomes the rational 1/5).

What is NOT extracted but *recognised*: the statement skeleton (order of statements, which variable
each statement assigns, the `continue`, the `return`, the final `mv`).  The hand-written models
(Pure/Adaptive.lean, Pure/Tune.lean) transcribe that skeleton; if the skeleton of the source differs
from the one recognised here the extractor raises `Unrecognised` (never guesses) and the check reports
the obligations as no longer checked.
"""
from __future__ import annotations

import ast
from fractions import Fraction

import common as C


class Unrecognised(Exception):
    pass


CMP = {ast.Lt: "<", ast.LtE: "≤", ast.Gt: ">", ast.GtE: "≥"}


def _dotted(n):
    if isinstance(n, ast.Name):
        return n.id
    if isinstance(n, ast.Attribute):
        b = _dotted(n.value)
        return None if b is None else b + "." + n.attr
    return None


class Tr:
    """Python numeric/boolean expression -> Lean term over Rat/Bool.  `nums`/`bools` = names allowed to
    occur free (they become the Lean function's parameters)."""

    def __init__(self, nums, bools=()):
        self.nums, self.bools = list(nums), list(bools)
        self.used = set()

    def lit(self, v):
        if isinstance(v, bool) or not isinstance(v, (int, float)):
            raise Unrecognised(f"literal {v!r}")
        f = Fraction(v) if isinstance(v, int) else Fraction(repr(v))
        if f.denominator == 1:
            return f"({f.numerator} : Rat)"
        return f"(({f.numerator} : Rat) / {f.denominator})"

    def r(self, n) -> str:
        if isinstance(n, ast.Constant):
            return self.lit(n.value)
        if isinstance(n, ast.Name):
            if n.id not in self.nums:
                raise Unrecognised(f"unexpected variable {n.id!r} (allowed: {self.nums})")
            self.used.add(n.id)
            return n.id
        if isinstance(n, ast.UnaryOp) and isinstance(n.op, ast.USub):
            return f"(-{self.r(n.operand)})"
        if isinstance(n, ast.UnaryOp) and isinstance(n.op, ast.UAdd):
            return self.r(n.operand)
        if isinstance(n, ast.BinOp) and type(n.op) in (ast.Add, ast.Sub, ast.Mult, ast.Div):
            s = {ast.Add: "+", ast.Sub: "-", ast.Mult: "*", ast.Div: "/"}[type(n.op)]
            return f"({self.r(n.left)} {s} {self.r(n.right)})"
        if isinstance(n, ast.Call) and not n.keywords:
            f = _dotted(n.func)
            a = n.args
            if f in ("abs", "np.abs", "np.absolute", "numpy.abs") and len(a) == 1:
                return f"(rabs {self.r(a[0])})"
            if f in ("np.clip", "numpy.clip") and len(a) == 3:
                return f"(rclip {self.r(a[0])} {self.r(a[1])} {self.r(a[2])})"
            if f in ("min", "max") and len(a) == 2:
                return f"(r{f} {self.r(a[0])} {self.r(a[1])})"
            if f in ("np.min", "np.max", "np.amin", "np.amax") and len(a) == 1 and isinstance(a[0], (ast.List, ast.Tuple)) and len(a[0].elts) == 2:
                k = "rmin" if "min" in f else "rmax"
                return f"({k} {self.r(a[0].elts[0])} {self.r(a[0].elts[1])})"
            if f in ("np.minimum", "np.maximum") and len(a) == 2:
                k = "rmin" if "min" in f else "rmax"
                return f"({k} {self.r(a[0])} {self.r(a[1])})"
        raise Unrecognised("expression " + ast.unparse(n))

    def b(self, n) -> str:
        if isinstance(n, ast.Constant) and isinstance(n.value, bool):
            return "true" if n.value else "false"
        if isinstance(n, ast.UnaryOp) and isinstance(n.op, ast.Not):
            return f"(!{self.b(n.operand)})"
        if isinstance(n, ast.BoolOp):
            op = " && " if isinstance(n.op, ast.And) else " || "
            return "(" + op.join(self.b(v) for v in n.values) + ")"
        if isinstance(n, ast.Compare):
            terms, left = [], n.left
            for op, right in zip(n.ops, n.comparators):
                if type(op) in CMP:
                    terms.append(f"decide ({self.r(left)} {CMP[type(op)]} {self.r(right)})")
                elif isinstance(op, ast.Eq):
                    terms.append(f"({self.r(left)} == {self.r(right)})")
                elif isinstance(op, ast.NotEq):
                    terms.append(f"({self.r(left)} != {self.r(right)})")
                else:
                    raise Unrecognised("comparison " + ast.unparse(n))
                left = right
            return terms[0] if len(terms) == 1 else "(" + " && ".join(terms) + ")"
        if isinstance(n, ast.Name) and n.id in self.bools:
            self.used.add(n.id)
            return n.id
        # truthiness of a number
        return f"({self.r(n)} != 0)"


def _fn(name, nums, bools, kind, node, doc, where):
    """One generated Lean definition whose parameters are exactly `bools` then `nums`."""
    tr = Tr(nums, bools)
    body = tr.b(node) if kind == "Bool" else tr.r(node)
    params = "".join(f" ({b} : Bool)" for b in bools) + (" (" + " ".join(nums) + " : Rat)" if nums else "")
    text = [f"/-- plans.py:{where}  `{doc}` -/", f"def {name}{params} : {kind} :=", f"  {body}", ""]
    return text, {"lean": body, "source": doc, "where": f"plans.py:{where}"}


def _u(n):
    return ast.unparse(n)


def _expect(stmt, text, what):
    if stmt is None or _u(stmt) != text:
        raise Unrecognised(f"{what}: expected `{text}`, found `{_u(stmt)[:120] if stmt is not None else None}`")


def _assign_to(stmt, name, what):
    if not (isinstance(stmt, ast.Assign) and len(stmt.targets) == 1 and isinstance(stmt.targets[0], ast.Name) and stmt.targets[0].id == name):
        raise Unrecognised(f"{what}: expected `{name} = ...`, found `{_u(stmt)[:120]}`")
    return stmt.value


def _aug(stmt, name, what):
    """`name += e` / `name -= e`  ->  AST of `name + e` / `name - e`."""
    if not (isinstance(stmt, ast.AugAssign) and isinstance(stmt.target, ast.Name) and stmt.target.id == name and isinstance(stmt.op, (ast.Add, ast.Sub))):
        raise Unrecognised(f"{what}: expected `{name} +=/-= ...`, found `{_u(stmt)[:120]}`")
    return ast.BinOp(left=ast.Name(id=name, ctx=ast.Load()), op=stmt.op, right=stmt.value)


def _is_yield(st):
    return isinstance(st, ast.Expr) and isinstance(st.value, (ast.Yield, ast.YieldFrom))


def _find_plan(tree, plan, core):
    fn = next((n for n in tree.body if isinstance(n, ast.FunctionDef) and n.name == plan), None)
    if fn is None:
        raise Unrecognised(f"{plan} not found")
    inner = next((n for n in fn.body if isinstance(n, ast.FunctionDef) and n.name == core), None)
    if inner is None:
        raise Unrecognised(f"{plan}.{core} not found")
    return fn, inner


def _raise_guards(fn):
    """top-level `if COND: raise ValueError(...)` statements of the plan function, in order."""
    out = []
    for st in fn.body:
        if isinstance(st, ast.If) and len(st.body) == 1 and isinstance(st.body[0], ast.Raise) and not st.orelse:
            exc = st.body[0].exc
            cls = _dotted(exc.func) if isinstance(exc, ast.Call) else _dotted(exc)
            out.append((st.test, cls, st.lineno))
    return out


HEADER = [
    "import BlueskyVerif.Pure.C29RatOps",
    "set_option linter.unusedVariables false",
]


# ------------------------------------------------------------------------------------------ adaptive_scan


def extract_adaptive(tree):
    fn, core = _find_plan(tree, "adaptive_scan", "adaptive_core")
    out = ["-- GENERATED by harness/props/C29_extract.py from src/bluesky/plans.py (adaptive_scan) -- do not edit."] + HEADER
    out += ["namespace BlueskyVerif.Pure.AdaptiveGen", "open BlueskyVerif.Pure.C29", ""]
    facts = {}

    def add(name, nums, bools, kind, node, where):
        text, fact = _fn(name, nums, bools, kind, node, _u(node), where)
        out.extend(text)
        facts["adaptive." + name] = fact

    guards = _raise_guards(fn)
    if len(guards) != 1 or guards[0][1] != "ValueError":
        raise Unrecognised(f"adaptive_scan: expected exactly one `if ...: raise ValueError` guard, found {[(_u(g[0]), g[1]) for g in guards]}")
    add("rejects", ["min_step", "max_step"], [], "Bool", guards[0][0], guards[0][2])

    body = [st for st in core.body]
    it = iter(body)
    _expect(next(it, None), "next_pos = start", "adaptive_core[0]")
    st = next(it, None)
    add("initStep", ["start", "stop", "min_step", "max_step"], [], "Rat", _assign_to(st, "step", "adaptive_core[1]"), st.lineno)
    _expect(next(it, None), "past_I = None", "adaptive_core[2]")
    _expect(next(it, None), "cur_I = None", "adaptive_core[3]")
    _expect(next(it, None), "cur_det = {}", "adaptive_core[4]")
    st = next(it, None)
    if not (isinstance(st, ast.If) and len(st.body) == 1 and len(st.orelse) == 1):
        raise Unrecognised("adaptive_core: direction_sign `if` not recognised: " + _u(st)[:120])
    v1 = _assign_to(st.body[0], "direction_sign", "direction then-branch")
    v2 = _assign_to(st.orelse[0], "direction_sign", "direction else-branch")
    dir_expr = ast.IfExp(test=st.test, body=v1, orelse=v2)
    tr = Tr(["start", "stop"])
    lean = f"if {tr.b(st.test)} then {tr.r(v1)} else {tr.r(v2)}"
    out.extend([f"/-- plans.py:{st.lineno}  `{_u(dir_expr)}` -/", "def dirSign (start stop : Rat) : Rat :=", f"  {lean}", ""])
    facts["adaptive.dirSign"] = {"lean": lean, "source": _u(dir_expr), "where": f"plans.py:{st.lineno}"}
    # anything between the direction test and the loop must not touch the loop variables
    loop = None
    for st in it:
        if isinstance(st, ast.While):
            loop = st
            break
        names = {n.id for n in ast.walk(st) if isinstance(n, ast.Name) and isinstance(n.ctx, ast.Store)}
        if names & {"next_pos", "step", "past_I", "cur_I", "direction_sign", "start", "stop"}:
            raise Unrecognised("adaptive_core: unexpected assignment before the loop: " + _u(st)[:120])
    if loop is None or loop.orelse or next(it, None) is not None:
        raise Unrecognised("adaptive_core: expected the while loop as the last statement")
    add("loopCond", ["next_pos", "stop", "start", "direction_sign"], [], "Bool", loop.test, loop.lineno)

    lb = list(loop.body)
    # the measurement prologue: checkpoint, mv(motor, next_pos), create, trigger*, wait, read*, save
    pro = []
    while lb and (_is_yield(lb[0]) or isinstance(lb[0], ast.For)):
        pro.append(lb.pop(0))
    pro_txt = [_u(s) for s in pro]
    want = [
        "yield Msg('checkpoint')",
        "yield from bps.mv(motor, next_pos)",
        "yield Msg('create', None, name='primary')",
        "for det in detectors:\n    yield Msg('trigger', det, group='B')",
        "yield Msg('wait', None, 'B')",
        "for det in devices:\n    cur_det = (yield Msg('read', det))\n    if target_field in cur_det:\n        cur_I = cur_det[target_field]['value']",
        "yield Msg('save')",
    ]
    if pro_txt != want:
        raise Unrecognised(f"adaptive_core loop prologue differs: {pro_txt}")
    it = iter(lb)
    st = next(it, None)
    if not (isinstance(st, ast.If) and _u(st.test) == "past_I is None" and not st.orelse and len(st.body) == 3):
        raise Unrecognised("adaptive_core: first-iteration special case not recognised: " + _u(st)[:200])
    _expect(st.body[0], "past_I = cur_I", "first-iteration[0]")
    add("firstNext", ["next_pos", "step", "direction_sign"], [], "Rat", _aug(st.body[1], "next_pos", "first-iteration[1]"), st.body[1].lineno)
    _expect(st.body[2], "continue", "first-iteration[2]")
    st = next(it, None)
    add("dI", ["cur_I", "past_I"], [], "Rat", _assign_to(st, "dI", "loop: dI"), st.lineno)
    st = next(it, None)
    add("slope", ["dI", "step"], [], "Rat", _assign_to(st, "slope", "loop: slope"), st.lineno)
    st = next(it, None)
    if not (isinstance(st, ast.If) and len(st.body) == 1 and len(st.orelse) == 1):
        raise Unrecognised("adaptive_core: `if slope:` not recognised: " + _u(st)[:200])
    add("slopeTruthy", ["slope", "dI", "step"], [], "Bool", st.test, st.lineno)
    nums = ["target_delta", "slope", "step", "min_step", "max_step"]
    add("newStepSloped", nums, [], "Rat", _assign_to(st.body[0], "new_step", "new_step (sloped)"), st.body[0].lineno)
    add("newStepFlat", nums, [], "Rat", _assign_to(st.orelse[0], "new_step", "new_step (flat)"), st.orelse[0].lineno)
    st = next(it, None)
    if not (isinstance(st, ast.If) and len(st.body) == 2 and len(st.orelse) == 2):
        raise Unrecognised("adaptive_core: backstep `if` not recognised: " + _u(st)[:200])
    add("backCond", ["new_step", "step", "threshold"], ["backstep"], "Bool", st.test, st.lineno)
    nums = ["next_pos", "step", "new_step", "direction_sign"]
    add("backNext", nums, [], "Rat", _aug(st.body[0], "next_pos", "backstep[0]"), st.body[0].lineno)
    add("backStep", ["step", "new_step"], [], "Rat", _assign_to(st.body[1], "step", "backstep[1]"), st.body[1].lineno)
    _expect(st.orelse[0], "past_I = cur_I", "accept[0]")
    add("fwdStep", ["step", "new_step"], [], "Rat", _assign_to(st.orelse[1], "step", "accept[1]"), st.orelse[1].lineno)
    st = next(it, None)
    add("finalNext", ["next_pos", "step", "direction_sign"], [], "Rat", _aug(st, "next_pos", "loop: final next_pos update"), st.lineno)
    if next(it, None) is not None:
        raise Unrecognised("adaptive_core: unexpected trailing statement in the loop")
    out += ["end BlueskyVerif.Pure.AdaptiveGen", ""]
    return "\n".join(out), facts


# ------------------------------------------------------------------------------------------ tune_centroid


def extract_tune(tree):
    fn, core = _find_plan(tree, "tune_centroid", "_tune_core")
    out = ["-- GENERATED by harness/props/C29_extract.py from src/bluesky/plans.py (tune_centroid) -- do not edit."] + HEADER
    out += ["namespace BlueskyVerif.Pure.TuneGen", "open BlueskyVerif.Pure.C29", ""]
    facts = {}

    def add(name, nums, bools, kind, node, where):
        text, fact = _fn(name, nums, bools, kind, node, _u(node), where)
        out.extend(text)
        facts["tune." + name] = fact

    guards = _raise_guards(fn)
    if not guards or any(g[1] != "ValueError" for g in guards):
        raise Unrecognised("tune_centroid: `raise ValueError` guards not recognised")
    test = guards[0][0] if len(guards) == 1 else ast.BoolOp(op=ast.Or(), values=[g[0] for g in guards])
    add("rejects", ["min_step", "step_factor", "start", "stop"], [], "Bool", test, guards[0][2])
    # low_limit / high_limit in the enclosing function
    lim = {}
    for st in fn.body:
        if isinstance(st, ast.Assign) and len(st.targets) == 1 and isinstance(st.targets[0], ast.Name) and st.targets[0].id in ("low_limit", "high_limit"):
            lim[st.targets[0].id] = st
    if set(lim) != {"low_limit", "high_limit"}:
        raise Unrecognised("tune_centroid: low_limit/high_limit assignments not found")
    add("lowLimit", ["start", "stop"], [], "Rat", lim["low_limit"].value, lim["low_limit"].lineno)
    add("highLimit", ["start", "stop"], [], "Rat", lim["high_limit"].value, lim["high_limit"].lineno)
    if [a.arg for a in core.args.args] != ["start", "stop", "num", "signal"]:
        raise Unrecognised("_tune_core signature changed")

    it = iter(core.body)
    _expect(next(it, None), "next_pos = start", "_tune_core[0]")
    st = next(it, None)
    step_expr = _assign_to(st, "step", "_tune_core[1]")
    # step = NUMERATOR / DENOMINATOR with the (integer) point count only in the denominator
    if not (isinstance(step_expr, ast.BinOp) and isinstance(step_expr.op, ast.Div)):
        raise Unrecognised("_tune_core: step is not a quotient: " + _u(step_expr))
    add("stepNum", ["start", "stop"], [], "Rat", step_expr.left, st.lineno)
    add("stepDen", ["num"], [], "Rat", step_expr.right, st.lineno)
    step_text = _u(step_expr)
    _expect(next(it, None), "peak_position = None", "_tune_core[2]")
    _expect(next(it, None), "cur_I = None", "_tune_core[3]")
    _expect(next(it, None), "sum_I = 0", "_tune_core[4]")
    _expect(next(it, None), "sum_xI = 0", "_tune_core[5]")
    st = next(it, None)
    if isinstance(st, ast.If) and "BLUESKY_PREDECLARE" in _u(st.test):
        st = next(it, None)
    loop = st
    if not isinstance(loop, ast.While) or loop.orelse:
        raise Unrecognised("_tune_core: while loop not found")
    add("guard", ["step", "min_step", "low_limit", "next_pos", "high_limit"], [], "Bool", loop.test, loop.lineno)
    fin = next(it, None)
    # finally: `if peak_position is not None: peak_position = <clamp>; yield from bps.mv(motor, peak_position)`
    if not (isinstance(fin, ast.If) and _u(fin.test) == "peak_position is not None" and not fin.orelse and len(fin.body) == 2 and _u(fin.body[1]) == "yield from bps.mv(motor, peak_position)"):
        raise Unrecognised("_tune_core: final move to peak_position not recognised")
    add("parkPos", ["peak_position", "low_limit", "high_limit"], [], "Rat", _assign_to(fin.body[0], "peak_position", "final park"), fin.body[0].lineno)
    if next(it, None) is not None:
        raise Unrecognised("_tune_core: unexpected trailing statement")

    lb = iter(loop.body)
    _expect(next(lb, None), "yield Msg('checkpoint')", "loop[0]")
    _expect(next(lb, None), "yield from bps.mv(motor, next_pos)", "loop[1]")
    _expect(next(lb, None), "ret = (yield from bps.trigger_and_read(list(detectors) + [motor]))", "loop[2]")
    _expect(next(lb, None), "cur_I = ret[signal]['value']", "loop[3]")
    st = next(lb, None)
    add("sumIUpd", ["sum_I", "cur_I"], [], "Rat", _aug(st, "sum_I", "loop[4]"), st.lineno)
    _expect(next(lb, None), "position = ret[motor_name]['value']", "loop[5]")
    st = next(lb, None)
    add("sumXIUpd", ["sum_xI", "position", "cur_I"], [], "Rat", _aug(st, "sum_xI", "loop[6]"), st.lineno)
    st = next(lb, None)
    add("nextUpd", ["next_pos", "step"], [], "Rat", _aug(st, "next_pos", "loop[7]"), st.lineno)
    st = next(lb, None)
    add("inRange", ["start", "stop", "next_pos"], [], "Bool", _assign_to(st, "in_range", "loop[8]"), st.lineno)
    st = next(lb, None)
    if not (isinstance(st, ast.If) and _u(st.test) == "not in_range" and not st.orelse):
        raise Unrecognised("_tune_core: `if not in_range:` not recognised")
    if next(lb, None) is not None:
        raise Unrecognised("_tune_core: unexpected trailing statement in the loop")
    rb = iter(st.body)
    z = next(rb, None)
    if not (isinstance(z, ast.If) and not z.orelse and [_u(s) for s in z.body] == ["return"]):
        raise Unrecognised("_tune_core: `if sum_I == 0: return` guard not recognised: " + (_u(z)[:100] if z is not None else "None"))
    add("zeroGuard", ["sum_I", "sum_xI"], [], "Bool", z.test, z.lineno)
    st = next(rb, None)
    pk = _assign_to(st, "peak_position", "recentre[1]")
    if not (isinstance(pk, ast.BinOp) and isinstance(pk.op, ast.Div) and _u(pk.right) == "sum_I"):
        raise Unrecognised("_tune_core: peak_position is not `<expr> / sum_I`: " + _u(pk))
    add("peak", ["sum_xI", "sum_I"], [], "Rat", pk, st.lineno)
    _expect(next(rb, None), "sum_I, sum_xI = (0, 0)", "recentre[2]")
    st = next(rb, None)
    add("newRange", ["start", "stop", "step_factor"], [], "Rat", _assign_to(st, "new_scan_range", "recentre[3]"), st.lineno)
    nums = ["peak_position", "new_scan_range", "low_limit", "high_limit"]
    st = next(rb, None)
    add("newStart", nums, [], "Rat", _assign_to(st, "start", "recentre[4]"), st.lineno)
    st = next(rb, None)
    add("newStop", nums, [], "Rat", _assign_to(st, "stop", "recentre[5]"), st.lineno)
    st = next(rb, None)
    if not (isinstance(st, ast.If) and _u(st.test) == "snake" and not st.orelse and [_u(s) for s in st.body] == ["start, stop = (stop, start)"]):
        raise Unrecognised("_tune_core: snake swap not recognised")
    st = next(rb, None)
    if _u(_assign_to(st, "step", "recentre[7]")) != step_text:
        raise Unrecognised("_tune_core: per-pass step formula differs from the initial one")
    _expect(next(rb, None), "next_pos = start", "recentre[8]")
    if next(rb, None) is not None:
        raise Unrecognised("_tune_core: unexpected trailing statement in the recentre block")
    out += ["end BlueskyVerif.Pure.TuneGen", ""]
    return "\n".join(out), facts


def extract(ctx=None):
    src = (C.SRC / "plans.py").read_text()
    tree = ast.parse(src)
    a_txt, a_facts = extract_adaptive(tree)
    t_txt, t_facts = extract_tune(tree)
    C.write_if_changed(C.LEAN / "BlueskyVerif" / "Pure" / "AdaptiveGenerated.lean", a_txt)
    C.write_if_changed(C.LEAN / "BlueskyVerif" / "Pure" / "TuneGenerated.lean", t_txt)
    return {**a_facts, **t_facts}
