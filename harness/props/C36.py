"""C36 -- stream datums concatenate and consolidate into consistent array shapes.

Tie: (T) from tiled_writer.py::concatenate_stream_datums the single-document shortcut, the uniformity checks, the
sort key, the adjacency test and the fields of the returned document are read off the AST ->
lean/BlueskyVerif/Pure/StreamDatumGenerated.lean; from consolidators.py the arithmetic of `list_summands` and the
chunk-size validity test of the constructor -> lean/BlueskyVerif/Pure/ConsolidatorGenerated.lean.  The theorems in
Props/C36.lean are about models parametrised by these generated definitions.
(C) the hand-written control flow (stable sort, constructor's datum_shape/multiplier handling, `shape`, `chunks`,
`consume_stream_datum`) is run against the real function and real ConsolidatorBase (sub)class instances on the same inputs.
"""
from __future__ import annotations

import ast
import itertools
import json

import common as C
import pyexpr as P

MANIFEST = {
    "text": "PARTIAL (two excluded input classes, reported as findings). Proved for ALL inputs: list_summands(A,b,r) sums to A*r (from the "
    "TRANSLATED arithmetic); for every constructor argument set, every list of consumed stream datums and every join method / chunk shape / "
    "multiplier, whenever `chunks` returns it has one entry per dimension of `shape` and each entry sums to that dimension, with all chunk "
    "sizes positive and bounded by chunk_shape; `chunks` fails only with the documented ValueError (chunk_shape longer than shape) or -- the "
    "excluded class -- an IndexError for concat + join_chunks=False + scalar datum; num_rows and the seq_num->index map after any datum "
    "list (last writer wins; every consumed seq_num maps to its row for disjoint seq ranges); concatenate_stream_datums accepts only "
    "contiguous same-descriptor same-resource sets and returns the hull (min start, max stop, width = sum of widths, seq_num hull for "
    "consistent seq_nums), and -- for inputs without a zero-width range that shares its start with another range -- accepts ALL such sets "
    "and is invariant under permutation of its arguments.  With such zero-width ties acceptance depends on argument order (second "
    "excluded class, counterexample proved).",
    "note": "Trusted: Lean kernel; the extractors in harness/props/C36.py; Python ints are modelled as Nat (indices, seq_nums, sizes >= 0; "
    "chunk_shape entries as Int for the <=0 test); uids/descriptors/resources are Nat ids; Python's sorted() is modelled by a stable "
    "insertion sort; the dict by an association list with last-writer-wins lookup; ArrayStructure/dtype handling is not modelled.",
    "technique": "Lean 4 proof over source-extracted definitions (translator) + correspondence run against the real function/classes",
}
LEAN_MODULES = ["BlueskyVerif.Props.C36"]
DRIVER_MODULES = ["BlueskyVerif.Pure.StreamDatum", "BlueskyVerif.Pure.Consolidator"]
DRIVER = "Drivers/C36.lean"
ASSUMPTIONS = [
    "indices, seq_nums, shapes and multipliers are non-negative integers (Nat); ranges with start > stop are only exercised in the"
    " correspondence of concatenate_stream_datums (comparisons only), not for consolidators",
    "document uids, descriptor uids and stream_resource uids are modelled as natural-number identifiers",
    "sorted() is stable (CPython guarantee) -- modelled by a stable insertion sort",
    "only ConsolidatorBase's constructor/shape/chunks/consume_stream_datum are modelled (class attributes join_method/join_chunks as"
    " parameters); dtype, assets, adapters and validate() are not",
]
TRUSTED = ["harness/props/C36.py extraction of concatenate_stream_datums' facts and translation of list_summands"]

GEN_SD = C.LEAN / "BlueskyVerif" / "Pure" / "StreamDatumGenerated.lean"
GEN_CONS = C.LEAN / "BlueskyVerif" / "Pure" / "ConsolidatorGenerated.lean"

U = P.Untranslatable

# ----------------------------------------------------------------------------- extractor: concatenate_stream_datums

FIELDS = {("uid",): "uid", ("descriptor",): "desc", ("stream_resource",): "res", ("indices", "start"): "iStart", ("indices", "stop"): "iStop", ("seq_nums", "start"): "sStart", ("seq_nums", "stop"): "sStop"}


def _subs(n):
    """X["a"]["b"] -> (X-node, ("a","b"))"""
    keys = []
    while isinstance(n, ast.Subscript) and isinstance(n.slice, ast.Constant) and isinstance(n.slice.value, str):
        keys.append(n.slice.value)
        n = n.value
    return n, tuple(reversed(keys))


def _doc_ref(n, docs_name, names):
    """docs[0] -> 'first', docs[-1] -> 'last', a bound name -> itself"""
    if isinstance(n, ast.Name) and n.id in names:
        return names[n.id]
    if isinstance(n, ast.Subscript) and isinstance(n.value, ast.Name) and n.value.id == docs_name:
        s = n.slice
        if isinstance(s, ast.Constant) and s.value == 0:
            return "first"
        if isinstance(s, ast.UnaryOp) and isinstance(s.op, ast.USub) and isinstance(s.operand, ast.Constant) and s.operand.value == 1:
            return "last"
    raise U("document reference " + ast.dump(n)[:100])


def _field(n, docs_name, names):
    base, keys = _subs(n)
    if keys not in FIELDS:
        raise U(f"field path {keys}")
    return f"{_doc_ref(base, docs_name, names)}.{FIELDS[keys]}"


def _is_len_docs_eq_1(t, docs):
    return isinstance(t, ast.Compare) and len(t.ops) == 1 and isinstance(t.ops[0], ast.Eq) and isinstance(t.left, ast.Call) and P.dotted(t.left.func) == "len" and len(t.left.args) == 1 and P.dotted(t.left.args[0]) == docs and isinstance(t.comparators[0], ast.Constant) and t.comparators[0].value == 1


def _raises_value_error(body):
    return len(body) == 1 and isinstance(body[0], ast.Raise) and isinstance(body[0].exc, ast.Call) and P.dotted(body[0].exc.func) == "ValueError"


def extract_concat(tree):
    fn = next((n for n in tree.body if isinstance(n, ast.FunctionDef) and n.name == "concatenate_stream_datums"), None)
    if fn is None:
        raise U("concatenate_stream_datums not found")
    if fn.args.vararg is None or fn.args.args or fn.args.kwonlyargs or fn.args.kwarg:
        raise U("signature is not (*docs)")
    docs = fn.args.vararg.arg
    body = P.body_wo_doc(fn)
    facts = {"single_shortcut": False, "uniform": [], "at": f"tiled_writer.py:{fn.lineno}"}
    k = 0
    # 1. optional shortcut `if len(docs) == 1: return docs[0]`
    st = body[k]
    if isinstance(st, ast.If) and _is_len_docs_eq_1(st.test, docs):
        if not (len(st.body) == 1 and isinstance(st.body[0], ast.Return) and not st.orelse and _doc_ref(st.body[0].value, docs, {}) == "first"):
            raise U("single-document shortcut shape")
        facts["single_shortcut"] = True
        k += 1
    # 2. uniformity checks `if len({doc[K] for doc in docs}) > 1: raise ValueError`
    while k < len(body) and isinstance(body[k], ast.If) and isinstance(body[k].test, ast.Compare) and isinstance(body[k].test.left, ast.Call) and P.dotted(body[k].test.left.func) == "len" and isinstance(body[k].test.left.args[0], ast.SetComp):
        st = body[k]
        t = st.test
        sc = t.left.args[0]
        if not (len(t.ops) == 1 and isinstance(t.ops[0], ast.Gt) and isinstance(t.comparators[0], ast.Constant) and t.comparators[0].value == 1 and _raises_value_error(st.body) and not st.orelse):
            raise U("uniformity check shape")
        g = sc.generators
        if not (len(g) == 1 and isinstance(g[0].target, ast.Name) and P.dotted(g[0].iter) == docs and not g[0].ifs):
            raise U("uniformity comprehension shape")
        facts["uniform"].append(_field(sc.elt, docs, {g[0].target.id: "d"}))
        k += 1
    # 3. docs = tuple(sorted(docs, key=lambda doc: KEY))
    st = body[k]
    ok = isinstance(st, ast.Assign) and len(st.targets) == 1 and P.dotted(st.targets[0]) == docs
    v = st.value if ok else None
    if ok and isinstance(v, ast.Call) and P.dotted(v.func) in ("tuple", "list") and len(v.args) == 1:
        v = v.args[0]
    if not (ok and isinstance(v, ast.Call) and P.dotted(v.func) == "sorted" and len(v.args) == 1 and P.dotted(v.args[0]) == docs and len(v.keywords) == 1 and v.keywords[0].arg == "key" and isinstance(v.keywords[0].value, ast.Lambda)):
        raise U("sort statement shape")
    lam = v.keywords[0].value
    facts["sort_key"] = _field(lam.body, docs, {lam.args.args[0].arg: "d"})
    k += 1
    # 4. for d1, d2 in zip(docs[:-1], docs[1:]): if COND: raise ValueError
    st = body[k]
    z = st.iter if isinstance(st, ast.For) else None
    pairwise = isinstance(z, ast.Call) and P.dotted(z.func) == "zip" and len(z.args) == 2 and ast.unparse(z.args[0]) == f"{docs}[:-1]" and ast.unparse(z.args[1]) == f"{docs}[1:]"
    if isinstance(z, ast.Call) and P.dotted(z.func) in ("itertools.pairwise", "pairwise") and len(z.args) == 1 and P.dotted(z.args[0]) == docs:
        pairwise = True
    if not (pairwise and isinstance(st.target, ast.Tuple) and len(st.target.elts) == 2 and all(isinstance(e, ast.Name) for e in st.target.elts) and len(st.body) == 1 and isinstance(st.body[0], ast.If) and _raises_value_error(st.body[0].body) and not st.body[0].orelse and not st.orelse):
        raise U("adjacency loop shape")
    n1, n2 = (e.id for e in st.target.elts)
    t = st.body[0].test
    if not (isinstance(t, ast.Compare) and len(t.ops) == 1 and type(t.ops[0]) in P.CMP):
        raise U("adjacency test shape")
    names = {n1: "d1", n2: "d2"}
    sym = P.CMP[type(t.ops[0])]
    a, b = _field(t.left, docs, names), _field(t.comparators[0], docs, names)
    facts["not_consecutive"] = f"({a} {sym} {b})" if sym in ("==", "!=") else f"decide ({a} {sym} {b})"
    k += 1
    # 5. return StreamDatum(uid=..., stream_resource=..., descriptor=..., indices=StreamRange(start=, stop=), seq_nums=StreamRange(...))
    st = body[k]
    if not (k == len(body) - 1 and isinstance(st, ast.Return) and isinstance(st.value, ast.Call) and P.dotted(st.value.func) == "StreamDatum" and not st.value.args):
        raise U("return statement shape")
    res = {}
    for kw in st.value.keywords:
        if kw.arg in ("uid", "descriptor", "stream_resource"):
            res[FIELDS[(kw.arg,)]] = _field(kw.value, docs, {})
        elif kw.arg in ("indices", "seq_nums") and isinstance(kw.value, ast.Call) and P.dotted(kw.value.func) == "StreamRange" and not kw.value.args:
            for kk in kw.value.keywords:
                if kk.arg not in ("start", "stop"):
                    raise U("StreamRange keyword " + str(kk.arg))
                res[FIELDS[(kw.arg, kk.arg)]] = _field(kk.value, docs, {})
        else:
            raise U("StreamDatum keyword " + str(kw.arg))
    if set(res) != set(FIELDS.values()):
        raise U(f"returned document misses fields {set(FIELDS.values()) - set(res)}")
    facts["combine"] = res
    return facts


def gen_sd(f):
    order = ["uid", "desc", "res", "iStart", "iStop", "sStart", "sStop"]
    return "\n".join(
        [
            "-- GENERATED by harness/props/C36.py from src/bluesky/callbacks/tiled_writer.py -- do not edit.",
            "namespace BlueskyVerif.StreamDatum",
            "",
            "/-- a StreamDatum document: uid, descriptor, stream_resource (ids), indices and seq_nums ranges -/",
            "structure SD where",
            *[f"  {x} : Nat" for x in order],
            "deriving Repr, DecidableEq",
            "",
            f"/-- `if len(docs) == 1: return docs[0]` present ({f['at']}) -/",
            f"def singleShortcut : Bool := {'true' if f['single_shortcut'] else 'false'}",
            "/-- fields that must be the same in all documents (`len({doc[k] for doc in docs}) > 1` raises), in order -/",
            "def uniformChecks : List (SD → Nat) := [" + ", ".join(f"fun d => {x}" for x in f["uniform"]) + "]",
            "/-- `sorted(docs, key=...)` -/",
            f"def sortKey (d : SD) : Nat := {f['sort_key']}",
            "/-- the test under which two neighbours of the sorted tuple raise ValueError -/",
            f"def notConsecutive (d1 d2 : SD) : Bool := {f['not_consecutive']}",
            "/-- the returned document, from the first and last document of the sorted tuple -/",
            "def combine (first last : SD) : SD :=",
            "  { " + ", ".join(f"{x} := {f['combine'][x]}" for x in order) + " }",
            "",
            "end BlueskyVerif.StreamDatum",
            "",
        ]
    )


# ----------------------------------------------------------------------------- extractor: list_summands, chunk validity


class ListTr:
    """ints are Nat, lists are List Nat"""

    def __init__(self, params):
        self.params = params

    def e(self, n):
        if isinstance(n, ast.Constant) and isinstance(n.value, int) and not isinstance(n.value, bool) and n.value >= 0:
            return f"({n.value} : Nat)", "nat"
        if isinstance(n, ast.Name) and n.id in self.params:
            return self.params[n.id], "nat"
        if isinstance(n, (ast.List, ast.Tuple)):
            xs = [self.e(x) for x in n.elts]
            if any(t != "nat" for _, t in xs):
                raise U("nested list")
            return "[" + ", ".join(x for x, _ in xs) + "]", "list"
        if isinstance(n, ast.Call) and P.dotted(n.func) in ("tuple", "list") and len(n.args) == 1 and not n.keywords:
            x, t = self.e(n.args[0])
            if t != "list":
                raise U("tuple() of a non-list")
            return x, "list"
        if isinstance(n, ast.BinOp):
            (a, ta), (b, tb) = self.e(n.left), self.e(n.right)
            op = type(n.op)
            if ta == tb == "nat" and op in (ast.Add, ast.Mult, ast.FloorDiv, ast.Mod):
                return f"({a} {({ast.Add: '+', ast.Mult: '*', ast.FloorDiv: '/', ast.Mod: '%'})[op]} {b})", "nat"
            if ta == tb == "list" and op is ast.Add:
                return f"({a} ++ {b})", "list"
            if op is ast.Mult and {ta, tb} == {"list", "nat"}:
                l, k = (a, b) if ta == "list" else (b, a)
                return f"(pyMulList {l} {k})", "list"
            raise U(f"operator {op.__name__} on {ta}, {tb}")
        if isinstance(n, ast.IfExp):
            c = self.c(n.test)
            (a, ta), (b, tb) = self.e(n.body), self.e(n.orelse)
            if ta != tb:
                raise U("conditional of different types")
            return f"(if {c} then {a} else {b})", ta
        if isinstance(n, ast.BoolOp) and isinstance(n.op, ast.Or) and len(n.values) == 2:
            (a, ta), (b, tb) = self.e(n.values[0]), self.e(n.values[1])
            if ta == tb == "list":
                return f"(pyOrList {a} {b})", "list"
        raise U(ast.dump(n)[:160])

    def c(self, n):
        if isinstance(n, ast.Compare) and len(n.ops) == 1 and type(n.ops[0]) in P.CMP:
            (a, ta), (b, tb) = self.e(n.left), self.e(n.comparators[0])
            if ta == tb == "nat":
                sym = {"==": "=", "!=": "≠"}.get(P.CMP[type(n.ops[0])], P.CMP[type(n.ops[0])])
                return f"({a} {sym} {b})"
        raise U("condition " + ast.dump(n)[:120])


def extract_cons(tree):
    cls = P.find_class(tree, "ConsolidatorBase")
    fn = next((n for n in ast.walk(cls) if isinstance(n, ast.FunctionDef) and n.name == "list_summands"), None)
    if fn is None:
        raise U("list_summands not found")
    args = fn.args
    if [a.arg for a in args.args] != ["A", "b", "repeat"] or args.vararg or args.kwarg or args.kwonlyargs or len(args.defaults) != 1 or not (isinstance(args.defaults[0], ast.Constant) and args.defaults[0].value == 1):
        raise U("list_summands signature is not (A, b, repeat=1)")
    ret = P.single_return(fn)
    term, ty = ListTr({"A": "A", "b": "b", "repeat": "repeat_"}).e(ret)
    if ty != "list":
        raise U("list_summands does not return a list")
    # constructor: `if any(d <= 0 for d in self.chunk_shape): raise ValueError`
    init = next(n for n in cls.body if isinstance(n, ast.FunctionDef) and n.name == "__init__")
    bad = None
    for st in init.body:
        if isinstance(st, ast.If) and isinstance(st.test, ast.Call) and P.dotted(st.test.func) == "any" and len(st.test.args) == 1 and isinstance(st.test.args[0], ast.GeneratorExp) and _raises_value_error(st.body):
            ge = st.test.args[0]
            if len(ge.generators) == 1 and P.dotted(ge.generators[0].iter) == "self.chunk_shape" and isinstance(ge.generators[0].target, ast.Name) and not ge.generators[0].ifs:
                bad = P.Tr({ge.generators[0].target.id: "d"}).b(ge.elt)
                bad_at = st.lineno
    if bad is None:
        raise U("chunk_shape validity check not found in ConsolidatorBase.__init__")
    return {"list_summands": term, "list_summands_src": ast.unparse(ret), "list_summands_at": f"consolidators.py:{fn.lineno}", "chunk_dim_bad": bad, "chunk_dim_bad_at": f"consolidators.py:{bad_at}"}


def gen_cons(f):
    return "\n".join(
        [
            "-- GENERATED by harness/props/C36.py from src/bluesky/consolidators.py -- do not edit.",
            "import BlueskyVerif.Pure.PyList",
            "namespace BlueskyVerif.Consolidator",
            "open BlueskyVerif.PyList",
            "",
            f"/-- `list_summands` ({f['list_summands_at']}): {f['list_summands_src']} -/",
            "def listSummands (A b : Nat) (repeat_ : Nat := 1) : List Nat :=",
            f"  {f['list_summands']}",
            "",
            f"/-- a chunk_shape entry the constructor rejects ({f['chunk_dim_bad_at']}) -/",
            f"def chunkDimBad (d : Int) : Bool := {f['chunk_dim_bad']}",
            "",
            "end BlueskyVerif.Consolidator",
            "",
        ]
    )


def extract(ctx):
    t1 = ast.parse((C.SRC / "callbacks" / "tiled_writer.py").read_text())
    t2 = ast.parse((C.SRC / "consolidators.py").read_text())
    f1 = extract_concat(t1)
    f2 = extract_cons(t2)
    C.write_if_changed(GEN_SD, gen_sd(f1))
    C.write_if_changed(GEN_CONS, gen_cons(f2))
    return {"concatenate_stream_datums": f1, "consolidators": f2}
