"""C36 -- stream datums concatenate and consolidate into consistent array shapes.

Tie: (T) from tiled_writer.py::concatenate_stream_datums the single-document shortcut, the uniformity checks, the
sort key, the adjacency test and the fields of the returned document are read off the AST ->
lean/BlueskyVerif/Pure/StreamDatumGenerated.lean; from consolidators.py the arithmetic of `list_summands` and the
chunk-size validity test of the constructor -> lean/BlueskyVerif/Pure/ConsolidatorGenerated.lean.  The theorems in
Props/C36.lean are about models parametrised by these generated definitions.
(C) the hand-written control flow (stable sort, constructor's datum_shape/multiplier handling, `shape`, `chunks`,
`consume_stream_datum`) is run against the real function and real ConsolidatorBase (sub)class instances on the same inputs.
"""
from __future__ import annotations

import ast
import itertools
import json

import common as C
import pyexpr as P

MANIFEST = {
    "text": "PARTIAL (two excluded input classes, reported as findings). Proved for ALL inputs: list_summands(A,b,r) sums to A*r (from the "
    "TRANSLATED arithmetic); for every constructor argument set, every list of consumed stream datums and every join method / chunk shape / "
    "multiplier, whenever `chunks` returns it has one entry per dimension of `shape` and each entry sums to that dimension, with all chunk "
    "sizes positive and at most chunk_shape's entry; `chunks` fails only with the documented ValueError (chunk_shape longer than shape) or -- the "
    "excluded class -- an IndexError for concat + join_chunks=False + scalar datum; num_rows and the seq_num->index map after any datum "
    "list (last writer wins; every consumed seq_num maps to its row for disjoint seq ranges); concatenate_stream_datums accepts only "
    "contiguous same-descriptor same-resource sets and returns the hull (min start, max stop, width = sum of widths, seq_num hull for "
    "consistent seq_nums), and -- for inputs without a zero-width range that shares its start with another range -- accepts ALL such sets "
    "and is invariant under permutation of its arguments.  With such zero-width ties acceptance depends on argument order (second "
    "excluded class, counterexample proved).",
    "note": "Trusted: Lean kernel; the extractors in harness/props/C36.py; Python ints are modelled as Nat (indices, seq_nums, sizes >= 0; "
    "chunk_shape entries as Int for the <=0 test); uids/descriptors/resources are Nat ids; Python's sorted() is modelled by a stable "
    "insertion sort; the dict by an association list with last-writer-wins lookup; ArrayStructure/dtype handling is not modelled.",
    "technique": "Lean 4 proof over source-extracted definitions (translator) + correspondence run against the real function/classes",
}
LEAN_MODULES = ["BlueskyVerif.Props.C36"]
DRIVER_MODULES = ["BlueskyVerif.Pure.StreamDatum", "BlueskyVerif.Pure.Consolidator"]
DRIVER = "Drivers/C36.lean"
ASSUMPTIONS = [
    "indices, seq_nums, shapes and multipliers are non-negative integers (Nat); ranges with start > stop are only exercised in the"
    " correspondence of concatenate_stream_datums (comparisons only), not for consolidators",
    "document uids, descriptor uids and stream_resource uids are modelled as natural-number identifiers",
    "sorted() is stable (CPython guarantee) -- modelled by a stable insertion sort",
    "only ConsolidatorBase's constructor/shape/chunks/consume_stream_datum are modelled (class attributes join_method/join_chunks as"
    " parameters); dtype, assets, adapters and validate() are not",
]
TRUSTED = ["harness/props/C36.py extraction of concatenate_stream_datums' facts and translation of list_summands"]

GEN_SD = C.LEAN / "BlueskyVerif" / "Pure" / "StreamDatumGenerated.lean"
GEN_CONS = C.LEAN / "BlueskyVerif" / "Pure" / "ConsolidatorGenerated.lean"

U = P.Untranslatable

# ----------------------------------------------------------------------------- extractor: concatenate_stream_datums

FIELDS = {("uid",): "uid", ("descriptor",): "desc", ("stream_resource",): "res", ("indices", "start"): "iStart", ("indices", "stop"): "iStop", ("seq_nums", "start"): "sStart", ("seq_nums", "stop"): "sStop"}


def _subs(n):
    """X["a"]["b"] -> (X-node, ("a","b"))"""
    keys = []
    while isinstance(n, ast.Subscript) and isinstance(n.slice, ast.Constant) and isinstance(n.slice.value, str):
        keys.append(n.slice.value)
        n = n.value
    return n, tuple(reversed(keys))


def _doc_ref(n, docs_name, names):
    """docs[0] -> 'first', docs[-1] -> 'last', a bound name -> itself"""
    if isinstance(n, ast.Name) and n.id in names:
        return names[n.id]
    if isinstance(n, ast.Subscript) and isinstance(n.value, ast.Name) and n.value.id == docs_name:
        s = n.slice
        if isinstance(s, ast.Constant) and s.value == 0:
            return "first"
        if isinstance(s, ast.UnaryOp) and isinstance(s.op, ast.USub) and isinstance(s.operand, ast.Constant) and s.operand.value == 1:
            return "last"
    raise U("document reference " + ast.dump(n)[:100])


def _field(n, docs_name, names):
    base, keys = _subs(n)
    if keys not in FIELDS:
        raise U(f"field path {keys}")
    return f"{_doc_ref(base, docs_name, names)}.{FIELDS[keys]}"


def _is_len_docs_eq_1(t, docs):
    return isinstance(t, ast.Compare) and len(t.ops) == 1 and isinstance(t.ops[0], ast.Eq) and isinstance(t.left, ast.Call) and P.dotted(t.left.func) == "len" and len(t.left.args) == 1 and P.dotted(t.left.args[0]) == docs and isinstance(t.comparators[0], ast.Constant) and t.comparators[0].value == 1


def _raises_value_error(body):
    return len(body) == 1 and isinstance(body[0], ast.Raise) and isinstance(body[0].exc, ast.Call) and P.dotted(body[0].exc.func) == "ValueError"


def extract_concat(tree):
    fn = next((n for n in tree.body if isinstance(n, ast.FunctionDef) and n.name == "concatenate_stream_datums"), None)
    if fn is None:
        raise U("concatenate_stream_datums not found")
    if fn.args.vararg is None or fn.args.args or fn.args.kwonlyargs or fn.args.kwarg:
        raise U("signature is not (*docs)")
    docs = fn.args.vararg.arg
    body = P.body_wo_doc(fn)
    facts = {"single_shortcut": False, "uniform": [], "at": f"tiled_writer.py:{fn.lineno}"}
    k = 0
    # 1. optional shortcut `if len(docs) == 1: return docs[0]`
    st = body[k]
    if isinstance(st, ast.If) and _is_len_docs_eq_1(st.test, docs):
        if not (len(st.body) == 1 and isinstance(st.body[0], ast.Return) and not st.orelse and _doc_ref(st.body[0].value, docs, {}) == "first"):
            raise U("single-document shortcut shape")
        facts["single_shortcut"] = True
        k += 1
    # 2. uniformity checks `if len({doc[K] for doc in docs}) > 1: raise ValueError`
    while k < len(body) and isinstance(body[k], ast.If) and isinstance(body[k].test, ast.Compare) and isinstance(body[k].test.left, ast.Call) and P.dotted(body[k].test.left.func) == "len" and isinstance(body[k].test.left.args[0], ast.SetComp):
        st = body[k]
        t = st.test
        sc = t.left.args[0]
        if not (len(t.ops) == 1 and isinstance(t.ops[0], ast.Gt) and isinstance(t.comparators[0], ast.Constant) and t.comparators[0].value == 1 and _raises_value_error(st.body) and not st.orelse):
            raise U("uniformity check shape")
        g = sc.generators
        if not (len(g) == 1 and isinstance(g[0].target, ast.Name) and P.dotted(g[0].iter) == docs and not g[0].ifs):
            raise U("uniformity comprehension shape")
        facts["uniform"].append(_field(sc.elt, docs, {g[0].target.id: "d"}))
        k += 1
    # 3. docs = tuple(sorted(docs, key=lambda doc: KEY))
    st = body[k]
    ok = isinstance(st, ast.Assign) and len(st.targets) == 1 and P.dotted(st.targets[0]) == docs
    v = st.value if ok else None
    if ok and isinstance(v, ast.Call) and P.dotted(v.func) in ("tuple", "list") and len(v.args) == 1:
        v = v.args[0]
    if not (ok and isinstance(v, ast.Call) and P.dotted(v.func) == "sorted" and len(v.args) == 1 and P.dotted(v.args[0]) == docs and len(v.keywords) == 1 and v.keywords[0].arg == "key" and isinstance(v.keywords[0].value, ast.Lambda)):
        raise U("sort statement shape")
    lam = v.keywords[0].value
    facts["sort_key"] = _field(lam.body, docs, {lam.args.args[0].arg: "d"})
    k += 1
    # 4. for d1, d2 in zip(docs[:-1], docs[1:]): if COND: raise ValueError
    st = body[k]
    z = st.iter if isinstance(st, ast.For) else None
    pairwise = isinstance(z, ast.Call) and P.dotted(z.func) == "zip" and len(z.args) == 2 and ast.unparse(z.args[0]) == f"{docs}[:-1]" and ast.unparse(z.args[1]) == f"{docs}[1:]"
    if isinstance(z, ast.Call) and P.dotted(z.func) in ("itertools.pairwise", "pairwise") and len(z.args) == 1 and P.dotted(z.args[0]) == docs:
        pairwise = True
    if not (pairwise and isinstance(st.target, ast.Tuple) and len(st.target.elts) == 2 and all(isinstance(e, ast.Name) for e in st.target.elts) and len(st.body) == 1 and isinstance(st.body[0], ast.If) and _raises_value_error(st.body[0].body) and not st.body[0].orelse and not st.orelse):
        raise U("adjacency loop shape")
    n1, n2 = (e.id for e in st.target.elts)
    t = st.body[0].test
    if not (isinstance(t, ast.Compare) and len(t.ops) == 1 and type(t.ops[0]) in P.CMP):
        raise U("adjacency test shape")
    names = {n1: "d1", n2: "d2"}
    sym = P.CMP[type(t.ops[0])]
    a, b = _field(t.left, docs, names), _field(t.comparators[0], docs, names)
    facts["not_consecutive"] = f"({a} {sym} {b})" if sym in ("==", "!=") else f"decide ({a} {sym} {b})"
    k += 1
    # 5. return StreamDatum(uid=..., stream_resource=..., descriptor=..., indices=StreamRange(start=, stop=), seq_nums=StreamRange(...))
    st = body[k]
    if not (k == len(body) - 1 and isinstance(st, ast.Return) and isinstance(st.value, ast.Call) and P.dotted(st.value.func) == "StreamDatum" and not st.value.args):
        raise U("return statement shape")
    res = {}
    for kw in st.value.keywords:
        if kw.arg in ("uid", "descriptor", "stream_resource"):
            res[FIELDS[(kw.arg,)]] = _field(kw.value, docs, {})
        elif kw.arg in ("indices", "seq_nums") and isinstance(kw.value, ast.Call) and P.dotted(kw.value.func) == "StreamRange" and not kw.value.args:
            for kk in kw.value.keywords:
                if kk.arg not in ("start", "stop"):
                    raise U("StreamRange keyword " + str(kk.arg))
                res[FIELDS[(kw.arg, kk.arg)]] = _field(kk.value, docs, {})
        else:
            raise U("StreamDatum keyword " + str(kw.arg))
    if set(res) != set(FIELDS.values()):
        raise U(f"returned document misses fields {set(FIELDS.values()) - set(res)}")
    facts["combine"] = res
    return facts


def lean_sd_text(f):
    order = ["uid", "desc", "res", "iStart", "iStop", "sStart", "sStop"]
    return "\n".join(
        [
            "-- GENERATED by harness/props/C36.py from src/bluesky/callbacks/tiled_writer.py -- do not edit.",
            "namespace BlueskyVerif.StreamDatum",
            "",
            "/-- a StreamDatum document: uid, descriptor, stream_resource (ids), indices and seq_nums ranges -/",
            "structure SD where",
            *[f"  {x} : Nat" for x in order],
            "deriving Repr, DecidableEq",
            "",
            f"/-- `if len(docs) == 1: return docs[0]` present ({f['at']}) -/",
            f"def singleShortcut : Bool := {'true' if f['single_shortcut'] else 'false'}",
            "/-- fields that must be the same in all documents (`len({doc[k] for doc in docs}) > 1` raises), in order -/",
            "def uniformChecks : List (SD → Nat) := [" + ", ".join(f"fun d => {x}" for x in f["uniform"]) + "]",
            "/-- `sorted(docs, key=...)` -/",
            f"def sortKey (d : SD) : Nat := {f['sort_key']}",
            "/-- the test under which two neighbours of the sorted tuple raise ValueError -/",
            f"def notConsecutive (d1 d2 : SD) : Bool := {f['not_consecutive']}",
            "/-- the returned document, from the first and last document of the sorted tuple -/",
            "def combine (first last : SD) : SD :=",
            "  { " + ", ".join(f"{x} := {f['combine'][x]}" for x in order) + " }",
            "",
            "end BlueskyVerif.StreamDatum",
            "",
        ]
    )


# ----------------------------------------------------------------------------- extractor: list_summands, chunk validity


class ListTr:
    """ints are Nat, lists are List Nat"""

    def __init__(self, params):
        self.params = params

    def e(self, n):
        if isinstance(n, ast.Constant) and isinstance(n.value, int) and not isinstance(n.value, bool) and n.value >= 0:
            return f"({n.value} : Nat)", "nat"
        if isinstance(n, ast.Name) and n.id in self.params:
            return self.params[n.id], "nat"
        if isinstance(n, (ast.List, ast.Tuple)):
            xs = [self.e(x) for x in n.elts]
            if any(t != "nat" for _, t in xs):
                raise U("nested list")
            return "[" + ", ".join(x for x, _ in xs) + "]", "list"
        if isinstance(n, ast.Call) and P.dotted(n.func) in ("tuple", "list") and len(n.args) == 1 and not n.keywords:
            x, t = self.e(n.args[0])
            if t != "list":
                raise U("tuple() of a non-list")
            return x, "list"
        if isinstance(n, ast.BinOp):
            (a, ta), (b, tb) = self.e(n.left), self.e(n.right)
            op = type(n.op)
            if ta == tb == "nat" and op in (ast.Add, ast.Mult, ast.FloorDiv, ast.Mod):
                return f"({a} {({ast.Add: '+', ast.Mult: '*', ast.FloorDiv: '/', ast.Mod: '%'})[op]} {b})", "nat"
            if ta == tb == "list" and op is ast.Add:
                return f"({a} ++ {b})", "list"
            if op is ast.Mult and {ta, tb} == {"list", "nat"}:
                l, k = (a, b) if ta == "list" else (b, a)
                return f"(pyMulList {l} {k})", "list"
            raise U(f"operator {op.__name__} on {ta}, {tb}")
        if isinstance(n, ast.IfExp):
            c = self.c(n.test)
            (a, ta), (b, tb) = self.e(n.body), self.e(n.orelse)
            if ta != tb:
                raise U("conditional of different types")
            return f"(if {c} then {a} else {b})", ta
        if isinstance(n, ast.BoolOp) and isinstance(n.op, ast.Or) and len(n.values) == 2:
            (a, ta), (b, tb) = self.e(n.values[0]), self.e(n.values[1])
            if ta == tb == "list":
                return f"(pyOrList {a} {b})", "list"
        raise U(ast.dump(n)[:160])

    def c(self, n):
        if isinstance(n, ast.Compare) and len(n.ops) == 1 and type(n.ops[0]) in P.CMP:
            (a, ta), (b, tb) = self.e(n.left), self.e(n.comparators[0])
            if ta == tb == "nat":
                sym = {"==": "=", "!=": "≠"}.get(P.CMP[type(n.ops[0])], P.CMP[type(n.ops[0])])
                return f"({a} {sym} {b})"
        raise U("condition " + ast.dump(n)[:120])


def extract_cons(tree):
    cls = P.find_class(tree, "ConsolidatorBase")
    fn = next((n for n in ast.walk(cls) if isinstance(n, ast.FunctionDef) and n.name == "list_summands"), None)
    if fn is None:
        raise U("list_summands not found")
    args = fn.args
    if [a.arg for a in args.args] != ["A", "b", "repeat"] or args.vararg or args.kwarg or args.kwonlyargs or len(args.defaults) != 1 or not (isinstance(args.defaults[0], ast.Constant) and args.defaults[0].value == 1):
        raise U("list_summands signature is not (A, b, repeat=1)")
    ret = P.single_return(fn)
    term, ty = ListTr({"A": "A", "b": "b", "repeat": "repeat_"}).e(ret)
    if ty != "list":
        raise U("list_summands does not return a list")
    # constructor: `if any(d <= 0 for d in self.chunk_shape): raise ValueError`
    init = next(n for n in cls.body if isinstance(n, ast.FunctionDef) and n.name == "__init__")
    bad = None
    for st in init.body:
        if isinstance(st, ast.If) and isinstance(st.test, ast.Call) and P.dotted(st.test.func) == "any" and len(st.test.args) == 1 and isinstance(st.test.args[0], ast.GeneratorExp) and _raises_value_error(st.body):
            ge = st.test.args[0]
            if len(ge.generators) == 1 and P.dotted(ge.generators[0].iter) == "self.chunk_shape" and isinstance(ge.generators[0].target, ast.Name) and not ge.generators[0].ifs:
                bad = P.Tr({ge.generators[0].target.id: "d"}).b(ge.elt)
                bad_at = st.lineno
    if bad is None:
        raise U("chunk_shape validity check not found in ConsolidatorBase.__init__")
    return {"list_summands": term, "list_summands_src": ast.unparse(ret), "list_summands_at": f"consolidators.py:{fn.lineno}", "chunk_dim_bad": bad, "chunk_dim_bad_at": f"consolidators.py:{bad_at}"}


def lean_cons_text(f):
    return "\n".join(
        [
            "-- GENERATED by harness/props/C36.py from src/bluesky/consolidators.py -- do not edit.",
            "import BlueskyVerif.Pure.PyList",
            "namespace BlueskyVerif.Consolidator",
            "open BlueskyVerif.PyList",
            "",
            f"/-- `list_summands` ({f['list_summands_at']}): {f['list_summands_src']} -/",
            "def listSummands (A b : Nat) (repeat_ : Nat := 1) : List Nat :=",
            f"  {f['list_summands']}",
            "",
            f"/-- a chunk_shape entry the constructor rejects ({f['chunk_dim_bad_at']}) -/",
            f"def chunkDimBad (d : Int) : Bool := {f['chunk_dim_bad']}",
            "",
            "end BlueskyVerif.Consolidator",
            "",
        ]
    )


def extract(ctx):
    t1 = ast.parse((C.SRC / "callbacks" / "tiled_writer.py").read_text())
    t2 = ast.parse((C.SRC / "consolidators.py").read_text())
    f1 = extract_concat(t1)
    f2 = extract_cons(t2)
    C.write_if_changed(GEN_SD, lean_sd_text(f1))
    C.write_if_changed(GEN_CONS, lean_cons_text(f2))
    return {"concatenate_stream_datums": f1, "consolidators": f2}


# ----------------------------------------------------------------------------- running the real code


def _doc(d):
    return {"uid": f"u{d['uid']}", "descriptor": f"d{d['desc']}", "stream_resource": f"r{d['res']}", "indices": {"start": d["i"][0], "stop": d["i"][1]}, "seq_nums": {"start": d["s"][0], "stop": d["s"][1]}}


def _row(d):
    return [d["uid"], d["desc"], d["res"], d["i"][0], d["i"][1], d["s"][0], d["s"][1]]


def run_concat_docs(docs):
    from bluesky.callbacks.tiled_writer import concatenate_stream_datums

    try:
        r = concatenate_stream_datums(*[_doc(d) for d in docs])
    except Exception as e:  # noqa: BLE001
        return {"err": type(e).__name__}
    try:
        return {"ok": [int(r["uid"][1:]), int(r["descriptor"][1:]), int(r["stream_resource"][1:]), r["indices"]["start"], r["indices"]["stop"], r["seq_nums"]["start"], r["seq_nums"]["stop"]]}
    except Exception as e:  # noqa: BLE001
        return {"err": "malformed-result:" + type(e).__name__}


def run_concat(case):
    obs = run_concat_docs(case["docs"])
    obs["perms"] = [run_concat_docs([case["docs"][k] for k in p]) for p in case.get("perms", [])]
    return obs


_CLS_CACHE = {}


def _cons_class(join, join_chunks):
    from bluesky.consolidators import ConsolidatorBase

    key = (join, join_chunks)
    if key not in _CLS_CACHE:
        _CLS_CACHE[key] = type(f"Cons_{join}_{join_chunks}", (ConsolidatorBase,), {"join_method": join, "join_chunks": join_chunks})
    return _CLS_CACHE[key]


def _snap(c):
    try:
        sh = [int(x) for x in c.shape]
    except Exception as e:  # noqa: BLE001
        sh = {"err": type(e).__name__}
    try:
        ch = [[int(x) for x in t] for t in c.chunks]
    except Exception as e:  # noqa: BLE001
        ch = {"err": type(e).__name__}
    return {"shape": sh, "chunks": ch, "num_rows": int(c._num_rows)}


def run_cons(case):
    params = {}
    for k_case, k_par in (("multiplier", "multiplier"), ("paramJoin", "join_method"), ("paramJoinChunks", "join_chunks")):
        if case.get(k_case) is not None:
            params[k_par] = case[k_case]
    if case.get("chunkShape") is not None:
        params["chunk_shape"] = tuple(case["chunkShape"])
    desc = {"data_keys": {"k": {"shape": list(case["shape"]), "dtype": "array", "dtype_numpy": "<f8", "external": "STREAM:"}}, "uid": "d0"}
    sres = {"data_key": "k", "mimetype": "application/octet-stream", "uri": "file://localhost/x", "parameters": params, "uid": "r0"}
    try:
        c = _cons_class(case["classJoin"], case["classJoinChunks"])(sres, desc)
    except Exception as e:  # noqa: BLE001
        return {"ctor": type(e).__name__}
    obs = {"ctor": "ok", "datum_shape": [int(x) for x in c.datum_shape], "chunk_shape": [int(x) for x in c.chunk_shape], "join": c.join_method, "join_chunks": bool(c.join_chunks), "snaps": [_snap(c)]}
    for d in case["docs"]:
        c.consume_stream_datum(_doc(d))
        obs["snaps"].append(_snap(c))
    obs["map"] = sorted([int(k), int(v)] for k, v in c._seqnums_to_indices_map.items())
    return obs


_LS = None


def real_list_summands():
    """the nested function object of ConsolidatorBase.chunks, rebuilt from the imported code object"""
    global _LS
    if _LS is None:
        import types

        from bluesky.consolidators import ConsolidatorBase

        code = next(k for k in ConsolidatorBase.chunks.fget.__code__.co_consts if isinstance(k, types.CodeType) and k.co_name == "list_summands")
        _LS = types.FunctionType(code, {"tuple": tuple})
    return _LS


def run_ls(case):
    try:
        return {"out": [int(x) for x in real_list_summands()(case["A"], case["b"], case["r"])]}
    except Exception as e:  # noqa: BLE001
        return {"err": type(e).__name__}


# ----------------------------------------------------------------------------- the property, stated directly


def _chains(rs):
    return all(a[1] == b[0] for a, b in zip(rs, rs[1:]))


def contiguous_set(docs):
    """SOME arrangement of the index ranges is a chain (ranges well-formed: start <= stop).
    In a chain of well-formed ranges starts are non-decreasing and, among equal starts, the empty ranges come
    first, so sorting by (start, stop) finds a chain whenever one exists."""
    rs = sorted(tuple(d["i"]) for d in docs)
    ans = _chains(rs)
    if len(rs) <= 5:  # cross-check of the harness's own shortcut by brute force
        brute = any(_chains(p) for p in itertools.permutations(rs))
        assert brute == ans, ("contiguous_set shortcut wrong", rs)
    return ans


def tied_empty(docs):
    starts = [d["i"][0] for d in docs]
    return any(d["i"][0] == d["i"][1] and starts.count(d["i"][0]) > 1 for d in docs)


def oracle_concat(case, obs):
    docs = case["docs"]
    bad = []
    if any(d["i"][0] > d["i"][1] for d in docs):
        return bad  # malformed ranges: outside the property, correspondence only
    tie = tied_empty(docs)
    acceptable = bool(docs) and len({d["desc"] for d in docs}) == 1 and len({d["res"] for d in docs}) == 1 and contiguous_set(docs)
    rng_txt = [tuple(d["i"]) for d in docs]
    outcomes = [{k: v for k, v in obs.items() if k != "perms"}] + obs.get("perms", [])
    orders = [list(range(len(docs)))] + case.get("perms", [])
    for o, order in zip(outcomes, orders):
        accepted = "ok" in o
        if accepted != acceptable:
            if tie and acceptable:
                sig = "concat:zero-width-range-tied-start:acceptance-depends-on-order"
            else:
                sig = "concat:rejects-contiguous-set" if acceptable else "concat:accepts-non-contiguous-set"
            bad.append((sig, f"index ranges {[rng_txt[k] for k in order]} (argument order as listed): implementation {'accepts' if accepted else 'raises ' + o.get('err', '?')}, the set is {'contiguous for one descriptor/resource' if acceptable else 'NOT a contiguous set for one descriptor/resource'}"))
            continue
        if accepted:
            uid, de, re_, i0, i1, s0, s1 = o["ok"]
            if (i0, i1) != (min(d["i"][0] for d in docs), max(d["i"][1] for d in docs)) or i1 - i0 != sum(d["i"][1] - d["i"][0] for d in docs):
                bad.append(("concat:wrong-hull:indices", f"index ranges {rng_txt}: returned indices [{i0},{i1})"))
            if de != docs[0]["desc"] or re_ != docs[0]["res"] or uid not in {d["uid"] for d in docs}:
                bad.append(("concat:wrong-ids", f"returned uid/descriptor/resource {uid}/{de}/{re_} not taken from the inputs"))
            mono = all((a["s"][0] <= b["s"][0] and a["s"][1] <= b["s"][1]) for a in docs for b in docs if a["i"][0] <= b["i"][0])
            if mono and (s0, s1) != (min(d["s"][0] for d in docs), max(d["s"][1] for d in docs)):
                bad.append(("concat:wrong-hull:seq_nums", f"seq ranges {[tuple(d['s']) for d in docs]}: returned seq_nums [{s0},{s1})"))
    if not bad and len({json.dumps(o, sort_keys=True) for o in outcomes if "ok" in o}) > 1 and not tie:
        bad.append(("concat:result-depends-on-order", f"index ranges {rng_txt}: different documents for different argument orders"))
    return bad


def oracle_cons(case, obs):
    bad = []
    if obs["ctor"] != "ok":
        return bad
    cls = f"{obs['join']}:join_chunks={obs['join_chunks']}"
    total = 0
    for n, snap in enumerate(obs["snaps"]):
        if n > 0:
            d = case["docs"][n - 1]
            total += d["i"][1] - d["i"][0]
        if snap["num_rows"] != total:
            bad.append(("consume:num_rows", f"after {n} documents num_rows={snap['num_rows']}, sum of index widths={total}"))
        sh, ch = snap["shape"], snap["chunks"]
        if isinstance(sh, dict):
            bad.append(("shape:raises-" + sh["err"], f"shape raises {sh['err']} ({cls}, datum_shape {obs['datum_shape']})"))
            continue
        if isinstance(ch, dict):
            if ch["err"] == "ValueError" and len(obs["chunk_shape"]) > len(sh):
                continue  # the documented rejection: chunk_shape longer than shape
            nojoin = ch["err"] == "IndexError" and obs["join"] == "concat" and not obs["join_chunks"] and obs["chunk_shape"] and not case.get("multiplier")
            if nojoin and case["shape"] == []:
                sig = "chunks:IndexError:concat-without-join_chunks:scalar-datum"
            elif nojoin and case["shape"] == [1] and case["classJoin"] == "stack":
                # same defect, reached through the constructor's `(1,) -> ()` rule for classes that stack by default
                sig = "chunks:IndexError:concat-without-join_chunks:shape-(1,)-squeezed-by-stack-default"
            else:
                sig = f"chunks:raises-{ch['err']}:{cls}"
            bad.append((sig, f"chunks raises {ch['err']} although shape is {tuple(sh)} (datum_shape {tuple(obs['datum_shape'])}, chunk_shape {tuple(obs['chunk_shape'])}, {cls}, num_rows {snap['num_rows']})"))
            continue
        ok = len(ch) == len(sh) and all(sum(c) == s for c, s in zip(ch, sh)) and all(c == [0] or (c and all(x > 0 for x in c)) for c in ch)
        if ok and any(x > b for c, b in zip(ch, obs["chunk_shape"]) for x in c):
            bad.append((f"chunks:larger-than-chunk_shape:{cls}", f"chunks {ch} exceed chunk_shape {tuple(obs['chunk_shape'])} (shape {tuple(sh)}, datum_shape {tuple(obs['datum_shape'])}, {cls}, num_rows {snap['num_rows']})"))
        if not ok:
            dim = next((k for k, (c, s) in enumerate(zip(ch, sh)) if sum(c) != s), "len")
            bad.append((f"chunks:not-a-chunking-of-shape:{cls}:dim{'0' if dim == 0 else 'N' if dim != 'len' else '-count'}", f"shape {tuple(sh)} but chunks {ch} (datum_shape {tuple(obs['datum_shape'])}, chunk_shape {tuple(obs['chunk_shape'])}, {cls}, num_rows {snap['num_rows']})"))
    # every consumed seq_num maps to its row index (documents with pairwise disjoint seq ranges)
    docs = case["docs"]
    cover = [set(range(d["s"][0], d["s"][0] + max(0, min(d["s"][1] - d["s"][0], d["i"][1] - d["i"][0])))) for d in docs]
    disjoint = all(not (cover[a] & cover[b]) for a in range(len(docs)) for b in range(a + 1, len(docs)))
    m = dict(map(tuple, obs["map"]))
    if disjoint:
        for d, cv in zip(docs, cover):
            for s in cv:
                if m.get(s) != d["i"][0] + (s - d["s"][0]):
                    bad.append(("consume:seq_num-map", f"seq_num {s} of document indices={d['i']} seq_nums={d['s']} mapped to {m.get(s)}, its row is {d['i'][0] + (s - d['s'][0])}"))
                    break
        if set(m) != set().union(*cover) if cover else m:
            bad.append(("consume:seq_num-map:extra-keys", f"map has keys {sorted(set(m) - (set().union(*cover) if cover else set()))} that no document paired with a row"))
    return bad


def oracle_ls(case, obs):
    if case["b"] <= 0:
        return []
    if "err" in obs:
        return [("list_summands:raises-" + obs["err"], f"list_summands({case['A']}, {case['b']}, {case['r']}) raises {obs['err']}")]
    out = obs["out"]
    if sum(out) != case["A"] * case["r"] or not (out == [0] or (out and all(0 < x <= case["b"] for x in out))):
        return [("list_summands:wrong-sum", f"list_summands({case['A']}, {case['b']}, {case['r']}) = {out}")]
    return []


# ----------------------------------------------------------------------------- case generation

WIDTHS = [0, 1, 1, 1, 2, 2, 3, 5]


def _chain(rng, n, start=None, zero_ok=True):
    x = rng.choice([0, 0, 1, 3, 10]) if start is None else start
    docs = []
    for k in range(n):
        w = rng.choice(WIDTHS if zero_ok else WIDTHS[1:])
        docs.append({"uid": k + 1, "desc": 0, "res": 0, "i": [x, x + w], "s": [x + 1, x + w + 1]})
        x += w
    return docs


def _perms(rng, n):
    if n < 2:
        return []
    ps = [list(reversed(range(n)))]
    p = list(range(n))
    rng.shuffle(p)
    ps.append(p)
    return ps


def gen_concat(rng):
    n = rng.choice([0, 1, 1, 2, 2, 2, 3, 3, 4, 5, 6])
    docs = _chain(rng, n, zero_ok=rng.random() < 0.35)
    r = rng.random()
    if docs and r < 0.10:
        rng.choice(docs)["desc"] = 1
    elif docs and r < 0.20:
        rng.choice(docs)["res"] = 1
    elif docs and r < 0.35:
        d = rng.choice(docs)
        k = rng.choice([-1, 1, 2])
        which = rng.choice([0, 1])
        d["i"][which] = max(0, d["i"][which] + k)
    elif docs and r < 0.40:
        d = dict(rng.choice(docs))
        d = {**d, "uid": len(docs) + 1, "i": list(d["i"]), "s": list(d["s"])}
        docs.append(d)
    elif docs and r < 0.43:
        d = rng.choice(docs)
        d["i"] = [d["i"][1] + 1, d["i"][0]]
    elif docs and r < 0.53:
        d = rng.choice(docs)
        d["s"] = [rng.randint(0, 12), rng.randint(0, 12)]
    if rng.random() < 0.7:
        rng.shuffle(docs)
    return {"kind": "concat", "docs": docs, "perms": _perms(rng, len(docs))}


def exhaustive_concat(lim, maxlen):
    ranges = [(a, b) for a in range(lim + 1) for b in range(a, lim + 1)]
    for n in range(0, maxlen + 1):
        for rs in itertools.product(ranges, repeat=n):
            docs = [{"uid": k + 1, "desc": 0, "res": 0, "i": list(r), "s": [r[0] + 1, r[1] + 1]} for k, r in enumerate(rs)]
            yield {"kind": "concat", "docs": docs, "perms": [list(reversed(range(n)))] if n > 1 else []}
    for dd, rr in ((1, 0), (0, 1), (1, 1)):
        for rs in ([(0, 1), (1, 2)], [(1, 2), (0, 1)], [(0, 2)], [(0, 1), (1, 1), (1, 2)]):
            docs = [{"uid": k + 1, "desc": dd if k == len(rs) - 1 else 0, "res": rr if k == 0 else 0, "i": list(r), "s": [r[0] + 1, r[1] + 1]} for k, r in enumerate(rs)]
            yield {"kind": "concat", "docs": docs, "perms": []}


def gen_cons_case(rng):
    nd = rng.choice([0, 1, 1, 2, 2, 3, 3, 4])
    shape = [rng.choice([0, 1, 1, 2, 3, 5, 7]) for _ in range(nd)]
    if shape and rng.random() < 0.03:
        shape[rng.randrange(nd)] = None
    r = rng.random()
    if r < 0.2:
        chunk = None
    else:
        nc = rng.choice([0, 1, 1, 2, 2, 3, nd, nd + 1, nd + 2])
        chunk = [rng.choice([1, 1, 2, 3, 4, 10]) for _ in range(nc)]
        if chunk and rng.random() < 0.04:
            chunk[rng.randrange(nc)] = rng.choice([0, -1])
    docs = _chain(rng, rng.choice([0, 1, 2, 3, 5]), start=rng.choice([0, 0, 2]))
    r = rng.random()
    for d in docs:
        if r < 0.15:  # fewer seq_nums than rows (skips)
            d["s"][1] = max(d["s"][0], d["s"][1] - rng.choice([1, 2]))
        elif r < 0.25:  # overlapping / repeated seq_nums
            d["s"] = [rng.randint(0, 6), rng.randint(0, 9)]
            d["s"].sort()
        elif r < 0.30:  # more seq_nums than rows
            d["s"][1] += rng.choice([1, 3])
    return {
        "kind": "cons",
        "classJoin": rng.choice(["stack", "concat"]),
        "classJoinChunks": rng.random() < 0.5,
        "shape": shape,
        "multiplier": rng.choice([None, None, None, None, 0, 1, 2, 3, 7]),
        "chunkShape": chunk,
        "paramJoin": rng.choice([None, None, None, "stack", "concat"]),
        "paramJoinChunks": rng.choice([None, None, True, False]),
        "docs": docs,
    }


def exhaustive_cons():
    docs = [{"uid": 1, "desc": 0, "res": 0, "i": [0, 2], "s": [1, 3]}, {"uid": 2, "desc": 0, "res": 0, "i": [2, 5], "s": [3, 6]}]
    for join, jc, shape, mult, chunk in itertools.product(["stack", "concat"], [True, False], [[], [1], [3], [1, 4], [2, 4], [6, 2, 5]], [None, 3], [None, [], [2], [4], [2, 3], [1, 2, 2], [2, 2, 2, 2]]):
        yield {"kind": "cons", "classJoin": join, "classJoinChunks": jc, "shape": shape, "multiplier": mult, "chunkShape": chunk, "paramJoin": None, "paramJoinChunks": None, "docs": docs}


def gen_ls(rng):
    return {"kind": "ls", "A": rng.choice([0, 1, rng.randint(0, 40), rng.randint(0, 1000)]), "b": rng.choice([1, 2, 3, rng.randint(1, 12), rng.randint(1, 200)]), "r": rng.choice([0, 1, 1, 2, 3, rng.randint(0, 6)])}


def _cases(ctx):
    corpus = C.VERIF / "corpus" / "C36"
    if corpus.exists():
        for f in sorted(corpus.glob("*.json")):
            yield json.loads(f.read_text())["case"]
    big = ctx.tier == "thorough" or ctx.deep
    yield from exhaustive_concat(3, 3) if not big else exhaustive_concat(3, 4)
    yield from exhaustive_cons()
    for A in range(0, 13 if not big else 30):
        for b in range(1, 6 if not big else 9):
            for r in range(0, 4):
                yield {"kind": "ls", "A": A, "b": b, "r": r}
    for _ in range(ctx.budget(900, 40000)):
        yield gen_concat(ctx.rng)
    for _ in range(ctx.budget(700, 30000)):
        yield gen_cons_case(ctx.rng)
    for _ in range(ctx.budget(300, 5000)):
        yield gen_ls(ctx.rng)


def lean_line(case):
    if case["kind"] == "concat":
        return [json.dumps({"k": "concat", "docs": [_row(d) for d in case["docs"]]})] + [json.dumps({"k": "concat", "docs": [_row(case["docs"][k]) for k in p]}) for p in case.get("perms", [])]
    if case["kind"] == "ls":
        return [json.dumps({"k": "ls", "A": case["A"], "b": case["b"], "r": case["r"]})]
    req = {k: case[k] for k in ("classJoin", "classJoinChunks", "shape", "multiplier", "chunkShape", "paramJoin", "paramJoinChunks")}
    req.update({"k": "cons", "docs": [_row(d) for d in case["docs"]]})
    return [json.dumps(req)]


def compare(case, obs, replies):
    ms = [json.loads(r) for r in replies]
    if case["kind"] == "concat":
        want = [{k: v for k, v in obs.items() if k != "perms"}] + obs["perms"]
        return [] if ms == want else [{"model": ms, "impl": want}]
    if case["kind"] == "ls":
        if case["b"] <= 0:
            return []
        return [] if ms[0] == obs else [{"model": ms[0], "impl": obs}]
    return [] if ms[0] == obs else [{"model": ms[0], "impl": obs}]


def malformed(case):
    """inputs the Nat model does not speak about: negative numbers, inverted ranges for consolidators"""
    if case["kind"] == "cons":
        return any(d["i"][0] > d["i"][1] or d["s"][0] > d["s"][1] for d in case["docs"])
    return False


def _nontrivial(case, obs):
    if case["kind"] == "concat":
        return len(case["docs"]) > 1
    if case["kind"] == "cons":
        return obs["ctor"] != "ok" or bool(case["docs"]) and bool(obs["chunk_shape"])
    return case["A"] % max(case["b"], 1) != 0 or case["r"] != 1


def run(ctx, model=True):
    res = C.Result(
        rule="cases = corpus + exhaustive lists of <=3 (thorough: 4) index ranges over [0,3] (incl. zero-width, duplicates, overlaps) each also in reversed order "
        "+ exhaustive join/join_chunks/shape/multiplier/chunk_shape table + exhaustive list_summands(A<=12,b<=5,r<=3) + random mostly-contiguous datum sets "
        "(shuffled, with descriptor/resource/gap/overlap/duplicate/inverted/seq faults; every set also run reversed and shuffled) + random constructor "
        "arguments x datum lists (skips, repeated seq_nums) on real ConsolidatorBase subclasses + random list_summands calls on the real nested function; "
        "non-trivial = more than one document / a constructor rejection or chunked consumed data / a remainder or repeat != 1"
    )
    cases, obss, lines, spans = [], [], [], []
    for case in _cases(ctx):
        kind = case["kind"]
        obs = run_concat(case) if kind == "concat" else run_cons(case) if kind == "cons" else run_ls(case)
        cases.append(case)
        obss.append(obs)
        res.seen(case, _nontrivial(case, obs))
        res.count("kind:" + kind)
        if kind == "concat":
            res.count("concat:" + ("accepted" if "ok" in obs else obs["err"]))
            res.count("concat:evaluations", 1 + len(obs["perms"]))
            if tied_empty(case["docs"]):
                res.count("concat:with-tied-zero-width-range")
            bad = oracle_concat(case, obs)
        elif kind == "cons":
            res.count("cons:ctor:" + obs["ctor"])
            if obs["ctor"] == "ok":
                res.count(f"cons:{obs['join']}:join_chunks={obs['join_chunks']}")
                last = obs["snaps"][-1]["chunks"]
                res.count("cons:chunks:" + (last["err"] if isinstance(last, dict) else "ok"))
            bad = oracle_cons(case, obs)
        else:
            bad = oracle_ls(case, obs)
        for sig, what in bad:
            res.violations.append(C.Violation(sig, what, case))
        if model:
            ls = lean_line(case)
            spans.append((len(lines), len(ls)))
            lines += ls
    if model:
        replies = C.lean_batch(DRIVER, lines)
        for case, obs, (a, n) in zip(cases, obss, spans):
            for d in compare(case, obs, replies[a : a + n]):
                res.disagreements.append({"case": case, **d})
        picks = [next((k for k, c in enumerate(cases) if c["kind"] == "concat" and len(c["docs"]) == 3 and "ok" in obss[k]), 0), next((k for k, c in enumerate(cases) if c["kind"] == "cons" and c["docs"] and obss[k]["ctor"] == "ok" and c["chunkShape"]), 0), len(cases) - 1]
        for k in picks:
            a, n = spans[k]
            res.samples.append({"case": cases[k], "impl": obss[k], "model": [json.loads(r) for r in replies[a : a + n]]})
    else:
        res.samples.append({"case": cases[-1], "impl": obss[-1]})
    # one (smallest) case per violated signature
    best = {}
    for v in res.violations:
        size = len(json.dumps(v.case))
        if v.sig not in best or size < best[v.sig][0]:
            best[v.sig] = (size, v)
    res.violations = [v for _, v in best.values()]
    return res


def run_impl_only(ctx):
    return run(ctx, model=False)


def replay(ctx, data):
    res = C.Result()
    case = data.get("case")
    if not case:
        return res
    kind = case["kind"]
    obs = run_concat(case) if kind == "concat" else run_cons(case) if kind == "cons" else run_ls(case)
    bad = oracle_concat(case, obs) if kind == "concat" else oracle_cons(case, obs) if kind == "cons" else oracle_ls(case, obs)
    for sig, what in bad:
        res.violations.append(C.Violation(sig, what, case))
    return res
