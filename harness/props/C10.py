"""C10 -- interrupting a non-resumable section aborts cleanly."""
from __future__ import annotations

import collections

import copy

import common as C
import re_probes as RP
import engine_common as E
import engine_extract
import replay_common as R

MANIFEST = {
    "text": "FULL for the request paths of the model (pause / deferred pause at a checkpoint through _run's top-of-loop test, "
    "suspension through _request_suspend's own test). Lean (Props/C10.lean over the shared engine model): loopTop in state "
    "pausing/suspending without a cache stashes FailedPause, sets the run permit, goes to `aborting` (an edge of the GENERATED "
    "transition table) and does not enter the pause sequence; requestSuspend without a cache stores FailedPause in the exception "
    "slot, marks the call interrupted, goes to `aborting` and cancels; the stored / stashed FailedPause is what the next resume of "
    "the top plan throws (thrownOf); FailedPause leaving the loop gives exit status abort (generated ladder); `paused` is entered "
    "only from `pausing` (generated table) by pauseBlock, which loopTop reaches only with a cache: C10_never_paused_without_checkpoint "
    "for one step of _run from ANY state that is not already paused, for every plan and fuel. Python: after clear_checkpoint every "
    "accepted pause / suspension / deferred-pause-at-checkpoint on the REAL engine must throw FailedPause into the plan, never "
    "reach 'paused', run the enclosing finally blocks, end idle and interrupted with no open run, engine-closed runs marked abort.",
    "note": "Trusted: Lean kernel; engine_extract.py; the hand-written _run machine, tied by the differential run. The scope follows "
    "the code: after clear_checkpoint the cache stays absent until the call ends (a later `checkpoint` does NOT re-create it). "
    "Requests colliding with other scripted requests are compared model-vs-implementation but not judged by the oracle.",
    "technique": "Lean 4 proof over a program-counter model of RunEngine._run with source-extracted tables + differential runs against the real RunEngine + oracle on the interleaved logs",
}
LEAN_MODULES = ["BlueskyVerif.Props.C10"]
DRIVER_MODULES = E.DRIVER_MODULES
DRIVER = E.DRIVER
ASSUMPTIONS = [
    "requests from other threads act atomically while _run is suspended at an await",
    "synchronous fake devices; statuses complete only when the script says so",
]

STATS = collections.Counter()
BENIGN = ("status", "monitor", "release")


def extract(ctx):
    return engine_extract.extract()


def enclosing_fins(plan, mid):
    """first message id of every `finally` block that encloses message `mid` (innermost first)"""
    def first_id(st):
        if st is None:
            return None
        if st["k"] == "msg":
            return st.get("id")
        if st["k"] == "seq":
            for s in st["body"]:
                f = first_id(s)
                if f is not None or s["k"] in ("raise", "ret"):
                    return f
            return None
        if st["k"] == "try":
            return first_id(st["body"])
        return None

    def contains(st, mid):
        if st is None:
            return False
        if st["k"] == "msg":
            return st.get("id") == mid
        if st["k"] == "seq":
            return any(contains(s, mid) for s in st["body"])
        if st["k"] == "try":
            return contains(st["body"], mid) or contains(st.get("handler"), mid) or contains(st.get("fin"), mid)
        return False

    out = []

    def walk(st):
        if st is None:
            return
        if st["k"] == "seq":
            for s in st["body"]:
                if contains(s, mid):
                    walk(s)
        elif st["k"] == "try":
            if contains(st["body"], mid) or contains(st.get("handler"), mid):
                if st.get("fin") is not None:
                    out.append(first_id(st["fin"]))
                walk(st["body"])
                walk(st.get("handler"))
            elif contains(st.get("fin"), mid):
                walk(st["fin"])

    walk(plan)
    return [f for f in reversed(out) if f is not None]


def oracle(sc, o):
    bad = []
    idx, _ = R.index_plan(sc)
    script = {int(k): v for k, v in sc.get("script", {}).items()}
    ev = R.events(o, ("msgs", "trans", "arrivals", "returns", "yields"))
    state = "idle"
    cleared = False
    armed = False          # a deferred pause is pending
    req = None             # the judged request: {"kind", "tick", "n"}
    for n, (tick, key, i, e) in enumerate(ev):
        if key == "trans":
            state = e[1]
            if req is not None and e[1] == "paused":
                bad.append((f"paused-without-checkpoint:{req['kind']}", f"{req['kind']} requested after clear_checkpoint (no checkpoint in effect) but the engine went to 'paused'"))
                return bad
        elif key == "arrivals":
            acts = script.get(i, [])
            strong = [a for a in acts if a["a"] not in BENIGN]
            if len(strong) > 1 or (strong and req is not None):
                STATS["not-judged:colliding-requests"] += 1
                return bad
            for a in strong:
                if a["a"] == "pause" and a.get("defer"):
                    if state == "running":
                        armed = True
                elif a["a"] == "pause":
                    if state == "running":
                        armed = False
                        if cleared:
                            req = {"kind": "pause", "tick": tick, "s4": e == "S4"}
                        else:
                            return bad      # an ordinary pause: outside this property
                elif a["a"] == "suspend":
                    if cleared and state == "running":
                        req = {"kind": "suspend", "tick": tick, "s4": e == "S4"}
                    else:
                        return bad
                else:
                    return bad              # abort / stop / halt: outside this property
            if e == "ckpt" and armed and req is None:
                armed = False
                if cleared and state == "running":
                    req = {"kind": "deferred-pause-at-checkpoint", "tick": tick}
                else:
                    return bad
        elif key == "msgs":
            cmd, obj, run, mid = e
            if cmd == "clear_checkpoint":
                cleared = True
            elif cmd == "pause" and mid is not None and state == "running" and req is None:
                st = idx.get(mid, (None, None))[0]
                if st is None:
                    return bad
                if bool(st.get("kw", {}).get("defer", False)):
                    armed = True
                else:
                    armed = False
                    if cleared:
                        req = {"kind": "pause-message", "tick": tick}
                    else:
                        return bad
    if req is None:
        return bad
    t = req["tick"]
    if req.get("s4"):
        # the request landed in the exit sleep(0) of _run: the plan has already completed, there is no plan left to
        # throw FailedPause into (window of findings F3/F4, properties C07/C08); what remains of the statement:
        STATS["judged:" + req["kind"] + ":after-plan-completed"] += 1
        last = o["returns"][-1] if o["returns"] else None
        if last is not None and last[1] != "hang":
            if o["final_state"] != "idle":
                bad.append((f"not-idle:{req['kind']}", f"after the failed {req['kind']} the engine ends in state {o['final_state']!r}"))
            if last[5] != 0:
                bad.append((f"runs-left-open:{req['kind']}", f"after the failed {req['kind']} {last[5]} run(s) are still open"))
        return bad
    STATS["judged:" + req["kind"]] += 1
    throws = [(tk, y) for tk, y in zip(o["ticks"]["yields"], o["yields"]) if tk > t and y[1] == "throw"]
    fp = [(tk, y) for tk, y in throws if y[2] == "FailedPause"]
    if not fp:
        bad.append((f"no-FailedPause:{req['kind']}", f"{req['kind']} requested after clear_checkpoint but FailedPause was never thrown into the plan (throws: {[y for _, y in throws][:3]})"))
        return bad
    if throws[0][1][2] != "FailedPause":
        STATS["not-judged:other-exception-first"] += 1
        return bad
    tk_fp, y_fp = fp[0]
    last = o["returns"][-1] if o["returns"] else None
    if last is None or last[1] == "hang":
        return bad
    if o["final_state"] != "idle":
        bad.append((f"not-idle:{req['kind']}", f"after the failed {req['kind']} the engine ends in state {o['final_state']!r}"))
    if not last[3] and last[1] != "raise:RunEngineInterrupted":
        bad.append((f"interruption-not-reported:{req['kind']}", f"after the failed {req['kind']} the call ended with {last[1]} and interrupted={last[3]}"))
    elif last[1] == "return":
        bad.append((f"interruption-not-reported:{req['kind']}", f"after the failed {req['kind']} the call returned normally (interrupted={last[3]})"))
    if last[5] != 0:
        bad.append((f"runs-left-open:{req['kind']}", f"after the failed {req['kind']} {last[5]} run(s) are still open"))
    caught = any(tk > t and y[1] == "caught" and y[2] == "FailedPause" for tk, y in zip(o["ticks"]["yields"], o["yields"]))
    # the plan's own cleanup (a finally block) may fail with ANOTHER exception while FailedPause unwinds it -- e.g. an
    # unstage() that raises: that exception then leaves the plan and the ladder of _run says 'fail' (C02), not 'abort'
    other_failure = last[1].startswith("raise:") and last[1] not in ("raise:RunEngineInterrupted", "raise:FailedPause")
    if not caught and not other_failure:
        for d in o["docs"]:
            if d["k"] == "stop" and d["run"] in o["engine_closed"] and d["exit"] != "abort":
                bad.append((f"engine-closed-run-not-abort:{req['kind']}", f"run {d['run']} was closed by the engine's cleanup with exit_status {d['exit']!r} after a failed {req['kind']}"))
    # the finally blocks around the message that received FailedPause must run
    owner = idx.get(y_fp[0], (None, None))[1]
    if owner == "main":
        done = {m[3] for tk, m in zip(o["ticks"]["msgs"], o["msgs"]) if tk > tk_fp}
        for f in enclosing_fins(sc["plan"], y_fp[0]):
            if f not in done:
                bad.append((f"finally-not-run:{req['kind']}", f"FailedPause was thrown at msg #{y_fp[0]} but the enclosing finally block (first msg #{f}) was not executed"))
                break
    return bad


_GEN = R.ReplayGen(clear_p=0.45, kinds=("pause", "suspend", "defer"), sweep_kinds=("pause", "suspend", "defer"), fin_p=0.6)
_GEN.after_cmd = "clear_checkpoint"


def gen(rng):
    if rng.random() < 0.85:
        sc = _GEN(rng)
        sc["decisions"] = ["resume"] * 7 + ["halt"]
        return sc
    sc = E.gen_scenario(rng, dense=rng.random() < 0.5)
    sc["decisions"] = list(sc["decisions"]) + ["halt"]   # bounds the harness loop should resume() itself fail
    return sc


def fixed_scenarios():
    """`resumable` has two switches (a message cache exists; rewinding is enabled).  A fixed plan in which BOTH are off for
    a stretch -- rewindable False, then clear_checkpoint (and the other order) -- with one pause / deferred pause /
    suspension at EVERY arrival index."""
    from engine_common import M, seq

    out = []
    for order in ("rw-then-clear", "clear-then-rw", "engine-flag"):
        if order == "rw-then-clear":
            sect = [M("rewindable", None, False), M("clear_checkpoint")]
        elif order == "clear-then-rw":
            sect = [M("clear_checkpoint"), M("rewindable", None, False)]
        else:
            sect = [M("clear_checkpoint")]
        body = [M("open_run"), M("checkpoint"), M("set", "m1", 1, group="g"), M("wait", None, group="g")] + sect
        body += [M("null"), M("set", "m1", 2, group="h"), M("wait", None, group="h"), M("null"), M("checkpoint"), M("null")]
        if order != "engine-flag":
            body += [M("rewindable", None, True), M("checkpoint"), M("null")]
        body += [M("close_run")]
        plan = {"k": "try", "body": seq(*body), "handler": None, "fin": seq(M("set", "m1", 0, group="z"), M("wait", None, group="z"))}
        base = {"record_interruptions": False, "devices": {"m1": {"kind": "motor"}, "d1": {"kind": "det"}}, "plan": plan, "script": {},
                "decisions": ["resume"] * 7 + ["halt"], "max_arrivals": 200}
        n = len(E.run_scenario(E.number(copy.deepcopy(base)))["arrivals"])
        for at in range(n):
            for act in ({"a": "pause", "defer": False}, {"a": "pause", "defer": True}, {"a": "suspend", "fut": 0, "pre": None, "post": None, "just": None}):
                sc = copy.deepcopy(base)
                sc["script"] = {str(at): [act]}
                if act["a"] == "suspend":
                    sc["script"][str(at + 3)] = [{"a": "release", "fut": 0}]
                out.append(E.number(sc))
    return out


_FIXED = None


def run(ctx, model=True):
    global _FIXED
    STATS.clear()
    _GEN.sweep_cap = 40 if (ctx.tier == "thorough" or ctx.deep) else 10
    if _FIXED is None:
        _FIXED = fixed_scenarios()
    extra = _FIXED if (ctx.tier == "thorough" or ctx.deep) else _FIXED[:: 3]
    res = E.run_property(ctx, "C10", oracle, gen=gen, quick=160, thorough=4000, model=model, extra_scenarios=extra)
    for k, v in STATS.items():
        res.count(k, v)
    res.rule += " | C10: clear_checkpoint at varying positions (also followed by later checkpoints), try/finally around the plan body, one pause / suspension / deferred pause at EVERY later arrival index (sweeps) or several interruptions; judged = exactly one request accepted in state running after clear_checkpoint"
    RP.add_to(res, ["second-call", "nonresumable-wrapper"])
    return res


def run_impl_only(ctx):
    return run(ctx, model=False)


def replay(ctx, data):
    r = RP.replay(data)
    if r is not None:
        return r
    return E.replay_property(ctx, data, oracle)
