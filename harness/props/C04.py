"""C04 -- resuming replays exactly the work done since the last checkpoint."""
from __future__ import annotations

import collections

import common as C
import re_probes as RP
import engine_common as E
import engine_extract
import replay_common as R

MANIFEST = {
    "text": "FULL. Lean (Props/C04.lean over the shared engine model): C04_cache_rule -- processing a message appends it to "
    "the message cache iff a cache exists, the plan is rewindable and the command is not in the GENERATED "
    "_UNCACHEABLE_COMMANDS table, and never changes the cache otherwise; C04_implicit_checkpoints -- every command of "
    "the documented list (checkpoint, stage, unstage, monitor, unmonitor, subscribe, unsubscribe, close_run) is in the "
    "GENERATED list of handlers that reset the checkpoint state and each modelled handler leaves an empty cache when it "
    "succeeds, a rewindable toggle resets, clear_checkpoint removes the cache and nothing re-creates it; "
    "C04_replay_exact -- _rewind returns exactly the cache and empties it, resume() pushes it as a plan of its own, "
    "_start_suspender builds rewindable(False); pre; wait_for; _resume_from_suspender; post; rewindable(was); cache, and "
    "(by induction over the list) such a plan hands out exactly those messages in order whatever it is sent and then "
    "returns; C04_replay_step/_end -- one loop round with a rewind plan on top processes exactly its next message, an "
    "exhausted one is popped and the interrupted plan goes on; C04_cache_invariant -- along ANY run of the engine (every plan, "
    "device spec, script, fuel) the cache, when there is one, is exactly the cacheable messages among the LAST processed "
    "messages (a filtered suffix of the msg log: same identities, same order, none skipped) and is empty while the plan is "
    "non-rewindable. Python: the documented rule is recomputed from the executed message identities of the REAL RunEngine "
    "and every replay window after a resume or a suspension release is compared with it (same Msg objects, same order, "
    "then a new message); nested / repeated interruptions are followed with an expectation stack.",
    "note": "Trusted: Lean kernel; engine_extract.py (tables _UNCACHEABLE_COMMANDS, handlers calling _reset_checkpoint_state*, "
    "rewindable setter); the hand-written _run machine, tied to the real RunEngine by the differential run on the same "
    "scenarios (deterministic loop). subscribe/unsubscribe messages are in the extracted tables but their handlers are "
    "not modelled. A failed (raising) implicit-checkpoint command is not a checkpoint (code and oracle agree).",
    "technique": "Lean 4 proof over a program-counter model of RunEngine._run with source-extracted tables + differential runs against the real RunEngine + replay-window oracle on message identities",
}
LEAN_MODULES = ["BlueskyVerif.Props.C04"]
DRIVER_MODULES = E.DRIVER_MODULES
DRIVER = E.DRIVER
ASSUMPTIONS = [
    "requests from other threads act atomically while _run is suspended at an await",
    "synchronous fake devices; statuses complete only when the script says so",
    "pre/post plans of a suspension do not catch exceptions (scenarios where they do are not judged by the oracle)",
]

STATS = collections.Counter()


def extract(ctx):
    return engine_extract.extract()


def oracle(sc, o):
    tr = R.ReplayTracker(sc, o).run()
    for kind, n in tr.windows:
        STATS[f"window:{kind}:{'empty' if n == 0 else 'nonempty'}"] += 1
    if tr.stopped and tr.stopped != "violation":
        STATS["oracle-stopped:" + tr.stopped.split(" ")[0]] += 1
    if tr.skip:
        STATS["oracle-skipped:try-in-helper"] += 1
    return tr.bad


_GEN = R.ReplayGen()


def gen(rng):
    # the family generator most of the time, the generic engine generator for the rest
    if rng.random() < 0.8:
        return _GEN(rng)
    sc = E.gen_scenario(rng, dense=rng.random() < 0.5)
    sc["decisions"] = list(sc["decisions"]) + ["halt"]   # bounds the harness loop should resume() itself fail
    return sc


def second_interruption_scenarios(full):
    """a complete suspension (request, release, helper plans, rewind) FIRST, then a second interruption -- a pause or another
    suspension -- at every later arrival index before the next checkpoint: the second rewind must again replay everything
    since the last checkpoint (the engine is as rewindable after a suspension as it was before)"""
    import copy

    from engine_common import M, seq

    out = []
    for with_plans in (False, True):
        body = [M("open_run"), M("checkpoint"), M("null"), M("set", "m1", 1, group="g"), M("wait", None, group="g"), M("null"), M("null"), M("null"), M("null"),
                M("create", None, name="primary"), M("read", "d1"), M("save"), M("null"), M("checkpoint"), M("null"), M("close_run")]
        sus = {"a": "suspend", "fut": 0, "pre": seq(M("null")) if with_plans else None, "post": seq(M("null")) if with_plans else None, "just": None}
        base = {"record_interruptions": False, "devices": {"m1": {"kind": "motor"}, "d1": {"kind": "det"}}, "plan": seq(*body),
                "script": {"3": [sus], "5": [{"a": "release", "fut": 0}]}, "decisions": ["resume"] * 6 + ["halt"], "max_arrivals": 300}
        n = len(E.run_scenario(E.number(copy.deepcopy(base)))["arrivals"])
        ats = range(6, n) if full else range(6, n, 2)
        for at in ats:
            for second in ({"a": "pause", "defer": False}, {"a": "suspend", "fut": 1, "pre": None, "post": None, "just": None}):
                sc = copy.deepcopy(base)
                sc["script"].setdefault(str(at), []).append(second)
                if second["a"] == "suspend":
                    sc["script"].setdefault(str(at + 2), []).append({"a": "release", "fut": 1})
                out.append(E.number(sc))
    return out


def run(ctx, model=True):
    STATS.clear()
    _GEN.sweep_cap = 40 if (ctx.tier == "thorough" or ctx.deep) else 10
    extra = second_interruption_scenarios(ctx.tier == "thorough" or ctx.deep)
    res = E.run_property(ctx, "C04", oracle, gen=gen, quick=160, thorough=4000, model=model, extra_scenarios=extra)
    for k, v in STATS.items():
        res.count(k, v)
    res.rule += " | C04: plans mix checkpoints at varying spacing, clear_checkpoint, rewindable regions, stage/unstage, monitors, run boundaries (two runs in a row, run keys), pause messages; half of the plans are swept with one pause / suspension (pre/post plans) at EVERY arrival index, the others get 1-4 interruptions; pausable motor with NoReplayAllowed"
    RP.add_to(res, ["replayed-group"])
    return res


def run_impl_only(ctx):
    return run(ctx, model=False)


def replay(ctx, data):
    r = RP.replay(data)
    if r is not None:
        return r
    return E.replay_property(ctx, data, oracle)
