"""C31 -- installed suspenders gate plan start; removal releases waiters.

Tie: (T) the suspend/resume predicates used by the object model are the ones regenerated from suspenders.py
for C30 (Suspender/Generated.lean); `extract` additionally pins the statement shapes of `SuspenderBase.remove`,
`install`, `get_futures` and of the gate in `RunEngine.__call__` (Suspender/GateGenerated.lean, which
Props/C31.lean depends on).  (C) REAL suspender objects on fake signals and the REAL RunEngine (under
harness/simloop.SimLoop, the plan driven from a second thread) are put through generated histories of
install / remove / remove-again / signal changes / RE(plan) / gate openings; the same history is run on the
Lean models (Suspender/Gate.lean composed with the engine model) through Drivers/C31.lean and the logs are
compared.  The oracle is the property stated on the implementation's log.
"""
from __future__ import annotations

import ast
import contextlib
import io
import json
import threading
import types

import common as C
import re_probes as RP
import engine_extract

MANIFEST = {
    "text": "FULL. Lean (Props/C31.lean): the modelled functions still have the transcribed statements in the current source (generated facts); for ALL histories of "
    "install/remove/signal/get_futures on a suspender of any class (induction): an event is held exactly while tripped, "
    "never a set one, never while uninstalled; a tripped suspender hands RE.__call__ exactly that event; for every idle "
    "engine state and ANY plan a non-empty start gate makes `wait_for` the only message executed and keeps the plan "
    "untouched and the caller blocked through any number of non-releasing, non-cancelling event-loop turns; remove() sets "
    "the held event, clears the flag, detaches (all histories); remove∘remove = remove (all states); a removed suspender "
    "ignores every later signal change / stale callback.",
    "note": "Trusted: Lean kernel; the extractor; the hand-written object model and the composition with the engine model are "
    "tied by the correspondence run with real objects; thread interleavings inside SuspenderBase.__call__ (the lock, the "
    "0.1 s wait of __make_event) are not modelled; the sleep of a suspender is 0.",
    "technique": "Lean 4 proof over a model of the suspender object + the shared engine model, differential runs against real SuspenderBase objects and the real RunEngine",
}
LEAN_MODULES = ["BlueskyVerif.Props.C31"]
DRIVER_MODULES = ["BlueskyVerif.Suspender.Gate", "BlueskyVerif.Util.DriverLib"]
DRIVER = "Drivers/C31.lean"
ASSUMPTIONS = [
    "operations on suspenders / signals happen while _run is parked (or outside the call): no thread races inside SuspenderBase.__call__",
    "signal values are integers; suspender sleep = 0",
]
GATE_SIG = "plan-started-while-pretripped-suspender-still-held:another-suspender-tripped-during-the-start-gate"


# ----------------------------------------------------------------------------- (T) extractor
class Unextractable(Exception):
    pass


def _fn(cls, name):
    for n in cls.body:
        if isinstance(n, (ast.FunctionDef, ast.AsyncFunctionDef)) and n.name == name:
            return n
    raise Unextractable(name)


def _norm(st):
    return ast.unparse(st).replace("_SuspenderBase__", "__")


def extract_gate(write=True):
    st = ast.parse((C.SRC / "suspenders.py").read_text())
    base = next(n for n in st.body if isinstance(n, ast.ClassDef) and n.name == "SuspenderBase")
    body = lambda fn: [_norm(s) for s in fn.body if not (isinstance(s, ast.Expr) and isinstance(s.value, ast.Constant))]  # noqa: E731
    rem = body(_fn(base, "remove"))
    want_rem = ["self._sig.clear_sub(self)", "with self._lock:\n    if self.RE is not None:\n        self.__set_event(self.RE._loop)\n    self.RE = None\n    self._tripped = False"]
    inst = body(_fn(base, "install"))
    want_inst = ["with self._lock:\n    self.RE = RE", "self._sig.subscribe(self, event_type=event_type, run=True)"]
    gf = body(_fn(base, "get_futures"))
    want_gf = ["if not self.tripped:\n    return ([], '')", "with self._lock:\n    return ([self.__make_event().wait], self._get_justification())"]
    call = _fn(base, "__call__")
    call_src = _norm(call)
    facts = {"remove": rem == want_rem, "install": inst == want_inst, "get_futures": gf == want_gf,
             "call_guard": "if self.RE is None: return" in " ".join(call_src.split()),
             "call_suspend_first": call_src.find("if self._should_suspend(value):") < call_src.find("elif self._should_resume(value):") and call_src.find("if self._should_suspend(value):") > 0,
             "call_requests_only_when_running": "if self.RE.state.is_running: loop.call_soon_threadsafe(cb)" in " ".join(call_src.split()),
             "set_event_forgets": "self._ev = None" in _norm(_fn(base, "_SuspenderBase__set_event") if any(getattr(n, "name", "") == "_SuspenderBase__set_event" for n in base.body) else _fn(base, "__set_event"))}
    rt = ast.parse((C.SRC / "run_engine.py").read_text())
    re_cls = next(n for n in rt.body if isinstance(n, ast.ClassDef) and n.name == "RunEngine")
    csrc = ast.unparse(_fn(re_cls, "__call__"))
    i_plan = csrc.find("self._plan_stack.append(gen)")
    i_gate = csrc.find("if futs:\n        self._plan_stack.append(single_gen(Msg('wait_for', None, futs)))\n        self._response_stack.append(None)")
    facts["gate_collects"] = "for sup in self.suspenders:\n        f_lst, justification = sup.get_futures()\n        if f_lst:\n            futs.extend(f_lst)" in csrc
    facts["gate_pushed_on_top_of_plan"] = 0 < i_plan < i_gate
    rs = ast.unparse(_fn(re_cls, "remove_suspender"))
    facts["re_remove"] = "if suspender in self._suspenders:\n        suspender.remove()\n    self._suspenders.discard(suspender)" in rs
    ins = ast.unparse(_fn(re_cls, "install_suspender"))
    facts["re_install"] = "self._suspenders.add(suspender)\n    suspender.install(self)" in ins
    if write:
        b = lambda v: "true" if v else "false"  # noqa: E731
        L = ["-- GENERATED by harness/props/C31.py from src/bluesky/suspenders.py and run_engine.py -- do not edit.",
             "namespace BlueskyVerif.Suspender.SrcGate", "",
             "/-- each fact says: the statements of that function are still the ones the model (Suspender/Gate.lean) transcribes -/"]
        for k in sorted(facts):
            L.append(f"def {''.join(w.capitalize() if i else w for i, w in enumerate(k.split('_')))} : Bool := {b(facts[k])}")
        L += ["", "end BlueskyVerif.Suspender.SrcGate", ""]
        C.write_if_changed(C.LEAN / "BlueskyVerif" / "Suspender" / "GateGenerated.lean", "\n".join(L))
    return facts


def extract(ctx):
    import props.C30 as C30

    facts = {"C30": "regenerated"}
    C30.extract(ctx)
    engine_extract.extract()
    facts["C31"] = extract_gate()
    return facts


# ----------------------------------------------------------------------------- the real thing
class Sig:
    def __init__(self, name, v):
        self.name, self.value, self.subs = name, v, []

    def get(self):
        return self.value

    def subscribe(self, cb, event_type=None, run=True):
        self.subs.append(cb)
        if run:  # ophyd: the new subscriber is called at once with the current value
            cb(value=self.value, old_value=self.value, timestamp=0.0)
        return len(self.subs)

    def clear_sub(self, cb, event_type=None):
        self.subs = [c for c in self.subs if c is not cb]  # ophyd: every registration of cb

    def put(self, v):
        old, self.value = self.value, v
        for cb in list(self.subs):
            cb(value=v, old_value=old, timestamp=0.0)

    def __repr__(self):
        return self.name


def make_susp(spec, sig):
    import bluesky.suspenders as S

    cls = spec["cls"]
    K = getattr(S, cls)
    if cls in ("SuspendBoolHigh", "SuspendBoolLow"):
        return K(sig)
    if cls in ("SuspendFloor", "SuspendCeil"):
        kw = {} if spec.get("resume") is None else {"resume_thresh": spec["resume"]}
        return K(sig, spec["suspend"], **kw)
    if cls in ("SuspendWhenOutsideBand", "SuspendInBand", "SuspendOutBand"):
        import warnings

        with warnings.catch_warnings():
            warnings.simplefilter("ignore")
            return K(sig, spec["bot"], spec["top"])
    kw = {} if spec.get("expected") is None else {"expected_value": spec["expected"]}
    return K(sig, allow_resume=spec.get("allow", False), **kw)


class Hang(Exception):
    pass


def run_impl(case, timeout=8.0):
    from simloop import SimLoop

    import bluesky.suspenders as S
    from bluesky import RunEngine
    from bluesky.run_engine import DuringTask
    from bluesky.utils import Msg

    log, events, notes = [], [], []
    real_asyncio, real_threading = S.asyncio, S.threading
    proxy = types.ModuleType("asyncio_proxy31")
    proxy.__dict__.update(real_asyncio.__dict__)

    def Event(*a, **k):
        ev = real_asyncio.Event(*a, **k)
        events.append(ev)
        return ev

    proxy.Event = Event
    S.asyncio = proxy
    # `__make_event` gives the loop thread 0.1 s of REAL time to create the event; on a loaded machine that can expire
    # (then __call__ raises RuntimeError).  That race is outside the model: be patient instead.
    real_threading = S.threading
    tproxy = types.ModuleType("threading_proxy31")
    tproxy.__dict__.update(real_threading.__dict__)

    class PatientEvent(real_threading.Event):
        def wait(self, timeout=None):
            return super().wait(None if timeout is None else max(timeout, 10.0))

    tproxy.Event = PatientEvent
    S.threading = tproxy
    loop = SimLoop()
    idle_evt = threading.Event()

    def idle_hook():
        if not loop._ready and not [h for h in loop._scheduled if not h._cancelled]:
            idle_evt.set()
        return False

    buf = io.StringIO()
    out = {}
    try:
        with contextlib.redirect_stdout(buf), contextlib.redirect_stderr(buf):
            RE = RunEngine({}, loop=loop, context_managers=[], during_task=DuringTask())
            RE.log.disabled = True
            loop.idle_hook = idle_hook
            loop.busy.set()
            sigs = [Sig(f"sig{i}", sp["sig0"]) for i, sp in enumerate(case["susp"])]
            susps = [make_susp(sp, sigs[i]) for i, sp in enumerate(case["susp"])]
            nplan = case["nplan"]
            gates = {}

            def gate_fac(k):
                def fac():
                    ev = gates.get(k)
                    if ev is None:
                        ev = gates[k] = real_asyncio.Event()
                    return ev.wait()

                return fac

            plan, tags = [], {}
            for k in range(nplan):
                for j, m in enumerate([Msg("checkpoint"), Msg("wait_for", None, [gate_fac(k)]), Msg("null")]):
                    tags[id(m)] = 3 * k + j
                    plan.append(m)

            def msg_hook(msg):
                log.append(["msg", msg.command, tags.get(id(msg))])

            RE.msg_hook = msg_hook

            def settle():
                for _ in range(3):
                    idle_evt.clear()
                    loop.call_soon_threadsafe(lambda: None)
                    if not idle_evt.wait(timeout):
                        raise Hang("loop never idle")

            box, th = {}, [None]

            def target():
                try:
                    RE(plan)
                    box["r"] = "return"
                except BaseException as e:  # noqa
                    box["r"] = "raise:" + type(e).__name__
                    box["text"] = str(e)[:200]

            def check_ret():
                if th[0] is not None and "logged" not in box:
                    tf = RE._task_fut
                    if tf is not None and tf.done() or not th[0].is_alive():
                        th[0].join(timeout)
                        if th[0].is_alive():
                            raise Hang("call thread did not return")
                        box["logged"] = True
                        log.append(["ret", box.get("r", "?")])

            def open_gate(k):
                def f():
                    ev = gates.get(k)
                    if ev is None:
                        ev = gates[k] = real_asyncio.Event()
                    ev.set()

                loop.call_soon_threadsafe(f)

            def do(op):
                name = op[0]
                if name == "install":
                    RE.install_suspender(susps[op[1]])
                elif name == "remove":
                    RE.remove_suspender(susps[op[1]])
                elif name == "oremove":
                    susps[op[1]].remove()
                elif name == "put":
                    sigs[op[1]].put(op[2])
                elif name == "call":
                    if th[0] is None:
                        th[0] = threading.Thread(target=target, daemon=True)
                        th[0].start()
                        import time

                        t0 = time.time()
                        while str(RE.state) == "idle" and th[0].is_alive() and time.time() - t0 < timeout:
                            time.sleep(0.0005)
                elif name == "open":
                    open_gate(op[1])

            try:
                for j, op in enumerate(case["ops"]):
                    log.append(["op", j])
                    try:
                        do(op)
                    except Hang:
                        raise
                    except Exception as e:  # noqa
                        log.append(["exc", j, type(e).__name__])
                    settle()
                    check_ret()
                if th[0] is not None and "logged" not in box:
                    notes.append("call still in progress at the end of the history")
            except Hang as e:
                notes.append("hang: " + str(e))
            out = {
                "log": log,
                "final": [[s.RE is not None, bool(s._tripped), s._ev is None] for s in susps],
                "in_re": [s in RE._suspenders for s in susps],
                "events": [ev.is_set() for ev in events],
                "state": str(RE.state),
                "notes": notes,
                "subs": [len(g.subs) for g in sigs],
            }
            # let a stuck plan go so that the thread and the loop can be dropped
            if th[0] is not None and th[0].is_alive():
                with contextlib.suppress(Exception):
                    RE.halt()
    finally:
        S.asyncio = real_asyncio
        S.threading = real_threading
        with contextlib.suppress(Exception):
            loop.call_soon_threadsafe(loop.stop)
    return out


# ----------------------------------------------------------------------------- documented behaviour (for the oracle)
def _doc(spec):
    import props.C30 as C30

    cls = spec["cls"]
    p = {"suspend": spec.get("suspend", 0), "resume": spec.get("resume") if spec.get("resume") is not None else spec.get("suspend", 0),
         "bot": spec.get("bot", 0), "top": spec.get("top", 0),
         "expected": spec.get("expected") if spec.get("expected") is not None else spec["sig0"], "allow": spec.get("allow", False)}
    return (lambda v: C30.doc_suspend(cls, p, v)), (lambda v: C30.doc_resume(cls, p, v))


def oracle(case, o):
    """the property on the implementation's log -> [(sig, what)]"""
    bad = []
    hangs = [x for x in o.get("notes", []) if x.startswith("hang")]
    if hangs:
        bad.append(("harness:hang", str(hangs)))
        return bad
    if any("still in progress" in x for x in o.get("notes", [])):
        # the history ends with every suspender released or removed and every gate open: the plan must be through
        bad.append(("plan-still-held-after-every-suspender-released-or-removed", f"RE(plan) has not returned at the end of the history; log tail {o['log'][-4:]}"))
    n = len(case["susp"])
    docs = [_doc(sp) for sp in case["susp"]]
    val = [sp["sig0"] for sp in case["susp"]]
    subscribed, tripped, in_re = [False] * n, [False] * n, [False] * n
    log, ops = o["log"], case["ops"]
    pos = {e[1]: k for k, e in enumerate(log) if e[0] == "op"}
    for e in log:
        if e[0] == "exc":
            op = ops[e[1]]
            again = op[0] in ("remove", "oremove")
            bad.append((f"operation-raised:{op[0]}" + (":remove-again" if again else ""), f"operation #{e[1]} {op} raised {e[2]}"))
    call_j = next((j for j, op in enumerate(ops) if op[0] == "call"), None)
    ret_k = next((k for k, e in enumerate(log) if e[0] == "ret"), None)
    held_at_call, released_at = set(), {}
    for j, op in enumerate(ops):
        k0 = pos.get(j)
        k1 = pos.get(j + 1, len(log))
        if k0 is None:
            break
        window = log[k0 + 1 : k1]
        in_call = call_j is not None and j > call_j and (ret_k is None or k0 < ret_k)
        name = op[0]
        i = op[1] if len(op) > 1 else None

        def cb(i, v):
            ds, dr = docs[i]
            if ds(v):
                tripped[i] = True
            elif dr(v):
                if tripped[i]:
                    released_at.setdefault(i, k0) if i in held_at_call and i not in released_at else None
                tripped[i] = False

        was_tripped = list(tripped)
        if name == "install":
            subscribed[i], in_re[i] = True, True
            cb(i, val[i])
        elif name in ("remove", "oremove"):
            if name == "oremove" or in_re[i]:
                if tripped[i] and i in held_at_call:
                    released_at.setdefault(i, k0)
                subscribed[i], tripped[i] = False, False
            if name == "remove":
                in_re[i] = False
        elif name == "put":
            val[i] = op[2]
            if subscribed[i]:
                cb(i, op[2])
            elif any(e[0] == "msg" and e[1] == "_start_suspender" for e in window):
                bad.append(("removed-suspender-reacted-to-signal", f"operation #{j} {op}: suspender {i} is removed, yet a suspension started"))
        elif name == "call":
            held_at_call = {x for x in range(n) if in_re[x] and tripped[x]}
            first = next((e for e in window if e[0] == "msg"), None)
            if held_at_call and (first is None or first[1] != "wait_for" or first[2] is not None):
                bad.append(("pretripped-start-not-gated", f"suspenders {sorted(held_at_call)} are tripped at RE(plan) but the first message is {first}"))
            if not held_at_call and first is not None and first[2] is None:
                bad.append(("untripped-start-gated", f"no suspender is tripped at RE(plan) but the first message is {first}"))
        # removal releases what the suspender holds: the engine must get going again
        if name in ("remove", "oremove") and in_call and was_tripped[i] and not any(tripped) and (name == "oremove" or True):
            if not any(e[0] in ("msg", "ret") for e in window) and (name == "oremove" or was_tripped[i]):
                bad.append(("remove-did-not-release", f"operation #{j} {op}: suspender {i} held the plan, nothing is tripped any more, but the engine did not go on"))
    # (1) no plan message before every suspender that was tripped at the start has released
    if call_j is not None and held_at_call:
        first_plan = next((k for k, e in enumerate(log) if e[0] == "msg" and e[2] is not None), None)
        if first_plan is not None:
            late = [i for i in sorted(held_at_call) if released_at.get(i, 10**9) > first_plan]
            if late:
                other = any(e[0] == "msg" and e[1] == "_start_suspender" for e in log[:first_plan])
                sig = GATE_SIG if other else "plan-started-before-pretripped-suspender-released"
                bad.append((sig, f"suspenders {late} were tripped when RE(plan) was called and had not released, but plan message {log[first_plan]} ran (log position {first_plan})" + ("; another suspender tripped while the start gate was waiting" if other else "")))
    # (3) final states: removed suspenders are inert, flags follow the documented conditions
    for i in range(n):
        inst, trip, ev_none = o["final"][i]
        if inst != subscribed[i] or trip != tripped[i]:
            bad.append(("final-state", f"suspender {i}: installed={inst} tripped={trip}, expected installed={subscribed[i]} tripped={tripped[i]}"))
        if (not trip) != ev_none:
            bad.append(("final-state", f"suspender {i}: tripped={trip} but holds {'no' if ev_none else 'an'} event"))
    # every event that is no longer held was set (nobody is left waiting on a forgotten event)
    held = sum(1 for f in o["final"] if not f[2])
    if sum(1 for s in o["events"] if not s) != held:
        bad.append(("event-never-set", f"events set: {o['events']}, suspenders still holding one: {held}"))
    if call_j is not None and ret_k is not None and log[ret_k][1] != "return":
        bad.append(("call-raised", f"RE(plan) ended with {log[ret_k][1]}"))
    seen, out = set(), []
    for s, w in bad:
        if s not in seen:
            seen.add(s)
            out.append((s, w))
    return out


# ----------------------------------------------------------------------------- generator
def gen_spec(rng):
    cls = rng.choice(["SuspendBoolHigh", "SuspendBoolLow", "SuspendFloor", "SuspendCeil", "SuspendWhenOutsideBand", "SuspendWhenChanged"])
    sp = {"cls": cls, "sig0": rng.choice([0, 1, 3, 6]), "suspend": 2, "resume": rng.choice([None, 2, 5]) if cls == "SuspendFloor" else (rng.choice([None, 2, 0]) if cls == "SuspendCeil" else None),
          "bot": 1, "top": 5, "expected": rng.choice([None, 3]), "allow": True}
    return sp


def bad_good(spec):
    """a value that trips the suspender and one that releases it"""
    ds, dr = _doc(spec)
    vals = [0, 1, 3, 6, 2, 5, 7]
    return next(v for v in vals if ds(v)), next(v for v in vals if dr(v) and not ds(v))


def gen_case(rng, mode=None):
    n = rng.choice([1, 1, 2])
    susp = [gen_spec(rng) for _ in range(n)]
    nplan = rng.choice([1, 2])
    mode = mode or rng.choice(["pretrip-release", "pretrip-remove", "pretrip-oremove", "mid-trip", "removed-ignores", "double-remove", "untripped", "random", "random", "gate-overlap"])
    ops = []
    bg = [bad_good(s) for s in susp]
    i = rng.randrange(n)
    if mode.startswith("pretrip"):
        ops += [["put", i, bg[i][0]]] if rng.random() < 0.5 else []
        susp[i]["sig0"] = susp[i]["sig0"] if ops else bg[i][0]
        ops += [["install", i]]
        if not ops[0][0] == "put" and rng.random() < 0.3:
            ops += [["put", i, bg[i][0]]]
        if ops[0][0] == "put":
            pass
        other = [x for x in range(n) if x != i]
        for x in other:
            if rng.random() < 0.6:
                ops += [["install", x]]
                if rng.random() < 0.4:
                    ops += [["put", x, bg[x][0]]]
        ops += [["call"]]
        for _ in range(rng.choice([0, 1, 2])):
            ops += [rng.choice([["put", i, bg[i][0]], ["open", 0], ["put", i, rng.choice([0, 1, 2, 3, 5, 6])]])]
        rel = {"pretrip-release": ["put", i, bg[i][1]], "pretrip-remove": ["remove", i], "pretrip-oremove": ["oremove", i]}[mode]
        ops += [rel]
        for x in other:
            ops += [rng.choice([["put", x, bg[x][1]], ["remove", x]])]
        if rng.random() < 0.5:
            ops += [["remove", i], ["oremove", i]]
    elif mode == "mid-trip":
        susp[i]["sig0"] = bg[i][1]
        ops += [["install", i], ["call"]]
        k = rng.randrange(nplan)
        ops += [["open", g] for g in range(k)]
        ops += [["put", i, bg[i][0]]]
        ops += [rng.choice([["put", i, bg[i][1]], ["remove", i], ["oremove", i]])]
        if rng.random() < 0.5:
            ops += [["put", i, bg[i][0]], ["put", i, bg[i][1]]]
    elif mode == "removed-ignores":
        susp[i]["sig0"] = bg[i][1]
        ops += [["install", i]]
        ops += [rng.choice([["remove", i], ["oremove", i]])]
        ops += [["put", i, bg[i][0]]]
        ops += [["call"], ["put", i, bg[i][1]], ["put", i, bg[i][0]]]
    elif mode == "double-remove":
        ops += [["install", i], ["remove", i], ["remove", i], ["oremove", i], ["oremove", i]]
        if rng.random() < 0.5:
            ops += [["install", i], ["oremove", i], ["remove", i]]
        ops += [["call"]]
    elif mode == "untripped":
        susp[i]["sig0"] = bg[i][1]
        ops += [["install", i], ["call"]]
    elif mode == "gate-overlap" and n == 2:
        j = 1 - i
        susp[i]["sig0"], susp[j]["sig0"] = bg[i][0], bg[j][1]
        ops += [["install", i], ["install", j], ["call"], ["put", j, bg[j][0]], ["put", j, bg[j][1]], ["put", i, bg[i][1]]]
    else:
        called = False
        for _ in range(rng.choice([3, 5, 8])):
            r = rng.random()
            x = rng.randrange(n)
            if r < 0.25:
                ops.append(["install", x])
            elif r < 0.4:
                ops.append(["remove", x])
            elif r < 0.5:
                ops.append(["oremove", x])
            elif r < 0.85:
                # keep at most one suspender tripped while the plan runs (overlapping suspensions are C11's finding F5)
                ops.append(["put", x, rng.choice([bg[x][1], bg[x][1], bg[x][0]]) if called else rng.choice(list(bg[x]) + [rng.choice([0, 1, 2, 3, 5, 6])])])
            elif not called:
                ops.append(["call"])
                called = True
            else:
                ops.append(["open", rng.randrange(nplan)])
        if not called:
            ops.append(["call"])
    # wind down: everything good / removed, every gate open
    for x in range(n):
        ops += [rng.choice([["put", x, bg[x][1]], ["remove", x]]), ["oremove", x]]
    ops += [["open", g] for g in range(nplan)]
    if mode == "random":
        ops = _one_at_a_time(ops, susp, n)
    return {"susp": susp, "nplan": nplan, "ops": ops, "_mode": mode}


def _one_at_a_time(ops, susp, n):
    """drop signal changes that would trip a second suspender while the call is in progress and one is already tripped
    (two suspenders held at the same time during a run is C11's open finding F5, not this property)"""
    docs = [_doc(s) for s in susp]
    val = [s["sig0"] for s in susp]
    sub, trip = [False] * n, [False] * n
    called, out = False, []
    for op in ops:
        name = op[0]
        i = op[1] if len(op) > 1 else None
        v = None
        if name == "install":
            v = val[i]
        elif name == "put":
            v = op[2]
        if v is not None and (name == "install" or sub[i]):
            if docs[i][0](v) and not trip[i] and called and any(trip):
                continue
            if docs[i][0](v) and not trip[i] and not called and any(trip) and False:
                continue
        if name == "install":
            sub[i] = True
        if name == "put":
            val[i] = op[2]
        if v is not None and sub[i]:
            if docs[i][0](v):
                trip[i] = True
            elif docs[i][1](v):
                trip[i] = False
        if name in ("remove", "oremove"):
            sub[i], trip[i] = False, False
        if name == "call":
            if sum(trip) > 1:
                # two pre-tripped suspenders are fine (one wait_for on both futures)
                pass
            called = True
        out.append(op)
    return out


def minimal_gate_overlap():
    return {"susp": [{"cls": "SuspendBoolHigh", "sig0": 1}, {"cls": "SuspendBoolHigh", "sig0": 0}], "nplan": 1,
            "ops": [["install", 0], ["install", 1], ["call"], ["put", 1, 1], ["put", 1, 0], ["open", 0], ["put", 0, 0]], "_mode": "gate-overlap"}


def _cases(ctx):
    corpus = C.VERIF / "corpus" / "C31"
    if corpus.exists():
        for f in sorted(corpus.glob("*.json")):
            yield json.loads(f.read_text())["case"]
    yield minimal_gate_overlap()
    for m in ["pretrip-release", "pretrip-remove", "pretrip-oremove", "mid-trip", "removed-ignores", "double-remove", "untripped"]:
        yield gen_case(ctx.rng, m)
    for _ in range(ctx.budget(120, 1500)):
        yield gen_case(ctx.rng)


def _canon(o):
    return {k: o[k] for k in ("log", "final", "in_re", "events", "state")}


def run(ctx, model=True):
    res = C.Result(rule="history = 1-2 real suspenders (6 classes) on fake signals x operations (RE.install_suspender, RE.remove_suspender, "
                   "suspender.remove(), signal.put, RE(plan) from a second thread, gate openings) with pre-tripped starts, removal while held, "
                   "mid-plan trips, signal changes after removal, repeated removal; non-trivial = some suspender was tripped at some point or a removal happened")
    cases, obss = [], []
    for case in _cases(ctx):
        o = run_impl(case)
        cases.append(case)
        obss.append(o)
        nontriv = any(e[0] == "msg" and e[2] is None for e in o["log"]) or any(op[0] in ("remove", "oremove") for op in case["ops"])
        res.seen(case, nontriv)
        res.count("mode:" + str(case.get("_mode")))
        res.count("suspenders:" + str(len(case["susp"])))
        for sp in case["susp"]:
            res.count(sp["cls"])
        for sig, what in oracle(case, o):
            res.violations.append(C.Violation(sig, what, case))
    if model:
        replies = C.lean_batch(DRIVER, [json.dumps(c) for c in cases])
        for case, o, rep in zip(cases, obss, replies):
            m = json.loads(rep)
            if m != _canon(o):
                res.disagreements.append({"case": case, "model": m, "impl": _canon(o)})
        for i in (0, len(cases) // 2, len(cases) - 1):
            res.samples.append({"case": cases[i], "impl": _canon(obss[i]), "model": json.loads(replies[i])})
    else:
        res.samples.append({"case": cases[-1], "impl": obss[-1]})
    RP.add_to(res, ["busy-loop-trip"])
    return res


def run_impl_only(ctx):
    return run(ctx, model=False)


def replay(ctx, data):
    r = RP.replay(data)
    if r is not None:
        return r
    res = C.Result()
    case = data.get("case")
    if not case:
        return res
    o = run_impl(case)
    for sig, what in oracle(case, o):
        res.violations.append(C.Violation(sig, what, case))
    return res
