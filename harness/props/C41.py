"""C41 -- monitors report only while their run is open and the engine is running."""
from __future__ import annotations

import bisect
import copy

import common as C
import re_probes as RP
import fault_probes as FP
import engine_common as E
import engine_extract
import engine_impl as EI
from engine_common import M, seq

MANIFEST = {
    "text": "PARTIAL (open finding F17: suspensions). Lean (Props/C41.lean over the shared engine model): a signal update "
    "emits exactly one event per subscription the device holds (monitorUpdate); `monitor` adds exactly one subscription "
    "(+ descriptor, implicit checkpoint), `unmonitor` / clear_monitors / close_run remove every subscription of that run's "
    "stream; the pause sequence of _run suspends the monitors of every bundler so that in the paused state no device has a "
    "subscription belonging to a monitor of an open bundler (C41_paused_no_subscription) and hence an update while paused "
    "emits nothing; the resume path restores exactly one subscription per monitor (C41_resume_restores); after the "
    "cleanup of _run no monitored signal has a subscription left (C41_no_leftover_subscription). For suspensions the full "
    "statement C41_full is kept visible; proved is C41_partial (pause / resume / unmonitor / run end) and the counterexample "
    "(Counterexamples/C41.lean): _start_suspender leaves the subscription, _resume_from_suspender adds a second one. The "
    "Python oracle states the property on the real documents and the device ledger; the model is tied to the real "
    "RunEngine by differential runs.",
    "note": "Trusted: Lean kernel; engine_extract.py; the hand-written _run machine (tied by the correspondence run under a "
    "deterministic event loop). Signal updates are delivered at _run's suspension points (arrivals / quiescence) and, "
    "implementation only, at the moment the state becomes 'paused'; the fake signal's clear_sub(cb) removes every "
    "registration of cb (ophyd semantics).",
    "technique": "Lean 4 proof over the program-counter model of RunEngine + bundler monitors; differential runs against the real RunEngine with a subscription ledger",
}
LEAN_MODULES = ["BlueskyVerif.Props.C41"]
DRIVER_MODULES = E.DRIVER_MODULES + ["BlueskyVerif.Counterexamples.C41"]  # built with the check, not an obligation
DRIVER = E.DRIVER
ASSUMPTIONS = [
    "requests from other threads act atomically while _run is suspended at an await",
    "signal updates arrive while _run is suspended at an await (arrival points), or exactly when the state becomes 'paused'",
    "clear_sub(cb) removes every registration of cb (ophyd)",
    "a suspension lasts from the _start_suspender message to the matching _resume_from_suspender message",
]
SIG = "s1"

# ----------------------------------------------------------------------------- updates while paused (implementation only)
# The shared harness delivers monitor updates at arrivals of _run only; _run never "arrives" while paused.  To
# exercise "updates during a pause are not reported" on the real engine, scenario["paused_updates"][k]
# ({"sig": name, "v": value} or None) is delivered to that signal at the moment the state becomes 'paused' for the
# k-th time (inside the state hook: after suspend_monitors, before RE.__call__ returns).  The model needs no
# counterpart: no event may result (Lean: C41_paused_no_subscription + update_without_subscription_emits_nothing).
_orig_state_hook = EI.Harness.state_hook


def _state_hook(self, new, old):
    _orig_state_hook(self, new, old)
    ups = self.sc.get("paused_updates")
    if ups and str(new) == "paused":
        k = getattr(self, "_n_paused", 0)
        self._n_paused = k + 1
        if k < len(ups) and ups[k] is not None and ups[k]["sig"] in self.devs:
            dev = self.devs[ups[k]["sig"]]
            dev.value = ups[k]["v"]
            for cb in list(dev.subs):
                cb()


EI.Harness.state_hook = _state_hook


def extract(ctx):
    return engine_extract.extract()


# ----------------------------------------------------------------------------- oracle
def _is_mon_stream(name):
    return isinstance(name, str) and name.endswith("_monitor")


def signals(sc):
    return sorted(n for n, d in sc.get("devices", {}).items() if d.get("kind") == "sig")


def analyse(sc, o, sig=SIG):
    """when was `sig` monitored by which run, and when was the engine inside a suspension -- from the logs"""
    T = o["ticks"]
    docs, dt = o["docs"], T["docs"]
    msgs, mt = o["msgs"], T["msgs"]
    other = sorted(t for key, ts in T.items() if key != "docs" for t in ts)

    def wend(t):
        i = bisect.bisect_right(other, t)
        return other[i] if i < len(other) else float("inf")

    coarse = sorted(t for key in ("msgs", "arrivals", "returns") for t in T[key])

    def wend_msg(t):
        i = bisect.bisect_right(coarse, t)
        return coarse[i] if i < len(coarse) else float("inf")

    def docs_in(t0, t1):
        return [(d, td) for d, td in zip(docs, dt) if t0 < td < t1]

    stop_t = {d["run"]: td for d, td in zip(docs, dt) if d["k"] == "stop"}
    key_run = {}  # run key -> run
    intervals = {}  # run -> list of [start, end]
    active = {}  # run -> start tick of the running interval
    events = sorted(
        [(t, "msg", m) for m, t in zip(msgs, mt)] + [(td, "stop", d["run"]) for d, td in zip(docs, dt) if d["k"] == "stop"],
        key=lambda e: e[0],
    )
    led, lt = o["ledger"], T["ledger"]
    for t, kind, x in events:
        if kind == "stop":
            if x in active:
                intervals.setdefault(x, []).append([active.pop(x), t])
            for k in [k for k, v in key_run.items() if v == x]:
                del key_run[k]
            continue
        cmd, obj, key, mid = x
        end = wend(t)
        if cmd == "open_run":
            st = [d for d, td in docs_in(t, end) if d["k"] == "start"]
            if st:
                key_run[key] = st[0]["run"]
        elif cmd == "monitor" and obj == sig:
            ds = [(d, td) for d, td in docs_in(t, end) if d["k"] == "descriptor" and _is_mon_stream(d["stream"]) and d["keys"] == [sig]]
            if ds:
                active[ds[0][0]["run"]] = ds[0][1]
        elif cmd == "unmonitor" and obj == sig:
            r = key_run.get(key)
            cleared = any(e[0] == sig and e[1] == "clear_sub" and t < tl < wend_msg(t) for e, tl in zip(led, lt))
            if r in active and cleared:
                intervals.setdefault(r, []).append([active.pop(r), t])
    for r, t0 in active.items():
        intervals.setdefault(r, []).append([t0, stop_t.get(r, float("inf"))])
    susp = []  # (tick, depth after)
    depth = 0
    for m, t in zip(msgs, mt):
        if m[0] == "_start_suspender":
            depth += 1
            susp.append((t, depth))
        elif m[0] == "_resume_from_suspender":
            depth = max(0, depth - 1)
            susp.append((t, depth))

    def suspended_at(t):
        d = 0
        for ts, dd in susp:
            if ts < t:
                d = dd
        return d > 0

    return intervals, suspended_at, wend, docs_in


def updates(sc, o):
    """[(tick, signal, value, context)] of the signal updates that were delivered"""
    T = o["ticks"]
    out = []
    for k, acts in sc.get("script", {}).items():
        k = int(k)
        if k < len(T["arrivals"]) and k < sc.get("max_arrivals", 400):
            for a in acts:
                if a["a"] == "monitor":
                    out.append((T["arrivals"][k], a["sig"], a["v"], "arrival"))
    ups = sc.get("paused_updates") or []
    n = 0
    for (a, b), t in zip(o["trans"], T["trans"]):
        if b == "paused":
            if n < len(ups) and ups[n] is not None:
                out.append((t, ups[n]["sig"], ups[n]["v"], "paused"))
            n += 1
    out.sort()
    return out


def oracle(sc, o):
    bad = []
    if any(r[1] == "hang" for r in o["returns"]):
        return bad
    T = o["ticks"]
    ups = updates(sc, o)
    vals = [v for _, _, v, _ in ups]
    unique = len(set(vals)) == len(vals)
    had_pause = [t for (a, b), t in zip(o["trans"], T["trans"]) if b == "paused"]
    had_susp_end = [t for m, t in zip(o["msgs"], T["msgs"]) if m[0] == "_resume_from_suspender"]
    all_mon = [(d, td) for d, td in zip(o["docs"], T["docs"]) if d["k"] == "event" and _is_mon_stream(d["stream"])]
    claimed = 0
    for sig in signals(sc):
        intervals, suspended_at, wend, docs_in = analyse(sc, o, sig)
        mon_events = [(d, td) for d, td in all_mon if sig in d["data"]]
        for t, usig, v, ctx in ups:
            if usig != sig:
                continue
            end = wend(t)
            if unique:
                evs = [(d, td) for d, td in mon_events if d["data"].get(sig) == v]
                for d, td in evs:
                    if not (t < td < end):
                        bad.append(("monitor-event-late", f"update {sig}={v} at tick {t}: event at tick {td} is outside the update's window"))
            else:
                evs = [(d, td) for d, td in mon_events if t < td < end]
            claimed += len(evs)
            per_run = {}
            for d, _ in evs:
                per_run[d["run"]] = per_run.get(d["run"], 0) + 1
            paused = ctx == "paused"
            susp = suspended_at(t)
            monitoring = sorted(r for r, ivs in intervals.items() if any(a < t < b for a, b in ivs))
            for r in monitoring:
                n = per_run.pop(r, 0)
                if paused:
                    if n:
                        bad.append(("monitor-event-while-paused", f"update {sig}={v} delivered when the state became 'paused': run {r} got {n} event(s)"))
                elif susp:
                    if n:
                        bad.append(("monitor-event-during-suspension", f"update {sig}={v} at tick {t} inside a suspension (after _start_suspender, before _resume_from_suspender): run {r} got {n} event(s)"))
                elif n == 0:
                    where = "after-resume" if any(tp < t for tp in had_pause) else ("after-suspension" if any(ts < t for ts in had_susp_end) else "plain")
                    bad.append((f"monitor-event-missing:{where}", f"update {sig}={v} at tick {t}: run {r} monitors {sig}, is open, engine neither paused nor suspended, but no event"))
                elif n > 1:
                    where = "after-suspension" if any(ts < t for ts in had_susp_end) else "other"
                    bad.append((f"monitor-event-duplicated-{where}", f"update {sig}={v} at tick {t}: run {r} got {n} events for one update"))
            for r, n in per_run.items():
                bad.append(("monitor-event-for-unmonitored-or-closed-run", f"update {sig}={v} at tick {t}: run {r} got {n} event(s) but does not monitor {sig} at that moment"))
        # ledger: with one monitoring run at a time a subscribe must never meet a live subscription
        keys = {m[2] for m in o["msgs"] if m[0] == "monitor" and m[1] == sig}
        if len(keys) <= 1:
            live = 0
            for e in o["ledger"]:
                if e[0] != sig:
                    continue
                if e[1] == "subscribe":
                    if live:
                        bad.append(("monitor-subscribed-twice-without-clear_sub", f"{sig}.subscribe called while the engine's callback is already registered (ledger of {sig}: {[x[1] for x in o['ledger'] if x[0] == sig]})"))
                        break
                    live += 1
                elif e[1] == "clear_sub":
                    live = 0
    if unique and claimed != len(all_mon):
        bad.append(("monitor-event-without-update", f"{len(all_mon) - claimed} event(s) in a monitor stream carry no delivered update value"))
    # numbering of each monitor stream: 1..N (the stream is never re-taken)
    for r, st in sorted({(d["run"], d["stream"]) for d, _ in all_mon}):
        seqs = [d["seq"] for d, _ in all_mon if d["run"] == r and d["stream"] == st]
        if seqs != list(range(1, len(seqs) + 1)):
            bad.append(("monitor-seq-nums-not-1..N", f"run {r}: seq_nums of stream {st} are {seqs}"))
    # nothing left on the device
    for name, n in o.get("subs_left", {}).items():
        if n != 0:
            bad.append(("subscription-left-on-device", f"{name} still has {n} engine subscription(s) after the engine went idle"))
    return bad


def stats(sc, o):
    f = set()
    for sig in signals(sc):
        intervals, suspended_at, wend, _ = analyse(sc, o, sig)
        for t, usig, v, ctx in updates(sc, o):
            if usig == sig:
                mon = any(a < t < b for ivs in intervals.values() for a, b in ivs)
                f.add(f"upd:{ctx}:{'mon' if mon else 'nomon'}:{'susp' if suspended_at(t) else 'run'}")
    return f


# ----------------------------------------------------------------------------- targeted generator
def gen_plan(rng, sigs=(SIG,)):
    two = rng.random() < 0.15
    keys = ["a", "b"] if two else [None]
    body = []
    for k in keys:
        body.append(M("open_run", run=k))
    pts = []
    n = rng.choice([2, 2, 3, 4])
    for _ in range(n):
        k = rng.choice(keys)
        p = []
        if rng.random() < 0.7:
            p.append(M("checkpoint"))
        if rng.random() < 0.4:
            p.append(M("set", "m1", rng.choice([1, 2, 3]), group="g"))
            p.append(M("wait", None, group="g"))
        if rng.random() < 0.4:
            p.append(M("sleep", None, rng.choice([0, 1, 3])))
        if rng.random() < 0.15:
            p.append(M("pause", None, defer=rng.random() < 0.4))
        p += [M("create", None, name="primary", run=k), M("read", "d1", run=k), M("save", run=k)]
        pts.append(p)
    for k in keys:
        if two and rng.random() < 0.3:
            continue
        for sg in sigs:
            i = rng.randrange(0, len(pts))
            pts[i].insert(rng.randrange(0, 2), M("monitor", sg, run=k, name=f"{sg}_monitor"))
            r = rng.random()
            if r < 0.5:
                j = rng.randrange(i, len(pts))
                pts[j].append(M("unmonitor", sg, run=k))
            elif r < 0.6:
                pts[rng.randrange(0, len(pts))].insert(0, M("unmonitor", sg, run=k))  # possibly before the monitor: refused
    for p in pts:
        body += p
    if rng.random() < 0.1:
        body.append({"k": "raise"})
    for k in keys:
        if rng.random() < 0.8:
            body.append(M("close_run", run=k))
    if rng.random() < 0.3:
        body += [M("open_run"), M("monitor", SIG, name=f"{SIG}_monitor"), M("checkpoint"), M("sleep", None, 1), M("create", None, name="primary"), M("read", "d1"), M("save")]
        if rng.random() < 0.5:
            body.append(M("unmonitor", SIG))
        if rng.random() < 0.8:
            body.append(M("close_run"))
        body.append(M("sleep", None, 1))  # updates after the run ended
    return seq(*body)


def gen_script(rng, n_arr, susp, sigs=(SIG,)):
    script = {}
    val = [100]

    def upd():
        val[0] += 1
        return {"a": "monitor", "sig": rng.choice(sigs), "v": val[0]}

    dens = rng.choice([0.3, 0.6, 1.0])
    for k in range(n_arr + 6):
        if rng.random() < dens:
            script.setdefault(str(k), []).append(upd())
    fut = 0
    for _ in range(rng.choice([0, 1, 1, 2, 3])):
        at = rng.randrange(0, max(1, n_arr + 2))
        r = rng.random()
        if r < (0.75 if not susp else 0.35):
            act = {"a": "pause", "defer": rng.random() < 0.25}
        elif r < (0.75 if not susp else 0.85):
            act = {"a": "suspend", "fut": fut, "pre": E.small_plan(rng), "post": E.small_plan(rng), "just": None}
            if rng.random() < 0.8:
                script.setdefault(str(at + rng.randrange(1, 5)), []).append({"a": "release", "fut": fut})
            fut += 1
        else:
            act = {"a": rng.choice(["abort", "stop", "halt"])}
        script.setdefault(str(at), []).append(act)
    return script, val[0]


def normalise_script(script):
    """The harness executes status / monitor / release actions of an arrival at once and queues the requests
    (pause / suspend / abort / stop / halt) with call_soon; the model plays the list in order.  Put the immediate
    actions first so that both orders coincide."""
    imm = ("monitor", "status", "release")
    return {k: [a for a in v if a["a"] in imm] + [a for a in v if a["a"] not in imm] for k, v in script.items()}


def gen(rng):
    r = rng.random()
    if r < 0.15:
        sc = E.gen_scenario(rng, dense=True)
        sc["script"] = normalise_script(sc["script"])
        return sc
    susp = r < 0.45  # scenarios with suspension requests (finding F17 lives there)
    devs = {
        "m1": {"kind": "motor", "modes": {"set": [rng.choice(["done", "pending"]) for _ in range(3)]} if rng.random() < 0.5 else {}, "pausable": rng.random() < 0.2},
        "m2": {"kind": "motor", "modes": {}},
        "d1": {"kind": "det", "modes": {}, "offset": 1},
        "d2": {"kind": "det", "modes": {}, "offset": 2},
        SIG: {"kind": "sig"},
    }
    sigs = (SIG,)
    if rng.random() < 0.35:
        devs["s2"] = {"kind": "sig"}
        sigs = (SIG, "s2")
    sc = {
        "record_interruptions": rng.random() < 0.3,
        "devices": devs,
        "plan": gen_plan(rng, sigs),
        "script": {},
        "decisions": [rng.choice(["resume"] * 6 + ["abort", "stop", "halt"]) for _ in range(8)],
        "max_arrivals": 300,
    }
    base = E.run_scenario(E.number(copy.deepcopy(sc)))
    script, last = gen_script(rng, len(base["arrivals"]), susp, sigs)
    sc["script"] = normalise_script(script)
    sc["paused_updates"] = [({"sig": rng.choice(sigs), "v": 1000 + i} if rng.random() < 0.7 else None) for i in range(8)]
    return E.number(sc)


def stop_dispatch_probes(rng, n):
    """Implementation-only probes: a subscriber writes to the monitored signal WHILE a RunStop document is being
    dispatched (scenario key `doc_triggers`).  The run is over at that moment: no monitor event may follow."""
    from engine_common import M, number, seq

    out = []
    for i in range(n):
        key = rng.choice([None, "a"])
        body = [M("open_run", run=key), M("monitor", "s1", run=key, name="s1_monitor"), M("checkpoint")]
        body += [M("null")] * rng.randrange(0, 3)
        if rng.random() < 0.3:
            body += [M("unmonitor", "s1", run=key)]
        if rng.random() < 0.8:
            body += [M("close_run", run=key)]       # else: the engine's cleanup closes the run
        sc = {"record_interruptions": False, "devices": {"s1": {"kind": "sig"}}, "plan": seq(*body), "script": {}, "decisions": [],
              "max_arrivals": 100, "doc_triggers": {"stop": [{"a": "monitor", "sig": "s1", "v": 7000 + i}]}}
        out.append(number(sc))
    return out


PROBE_JUDGES = [FP.nothing_left_behind, FP.no_document_after_stop]


def run(ctx, model=True):
    res = E.run_property(ctx, "C41", oracle, gen=gen, quick=120, thorough=3000, model=model)
    for sc in stop_dispatch_probes(ctx.rng, ctx.budget(12, 150)):
        o = E.run_scenario(sc)
        res.seen(sc, True)
        res.count("impl-only-probe:update-while-RunStop-is-dispatched")
        stops = [i for i, d in enumerate(o["docs"]) if d["k"] == "stop"]
        late = [d for i, d in enumerate(o["docs"]) if d["k"] == "event" and stops and i > stops[0]]
        if late:
            res.violations.append(C.Violation("monitor-event-after-RunStop:update-during-stop-dispatch", f"implementation-only probe: a signal update fired while the RunStop was being dispatched produced {late[0]} after the RunStop", sc))
        if o["subs_left"].get("s1", 0) != 0:
            res.violations.append(C.Violation("subscription-left-on-device:after-stop-dispatch-probe", f"implementation-only probe: {o['subs_left']} engine subscription(s) left on s1", sc))
    FP.run_probes(ctx, res, PROBE_JUDGES, ["close"], 40, 800)
    res.rule += " | C41 generator: monitor / unmonitor of s1 placed anywhere in 1-2 (keyed) runs, run end with and without unmonitor, follow-up run, signal updates with unique values at 30-100% of all arrivals (and at the moment the state becomes 'paused', implementation only), 0-3 pause / suspend(+release) / abort / stop / halt requests; 30% of the scenarios contain suspension requests; 15% generic engine scenarios. Updates cannot land while paused through the shared script (arrivals only): those are delivered from the state hook"
    RP.add_to(res, ["monitor-options"])
    return res


def run_impl_only(ctx):
    return run(ctx, model=False)


def replay(ctx, data):
    r = RP.replay(data)
    if r is not None:
        return r
    if FP.is_probe(data):
        return FP.replay_probe(ctx, data, PROBE_JUDGES)
    sc = data.get("case") or {}
    if sc.get("doc_triggers"):
        res = C.Result()
        o = E.run_scenario(sc)
        stops = [i for i, d in enumerate(o["docs"]) if d["k"] == "stop"]
        late = [d for i, d in enumerate(o["docs"]) if d["k"] == "event" and stops and i > stops[0]]
        if late:
            res.violations.append(C.Violation("monitor-event-after-RunStop:update-during-stop-dispatch", f"{late[0]} after the RunStop", sc))
        return res
    return E.replay_property(ctx, data, oracle)
