"""C33 -- 0MQ publishing delivers documents intact and filters by prefix.

Tie: (T) from the current src/bluesky/callbacks/zmq.py the extractor regenerates
lean/BlueskyVerif/IO/ZmqGenerated.lean: separator bytes and part order of `Publisher.__call__`'s join,
separator / maxsplit / unpack targets of `_poll`'s split, both constructors' prefix guards, the prefix
filter expression, the failure table (stage x strict -> raise Bluesky0MQDecodeError | drop+continue |
propagate) read off the try/except ladder of `_poll`, and the DocumentNames members.  Theorems in
Props/C33.lean are about these.  (C) the hand-written `pySplit/pyJoin/validUtf8/pollStep/poll` run
against the REAL Publisher / RemoteDispatcher over an in-memory fake zmq (no sockets, no ports) on the
same send sequences; the property oracle is evaluated on what the real dispatcher delivered.
"""
from __future__ import annotations

import ast
import asyncio
import builtins
import contextlib
import copy
import io
import itertools
import json
import pickle
import sys

import common as C
import pyexpr as P

MANIFEST = {
    "text": "FULL. Theorems (Props/C33.lean) over definitions regenerated from zmq.py on every run, for ALL byte strings and "
    "ALL message sequences of any length: split(b' ',2)+unpack = cut at the first two 0x20 (C33_split_is_two_cuts); "
    "round trip for any space-free prefix/name and ANY payload bytes (C33_roundtrip); split fails iff < 2 spaces; unique "
    "decomposition; constructors reject exactly prefixes containing 0x20; filter = (no prefix or EQUAL prefix); non-strict "
    "dispatcher on any interleaving of published frames, foreign frames and garbage delivers exactly the carried documents "
    "in order and never stops (C33_nonstrict_stream, C33_order); malformed => dropped / Bluesky0MQDecodeError and nothing "
    "delivered (C33_malformed_dropped, C33_strict_stream); no other exception can leave _poll (C33_no_crash); everything "
    "delivered came from a well-formed frame with the dispatcher's prefix (C33_deliver_sound).",
    "note": "Trusted: Lean kernel; the extractor in harness/props/C33.py; the serializer pair is a parameter with the law "
    "loads(dumps d)=d (checked for pickle, cloudpickle, json, msgpack on every generated document); zmq PUB/SUB transport "
    "itself (ordering, no loss) is replaced by an in-memory queue; asyncio call_soon FIFO order; hand-written pollStep is "
    "tied by the correspondence run.",
    "technique": "Lean 4 proof over source-extracted tables (translator) + correspondence run of the real Publisher/RemoteDispatcher over a fake in-memory zmq",
}
LEAN_MODULES = ["BlueskyVerif.Props.C33"]
DRIVER_MODULES = ["BlueskyVerif.IO.Zmq"]
DRIVER = "Drivers/C33.lean"
ASSUMPTIONS = [
    "serializer/deserializer are parameters with the law loads(dumps(d)) == d for the documents sent (checked in every run for "
    "pickle (default), cloudpickle, json and msgpack on every generated document); a failing deserializer is `loads = none`",
    "the transport (zmq PUB -> proxy -> SUB) delivers each sent message once, whole and in order; it is replaced by an in-memory queue",
    "asyncio runs `loop.call_soon(self.process, ...)` callbacks in FIFO order (the model appends to a list)",
    "UTF-8 decoding is injective on valid byte strings, so `DocumentNames[name.decode()]` is modelled as a lookup of the name BYTES "
    "in the table of utf-8 encoded member names; validity is the model's own `validUtf8` (compared with bytes.decode in every run)",
    "bytes are modelled as List Nat; prefixes given as `str` (rejected by isinstance) are outside the model",
]
TRUSTED = ["harness/props/C33.py extractor (AST shapes of Publisher.__call__, RemoteDispatcher.__init__/_poll)", "harness/fakes_C33.py in-memory zmq"]

STAGES = ["split", "decode", "lookup", "deser"]
STAGE_EXC = {"split": ValueError, "decode": UnicodeDecodeError, "lookup": KeyError, "deser": None}  # None = any Exception


# ----------------------------------------------------------------------------- extractor
class U(P.Untranslatable):
    pass


def _method(tree, cls, name):
    cd = P.find_class(tree, cls)
    for n in cd.body:
        if isinstance(n, (ast.FunctionDef, ast.AsyncFunctionDef)) and n.name == name:
            return n
    raise U(f"{cls}.{name} not found")


def _one_byte(node, what):
    if isinstance(node, ast.Constant) and isinstance(node.value, bytes) and len(node.value) == 1:
        return node.value[0]
    raise U(f"{what}: expected a one-byte bytes literal, got {ast.dump(node)[:80]}")


def _ctor_guard(fn, cls):
    """-> list of forbidden bytes from `if b"x" in prefix: raise ValueError(...)`; checks prefix is stored unchanged."""
    forb = []
    stored = False
    for st in fn.body:
        if isinstance(st, ast.If) and isinstance(st.test, ast.Compare) and len(st.test.ops) == 1 and isinstance(st.test.ops[0], ast.In) and P.dotted(st.test.comparators[0]) == "prefix":
            if not (st.body and isinstance(st.body[0], ast.Raise) and not st.orelse):
                raise U(f"{cls}.__init__: prefix guard does not raise")
            forb.append(_one_byte(st.test.left, f"{cls}.__init__ prefix guard"))
        elif isinstance(st, ast.If) and "prefix" in ast.dump(st.test) and not (isinstance(st.test, ast.Call) and P.dotted(st.test.func) == "isinstance"):
            raise U(f"{cls}.__init__: unrecognised condition on prefix: {ast.unparse(st.test)}")
        if isinstance(st, ast.Assign) and P.dotted(st.targets[0]) == "self._prefix":
            v = st.value
            if P.dotted(v) == "prefix" or (isinstance(v, ast.Call) and P.dotted(v.func) == "bytes" and len(v.args) == 1 and P.dotted(v.args[0]) == "prefix"):
                stored = True
            else:
                raise U(f"{cls}.__init__: self._prefix = {ast.unparse(v)}")
    if not stored:
        raise U(f"{cls}.__init__: prefix is not stored in self._prefix")
    return forb


def _filter_expr(n) -> str:
    """The prefix filter as a Lean Bool term over `ourPrefix pfx : Bytes`."""
    names = {"our_prefix": "ourPrefix", "prefix": "pfx", "self._prefix": "ourPrefix"}

    def val(x):
        d = P.dotted(x)
        if d in names:
            return names[d]
        if isinstance(x, ast.Constant) and isinstance(x.value, bytes):
            return "[" + ", ".join(str(b) for b in x.value) + "]"
        raise U(f"prefix filter: unknown operand {ast.unparse(x)}")

    def b(x):
        if isinstance(x, ast.BoolOp):
            op = " || " if isinstance(x.op, ast.Or) else " && "
            return "(" + op.join(b(v) for v in x.values) + ")"
        if isinstance(x, ast.UnaryOp) and isinstance(x.op, ast.Not):
            if P.dotted(x.operand) in names:  # `not some_bytes`
                return f"{names[P.dotted(x.operand)]}.isEmpty"
            return f"(!{b(x.operand)})"
        if isinstance(x, ast.Compare) and len(x.ops) == 1 and isinstance(x.ops[0], (ast.Eq, ast.NotEq)):
            return f"({val(x.left)} {'==' if isinstance(x.ops[0], ast.Eq) else '!='} {val(x.comparators[0])})"
        if isinstance(x, ast.Call) and isinstance(x.func, ast.Attribute) and x.func.attr in ("startswith", "endswith") and len(x.args) == 1:
            f = "isPrefixOf" if x.func.attr == "startswith" else "isSuffixOf"
            return f"({val(x.args[0])}.{f} {val(x.func.value)})"
        if P.dotted(x) in names:  # truthiness of a bytes object
            return f"(!{names[P.dotted(x)]}.isEmpty)"
        raise U(f"prefix filter: cannot translate {ast.unparse(x)}")

    return b(n)


def _classify_block(stmts, where):
    """What a handler branch does: 'raiseDecodeError' | 'dropContinue' | 'propagate'."""
    if not stmts:
        raise U(f"{where}: empty branch")
    for st in stmts[:-1]:
        for sub in ast.walk(st):
            if isinstance(sub, (ast.Raise, ast.Continue, ast.Break, ast.Return, ast.Await, ast.Yield)):
                raise U(f"{where}: control flow before the end of the branch")
    last = stmts[-1]
    if isinstance(last, ast.Continue):
        return "dropContinue"
    if isinstance(last, ast.Raise):
        if last.exc is None:
            return "propagate"
        e = last.exc.func if isinstance(last.exc, ast.Call) else last.exc
        if P.dotted(e) == "Bluesky0MQDecodeError":
            return "raiseDecodeError"
        raise U(f"{where}: raises {ast.unparse(last.exc)}")
    raise U(f"{where}: branch neither raises nor continues (falls through with stale variables): {ast.unparse(last)[:60]}")


def _handler_actions(h: ast.ExceptHandler, where):
    """-> (strict_action, nonstrict_action)"""
    body = h.body
    if len(body) == 1 and isinstance(body[0], ast.If) and P.dotted(body[0].test) == "self._strict":
        if not body[0].orelse:
            raise U(f"{where}: `if self._strict` without else")
        return _classify_block(body[0].body, where + " strict"), _classify_block(body[0].orelse, where + " non-strict")
    a = _classify_block(body, where)
    return a, a


def _catches(h: ast.ExceptHandler, stage):
    """Does this handler catch every failure of the stage?"""
    if h.type is None:
        return True
    types = h.type.elts if isinstance(h.type, ast.Tuple) else [h.type]
    for t in types:
        cls = getattr(builtins, P.dotted(t) or "", None)
        if not (isinstance(cls, type) and issubclass(cls, BaseException)):
            continue
        exc = STAGE_EXC[stage]
        if exc is None:
            if cls in (Exception, BaseException):
                return True
        elif issubclass(exc, cls):
            return True
    return False


def _core_stage(st):
    """Recognise the statement that performs a stage. -> (stage, info) or None"""
    if not isinstance(st, ast.Assign) or len(st.targets) != 1:
        return None
    t, v = st.targets[0], st.value
    if isinstance(v, ast.Call) and isinstance(v.func, ast.Attribute) and v.func.attr == "split" and P.dotted(v.func.value) == "message":
        if v.keywords and not (len(v.keywords) == 1 and v.keywords[0].arg == "maxsplit"):
            raise U("split: unexpected keywords")
        if not v.args:
            raise U("split(): whitespace splitting is not modelled")
        sep = _one_byte(v.args[0], "split separator")
        mx = None
        mnode = v.args[1] if len(v.args) > 1 else (v.keywords[0].value if v.keywords else None)
        if mnode is not None:
            if isinstance(mnode, ast.UnaryOp) and isinstance(mnode.op, ast.USub) and isinstance(mnode.operand, ast.Constant):
                mx = None
            elif isinstance(mnode, ast.Constant) and isinstance(mnode.value, int) and mnode.value >= 0:
                mx = mnode.value
            else:
                raise U(f"split maxsplit {ast.unparse(mnode)}")
        if not isinstance(t, ast.Tuple) or not all(isinstance(e, ast.Name) for e in t.elts):
            raise U(f"split result is not unpacked into names: {ast.unparse(t)}")
        return "split", {"sep": sep, "max": mx, "targets": [e.id for e in t.elts], "line": st.lineno}
    if P.dotted(t) == "name" and isinstance(v, ast.Call) and isinstance(v.func, ast.Attribute) and v.func.attr == "decode" and P.dotted(v.func.value) == "name":
        if v.args or v.keywords:
            a = v.args[0] if v.args else None
            if not (a is not None and isinstance(a, ast.Constant) and str(a.value).lower().replace("-", "") == "utf8" and len(v.args) == 1 and not v.keywords):
                raise U(f"decode with arguments: {ast.unparse(v)}")
        return "decode", {"line": st.lineno}
    if P.dotted(t) == "document_name" and isinstance(v, ast.Subscript) and P.dotted(v.value) == "DocumentNames" and P.dotted(v.slice) == "name":
        return "lookup", {"line": st.lineno}
    if P.dotted(t) == "doc" and isinstance(v, ast.Call) and P.dotted(v.func) == "self._deserializer" and len(v.args) == 1 and P.dotted(v.args[0]) == "doc" and not v.keywords:
        return "deser", {"line": st.lineno}
    return None


def _stage_of(st):
    """A stage statement, bare or wrapped in try/except. -> (stage, info, (strict_action, nonstrict_action))"""
    if isinstance(st, ast.Try):
        if len(st.body) != 1 or st.orelse or st.finalbody:
            raise U(f"_poll line {st.lineno}: try block with more than the stage statement / else / finally")
        core = _core_stage(st.body[0])
        if core is None:
            raise U(f"_poll line {st.lineno}: unrecognised statement in try: {ast.unparse(st.body[0])[:80]}")
        stage, info = core
        acts = ("propagate", "propagate")
        for h in st.handlers:
            if _catches(h, stage):
                acts = _handler_actions(h, f"_poll {stage} handler line {h.lineno}")
                info["handler"] = f"except {ast.unparse(h.type) if h.type else ''} (line {h.lineno})"
                break
        return stage, info, acts
    core = _core_stage(st)
    if core is None:
        return None
    return core[0], core[1], ("propagate", "propagate")


def extract(ctx):
    src_path = C.SRC / "callbacks" / "zmq.py"
    tree = ast.parse(src_path.read_text())
    facts = {}
    # --- Publisher.__call__
    call = _method(tree, "Publisher", "__call__")
    join = None
    sent = False
    for st in ast.walk(call):
        if isinstance(st, ast.Assign) and isinstance(st.value, ast.Call) and isinstance(st.value.func, ast.Attribute) and st.value.func.attr == "join":
            join = st
        if isinstance(st, ast.Call) and P.dotted(st.func) == "self._socket.send" and len(st.args) == 1 and P.dotted(st.args[0]) == "message":
            sent = True
    if join is None or P.dotted(join.targets[0]) != "message" or not sent:
        raise U("Publisher.__call__: `message = sep.join([...]); self._socket.send(message)` not found")
    jsep = _one_byte(join.value.func.value, "join separator")
    if len(join.value.args) != 1 or not isinstance(join.value.args[0], (ast.List, ast.Tuple)):
        raise U("Publisher.__call__: join argument is not a list literal")
    parts = []
    for e in join.value.args[0].elts:
        s = ast.unparse(e)
        if s == "self._prefix":
            parts.append("pfx")
        elif s == "name.encode()":
            parts.append("name")
        elif s == "self._serializer(doc)":
            parts.append("payload")
        else:
            raise U(f"Publisher.__call__: unknown joined part {s}")
    facts["join"] = {"sep": jsep, "parts": parts, "at": f"zmq.py:{join.lineno}"}
    # --- constructors
    pub_forb = _ctor_guard(_method(tree, "Publisher", "__init__"), "Publisher")
    dis_forb = _ctor_guard(_method(tree, "RemoteDispatcher", "__init__"), "RemoteDispatcher")
    facts["ctor_forbidden_bytes"] = {"Publisher": pub_forb, "RemoteDispatcher": dis_forb}
    # --- _poll
    poll = _method(tree, "RemoteDispatcher", "_poll")
    body = P.body_wo_doc(poll)
    if not (len(body) == 2 and isinstance(body[0], ast.Assign) and P.dotted(body[0].targets[0]) == "our_prefix" and P.dotted(body[0].value) == "self._prefix" and isinstance(body[1], ast.While)):
        raise U("_poll: expected `our_prefix = self._prefix; while True: ...`")
    loop = body[1]
    if not (isinstance(loop.test, ast.Constant) and loop.test.value is True and not loop.orelse):
        raise U("_poll: loop is not `while True`")
    lb = loop.body
    if not (isinstance(lb[0], ast.Assign) and P.dotted(lb[0].targets[0]) == "message" and isinstance(lb[0].value, ast.Await) and ast.unparse(lb[0].value.value) == "self._socket.recv()"):
        raise U("_poll: first loop statement is not `message = await self._socket.recv()`")
    rest = lb[1:]
    table = {}
    infos = {}
    order = []
    i = 0
    while i < len(rest) and not isinstance(rest[i], ast.If):
        r = _stage_of(rest[i])
        if r is None:
            raise U(f"_poll line {rest[i].lineno}: unrecognised statement {ast.unparse(rest[i])[:80]}")
        order.append(r[0])
        infos[r[0]], table[r[0]] = r[1], r[2]
        i += 1
    if order != ["split", "decode"]:
        raise U(f"_poll: stages before the prefix filter are {order}, expected split, decode")
    if i != len(rest) - 1:
        raise U("_poll: expected the prefix-filter `if` as the last loop statement")
    flt = rest[i]
    if flt.orelse:
        raise U("_poll: prefix filter has an else branch")
    filt = _filter_expr(flt.test)
    inner = []
    for st in flt.body[:-1]:
        r = _stage_of(st)
        if r is None:
            raise U(f"_poll line {st.lineno}: unrecognised statement {ast.unparse(st)[:80]}")
        inner.append(r[0])
        infos[r[0]], table[r[0]] = r[1], r[2]
    if inner != ["lookup", "deser"]:
        raise U(f"_poll: stages under the prefix filter are {inner}, expected lookup, deser")
    deliver = flt.body[-1]
    if not (isinstance(deliver, ast.Expr) and ast.unparse(deliver.value) == "self.loop.call_soon(self.process, document_name, doc)"):
        raise U(f"_poll: delivery statement is {ast.unparse(deliver)[:90]}")
    sp = infos["split"]
    tmap = {"prefix": "pfx", "name": "name", "doc": "payload"}
    if sorted(sp["targets"]) != sorted(tmap) and len(sp["targets"]) == 3:
        raise U(f"_poll: split targets {sp['targets']}")
    targets = [tmap.get(t, None) for t in sp["targets"]]
    if None in targets:
        raise U(f"_poll: split targets {sp['targets']}")
    facts["split"] = {"sep": sp["sep"], "maxsplit": sp["max"], "targets": sp["targets"], "at": f"zmq.py:{sp['line']}"}
    facts["filter"] = {"python": ast.unparse(flt.test), "lean": filt, "at": f"zmq.py:{flt.lineno}"}
    facts["failure_table"] = {s: {"strict": table[s][0], "nonstrict": table[s][1], "handler": infos[s].get("handler", "none"), "at": f"zmq.py:{infos[s]['line']}"} for s in STAGES}
    # --- DocumentNames (the enum zmq.py imports)
    import bluesky.callbacks.zmq as Z

    names = [m.name for m in Z.DocumentNames]
    facts["document_names"] = names

    def blist(bs):
        return "[" + ", ".join(str(b) for b in bs) + "]"

    def contains(forb):
        return "(" + " || ".join(f"pfx.contains {b}" for b in forb) + ")" if forb else "false"

    out = [
        "-- GENERATED by harness/props/C33.py from src/bluesky/callbacks/zmq.py -- do not edit.",
        "namespace BlueskyVerif.Zmq",
        "",
        "abbrev Bytes := List Nat",
        "",
        "inductive Part where",
        "  | pfx | name | payload",
        "deriving Repr, DecidableEq",
        "",
        "inductive Stage where",
        "  | split | decode | lookup | deser",
        "deriving Repr, DecidableEq",
        "",
        "/-- what the except ladder of `_poll` does with a failing stage -/",
        "inductive Action where",
        "  | raiseDecodeError | dropContinue | propagate",
        "deriving Repr, DecidableEq",
        "",
        f"/-- Publisher.__call__ ({facts['join']['at']}): `{ast.unparse(join.value)}` -/",
        f"def joinSep : Nat := {jsep}",
        "def joinParts : List Part := [" + ", ".join("." + p for p in parts) + "]",
        "",
        f"/-- RemoteDispatcher._poll ({facts['split']['at']}): `{ast.unparse(rest[0].body[0] if isinstance(rest[0], ast.Try) else rest[0])}` -/",
        f"def splitSep : Nat := {sp['sep']}",
        f"def splitMax : Option Nat := {'none' if sp['max'] is None else 'some ' + str(sp['max'])}",
        "def splitTargets : List Part := [" + ", ".join("." + t for t in targets) + "]",
        "",
        "/-- constructor guards `if b\"..\" in prefix: raise ValueError` -/",
        f"def publisherRejects (pfx : Bytes) : Bool := {contains(pub_forb)}",
        f"def dispatcherRejects (pfx : Bytes) : Bool := {contains(dis_forb)}",
        "",
        f"/-- prefix filter ({facts['filter']['at']}): `{facts['filter']['python']}` -/",
        f"def prefixAccepts (ourPrefix pfx : Bytes) : Bool := {filt}",
        "",
        "/-- failing stage -> strict? -> what the handler does (propagate = no handler catches it) -/",
        "def onFailure : Stage → Bool → Action",
    ]
    for s in STAGES:
        out.append(f"  | .{s}, true => .{table[s][0]}")
        out.append(f"  | .{s}, false => .{table[s][1]}")
    out += ["", "/-- DocumentNames members, utf-8 encoded: " + ", ".join(names) + " -/", "def documentNames : List Bytes := ["]
    out += ["  " + blist(n.encode()) + ("," if k < len(names) - 1 else "") for k, n in enumerate(names)]
    out += ["]", "", "end BlueskyVerif.Zmq", ""]
    C.write_if_changed(C.LEAN / "BlueskyVerif" / "IO" / "ZmqGenerated.lean", "\n".join(out))
    return facts


# ----------------------------------------------------------------------------- documents <-> JSON-able case encoding
def dec_doc(x):
    """case encoding -> Python object ({"__b": hex} bytes, {"__t": [...]} tuple)"""
    if isinstance(x, dict):
        if set(x) == {"__b"}:
            return bytes.fromhex(x["__b"])
        if set(x) == {"__t"}:
            return tuple(dec_doc(v) for v in x["__t"])
        if set(x) == {"__f"}:
            return float(x["__f"])
        return {k: dec_doc(v) for k, v in x.items()}
    if isinstance(x, list):
        return [dec_doc(v) for v in x]
    return x


def key_of(doc) -> str:
    """canonical text of a delivered document (dict order ignored, types kept)"""

    def c(x):
        if isinstance(x, dict):
            return "{" + ",".join(f"{k!r}:{c(v)}" for k, v in sorted(x.items(), key=lambda kv: repr(kv[0]))) + "}"
        if isinstance(x, list):
            return "[" + ",".join(c(v) for v in x) + "]"
        if isinstance(x, tuple):
            return "(" + ",".join(c(v) for v in x) + ")"
        return type(x).__name__ + ":" + repr(x)

    return c(doc)


def serializers(kind):
    if kind == "pickle":
        return None, None, pickle.dumps, pickle.loads  # ctor args None = use the defaults of the classes
    if kind == "cloudpickle":
        import cloudpickle

        return cloudpickle.dumps, cloudpickle.loads, cloudpickle.dumps, cloudpickle.loads
    if kind == "json":
        d = lambda doc: json.dumps(doc).encode()  # noqa: E731
        return d, json.loads, d, json.loads
    if kind == "msgpack":
        import msgpack

        d = lambda doc: msgpack.packb(doc, use_bin_type=True)  # noqa: E731
        l = lambda b: msgpack.unpackb(b, raw=False)  # noqa: E731
        return d, l, d, l
    raise ValueError(kind)


def doc_names():
    import bluesky.callbacks.zmq as Z

    return [m.name for m in Z.DocumentNames]


# ----------------------------------------------------------------------------- running the real code
def run_impl(case):
    """-> observation {pubs:[ok|ValueError], frames:[hex], disp, delivered:[[namehex,key]], ending, consumed}
    plus private fields (prefixed _) used by the oracle only."""
    import fakes_C33 as F
    from bluesky.callbacks.zmq import Bluesky0MQDecodeError, Publisher, RemoteDispatcher

    ser_arg, deser_arg, dumps, loads = serializers(case["serializer"])
    bus = F.Bus()
    fz = F.FakeZmq(bus)
    pubs, pub_obs = [], []
    for ph in case["pubs"]:
        kw = {} if ser_arg is None else {"serializer": ser_arg}
        try:
            pubs.append(Publisher("127.0.0.1:5567", prefix=bytes.fromhex(ph), zmq=fz, **kw))
            pub_obs.append("ok")
        except ValueError:
            pubs.append(None)
            pub_obs.append("ValueError")
    raw_sock = fz.Context().socket(fz.PUB)
    sent_docs = []
    for s in case["sends"]:
        if s["k"] == "pub":
            doc = dec_doc(s["doc"])
            before = key_of(doc)
            pubs[s["p"]](s["name"], doc)
            sent_docs.append((doc, before))
        else:
            raw_sock.send(bytes.fromhex(s["hex"]))
            sent_docs.append(None)
    frames = list(bus.frames)
    obs = {"pubs": pub_obs, "frames": [f.hex() for f in frames]}
    fza = F.FakeZmqAsyncio(frames)
    loop = asyncio.new_event_loop()
    kw = {} if deser_arg is None else {"deserializer": deser_arg}
    try:
        d = RemoteDispatcher(("127.0.0.1", 5568), prefix=bytes.fromhex(case["disp"]["prefix"]), loop=loop, zmq=fz, zmq_asyncio=fza, strict=case["disp"]["strict"], **kw)
    except ValueError:
        loop.close()
        obs["disp"] = "ValueError"
        obs["_sent"] = sent_docs
        return obs
    got = []
    d.subscribe(lambda name, doc: got.append((name, doc)))
    out = io.StringIO()
    exc = None
    with contextlib.redirect_stdout(out):
        try:
            d.start()
            ending = "returned"
        except F.Drained:
            ending = "waiting"
        except Bluesky0MQDecodeError:
            ending = "decodeError"
        except Exception as e:  # noqa: BLE001
            ending = "crashed"
            exc = type(e).__name__
        finally:
            asyncio.set_event_loop(None)
            if not loop.is_closed():
                loop.close()
    obs.update({"disp": "ok", "delivered": [[n.encode().hex(), key_of(doc)] for n, doc in got], "ending": ending, "consumed": fza.consumed})
    obs["_exc"] = exc
    obs["_sent"] = sent_docs
    obs["_got"] = got
    return obs


def public(obs):
    return {k: v for k, v in obs.items() if not k.startswith("_")}


# ----------------------------------------------------------------------------- property oracle (independent of the model)
def spec_parse(frame: bytes):
    i = frame.find(b" ")
    if i < 0:
        return None
    j = frame.find(b" ", i + 1)
    if j < 0:
        return None
    return frame[:i], frame[i + 1 : j], frame[j + 1 :]


def classify(frame: bytes, loads, names):
    """-> ('doc', prefix, name, key) | ('bad', kind, prefix_or_None)"""
    p = spec_parse(frame)
    if p is None:
        return ("bad", "fewer-than-2-spaces", None)
    pfx, nm, payload = p
    try:
        name = nm.decode()
    except UnicodeDecodeError:
        return ("bad", "undecodable-name", pfx)
    if name not in names:
        return ("bad", "unknown-name", pfx)
    try:
        doc = loads(payload)
    except Exception:  # noqa: BLE001
        return ("bad", "deserializer-fails", pfx)
    return ("doc", pfx, name, key_of(doc))


def oracle(case, obs):
    """-> list of (sig, what)"""
    bad = []
    _, _, dumps, loads = serializers(case["serializer"])
    names = set(doc_names())
    mode = "strict" if case["disp"]["strict"] else "nonstrict"
    for ph, o in zip(case["pubs"], obs["pubs"]):
        has_space = b" " in bytes.fromhex(ph)
        if (o == "ValueError") != has_space:
            bad.append((f"publisher-ctor:prefix-{'with' if has_space else 'without'}-space:{o}", f"Publisher(prefix={bytes.fromhex(ph)!r}) -> {o}"))
    our = bytes.fromhex(case["disp"]["prefix"])
    if (obs["disp"] == "ValueError") != (b" " in our):
        bad.append((f"dispatcher-ctor:prefix-{'with' if b' ' in our else 'without'}-space:{obs['disp']}", f"RemoteDispatcher(prefix={our!r}) -> {obs['disp']}"))
    if obs["disp"] != "ok":
        return bad
    frames = [bytes.fromhex(h) for h in obs["frames"]]
    if len(frames) != len(case["sends"]):
        bad.append(("publisher:number-of-messages", f"{len(case['sends'])} sends produced {len(frames)} wire messages"))
        return bad
    # what each send must contribute
    expect = []  # per send: ('deliver', namehex, key) | ('nothing', why, must_raise_in_strict)
    for s, fr, sd in zip(case["sends"], frames, obs["_sent"]):
        if s["k"] == "pub":
            pfx = bytes.fromhex(case["pubs"][s["p"]])
            if sd[1] != key_of(sd[0]):
                bad.append(("publisher:mutates-document", f"document changed by publishing: {sd[1]} -> {key_of(sd[0])}"))
            if s["name"] in names:
                passes = (not our) or pfx == our
                payload_has_space = b" " in dumps(copy.deepcopy(sd[0]))
                tag = f"published:{'payload-with-space' if payload_has_space else 'payload-without-space'}:{'prefix-empty' if not pfx else 'prefix-set'}"
                expect.append(("deliver", s["name"].encode().hex(), sd[1], tag) if passes else ("skip", "other-prefix:" + ("extends-ours" if pfx.startswith(our) else "ends-with-ours" if pfx.endswith(our) else "unrelated"), False, s["name"].encode().hex(), sd[1]))
                continue
        cl = classify(fr, loads, names)
        if cl[0] == "doc":
            passes = (not our) or cl[1] == our
            expect.append(("deliver", cl[2].encode().hex(), cl[3], "raw-wellformed") if passes else ("skip", "other-prefix:raw", False, cl[2].encode().hex(), cl[3]))
        else:
            kind, pfx = cl[1], cl[2]
            # malformed: in strict mode it must raise unless it is visibly addressed to somebody else
            foreign = pfx is not None and bool(our) and pfx != our
            expect.append(("nothing", kind, not foreign))
    delivered = [tuple(x) for x in obs["delivered"]]
    n = obs["consumed"]
    ending = obs["ending"]
    if ending == "crashed" or ending == "returned":
        k = min(n, len(expect)) - 1
        why = expect[k][1] if 0 <= k < len(expect) and expect[k][0] != "deliver" else "wellformed-frame"
        at = frames[k][:60] if frames and 0 <= k < len(frames) else b"<before the first message>"
        bad.append((f"{mode}:poll-loop-ended-by-{obs.get('_exc') or ending}:{why}", f"_poll ended with {obs.get('_exc') or ending} at message {n} ({at!r}); the loop must continue or raise Bluesky0MQDecodeError"))
        return bad
    if ending == "decodeError":
        k = n - 1
        if mode == "nonstrict":
            bad.append((f"nonstrict:raises-decode-error:{expect[k][1] if expect[k][0] != 'deliver' else 'wellformed-frame'}", f"non-strict dispatcher raised Bluesky0MQDecodeError at message {n} ({frames[k][:60]!r})"))
            return bad
        if expect[k][0] != "nothing":
            bad.append((f"strict:raises-on-{'wellformed-frame' if expect[k][0] == 'deliver' else expect[k][1]}:{expect[k][3] if expect[k][0] == 'deliver' else ''}", f"strict dispatcher raised Bluesky0MQDecodeError at a well-formed message {n} ({frames[k][:60]!r})"))
            return bad
        considered = expect[:k]
    else:  # waiting: everything consumed
        if n != len(frames):
            bad.append((f"{mode}:messages-not-consumed", f"{n} of {len(frames)} messages consumed"))
        considered = expect
        if mode == "strict":
            for i, e in enumerate(expect):
                if e[0] == "nothing" and e[2]:
                    bad.append((f"strict:malformed-not-raised:{e[1]}", f"strict dispatcher did not raise on malformed message {i + 1} ({frames[i][:60]!r}: {e[1]})"))
                    break
    want = [(e[1], e[2]) for e in considered if e[0] == "deliver"]
    if delivered != want:
        # name the first difference
        i = 0
        while i < len(delivered) and i < len(want) and delivered[i] == want[i]:
            i += 1
        # which send is responsible?
        idx = [j for j, e in enumerate(considered) if e[0] == "deliver"]
        if i < len(want) and (i >= len(delivered) or delivered[i] not in want[i:]):
            if i < len(delivered) and delivered[i][0] == want[i][0] and set(delivered) <= set(want) | {delivered[i]} and delivered[i] not in want:
                kind = "content-differs:" + considered[idx[i]][3]
            elif i < len(delivered) and delivered[i] not in want:
                kind = "spurious-delivery:" + _blame(delivered[i], considered, frames)
            else:
                kind = "lost:" + considered[idx[i]][3]
            what = f"document {i + 1} expected {want[i][1][:80]} ({bytes.fromhex(want[i][0])!r}) from message {frames[idx[i]][:60]!r}; delivered {delivered[i][1][:80] if i < len(delivered) else 'nothing'}"
        elif i < len(delivered) and delivered[i] not in want:
            kind = "spurious-delivery:" + _blame(delivered[i], considered, frames)
            what = f"delivered {delivered[i][1][:80]} ({bytes.fromhex(delivered[i][0])!r}) which no well-formed frame for prefix {our!r} carries"
        elif sorted(delivered) == sorted(want):
            kind = "order"
            what = f"same documents, different order at position {i + 1}"
        else:
            kind = "lost-or-duplicated"
            what = f"expected {len(want)} documents, delivered {len(delivered)}; first difference at {i + 1}"
        bad.append((f"{mode}:{kind}", what))
    return bad


def _blame(item, considered, frames):
    """A delivered document nobody should have got: which kind of send has that name/content?"""
    for e in considered:
        if e[0] == "skip" and (e[3], e[4]) == tuple(item):
            return e[1]
    for e in considered:
        if e[0] == "nothing":
            return "from-malformed:" + e[1]
    return "unknown-origin"


# ----------------------------------------------------------------------------- generators
def enc_bytes(b: bytes):
    return {"__b": b.hex()}


def gen_value(rng, depth, rich):
    r = rng.random()
    if depth <= 0 or r < 0.55:
        k = rng.randrange(9 if rich else 7)  # rich: True = bytes/tuples too, False = JSON values, None = JSON values with 64-bit ints
        if k == 0:
            return None
        if k == 1:
            return rng.random() < 0.5
        if k == 2:
            return rng.choice([0, 1, 32, -32, 8224, 0x20202020, 2**70 + 32 if rich is not None else 2**62, -(2**40), rng.randrange(-1000, 1000)])
        if k == 3:
            return rng.choice([0.5, -2.25, 1e300, 32.0, rng.random()])
        if k in (4, 5, 6):
            return gen_str(rng)
        if k == 7:
            return enc_bytes(bytes(rng.choice([32, 32, 0, 255, 10, rng.randrange(256)]) for _ in range(rng.randrange(6))))
        return {"__t": [gen_value(rng, depth - 1, rich) for _ in range(rng.randrange(3))]}
    if r < 0.78:
        return [gen_value(rng, depth - 1, rich) for _ in range(rng.randrange(4))]
    return {gen_str(rng) or "k": gen_value(rng, depth - 1, rich) for _ in range(rng.randrange(4))}


def gen_str(rng):
    return rng.choice(["", " ", "  ", "a b", "x", "start", "stop event", "é ü", "日本 語", "\n", "tab\t sp", "q\"uote", "uid-%d" % rng.randrange(99), " lead", "trail "])


def gen_doc(rng, rich):
    d = {"uid": "%08x-%04x" % (rng.getrandbits(32), rng.getrandbits(16)), "time": rng.randrange(10**9) / 8}
    for _ in range(rng.randrange(4)):
        d[gen_str(rng) or "k"] = gen_value(rng, 2, rich)
    return d


PREFIXES = [b"", b"sb", b"not_sb", b"sbx", b"xsb", b"s", b"\x00", b"\xff\xfe", b"SB", b"sb\n", b"a-b_c"]
SPACEY = [b" ", b"s b", b"sb ", b" sb"]
BAD_NAMES = ["foo", "Start", "START", "start ", " start", "st art", "", "événement", "start\n", "events", "name", "process", "__members__", "_member_map_", "start\x00"]


def garbage_payloads(rng, dumps):
    good = dumps({"a": 1, "s": "x y"})
    return [b"", b"garbage", b"gar bage with spaces ", b"\x80", b"\x80\x04", good[:-1], good[: len(good) // 2], b"\xff" + good, b"{", b"[1,", b"\xc1"]


def gen_raw(rng, case, dumps, names):
    """one raw frame: mostly a near-miss of a valid frame"""
    pfxs = [bytes.fromhex(p) for p in case["pubs"] if b" " not in bytes.fromhex(p)] + [bytes.fromhex(case["disp"]["prefix"]), b"", b"zz"]
    pfx = rng.choice(pfxs)
    name = rng.choice(names).encode()
    good = dumps({"n": rng.randrange(100), "s": rng.choice(["", "a b", " "])})
    k = rng.randrange(13)
    if k == 0:
        return rng.choice([b"", b" ", b"nospace", b"one space", pfx + name + good, pfx + b" " + name])
    if k == 1:
        return pfx + b" " + rng.choice([b"\xff", b"\xc3", b"\xed\xa0\x80", b"\xc0\xaf", b"\xf4\x90\x80\x80", b"st\xe9rt", b"\xe2\x82", b"\xf0\x9f\x98"]) + b" " + good
    if k == 2:
        return pfx + b" " + rng.choice(BAD_NAMES).encode() + b" " + good
    if k == 3:
        return pfx + b" " + name + b" " + rng.choice(garbage_payloads(rng, dumps))
    if k == 4:
        return pfx + b" " + name + b" " + good  # a well-formed frame sent by somebody else
    if k == 5:
        return pfx + b"  " + name + b" " + good  # double space: empty name
    if k == 6:
        return b" " + pfx + b" " + name + b" " + good  # leading space: empty prefix, prefix as name
    if k == 7:
        return pfx + b"\t" + name + b" " + good
    if k == 8:
        return pfx + b" " + name + b"\n" + good
    if k == 9:
        return pfx + b" " + name  # one space only
    if k == 10:
        return bytes(rng.choice([32, 32, 115, 98, 255, 0, rng.randrange(256)]) for _ in range(rng.randrange(12)))
    if k == 11:
        return pfx + b" " + rng.choice([b"\xc3\xa9v", "événement".encode(), "日本".encode()]) + b" " + good  # valid utf-8, unknown name
    return pfx + b" " + name + b" " + good + b" trailing"


def gen_case(rng, malformed_rate=None):
    ser = rng.choice(["pickle", "pickle", "cloudpickle", "json", "msgpack"])
    rich = True if ser in ("pickle", "cloudpickle") else (None if ser == "msgpack" else False)
    _, _, dumps, _ = serializers(ser)
    names = doc_names()
    npub = rng.choice([1, 1, 2, 2, 3])
    pubs = []
    for _ in range(npub):
        pubs.append(rng.choice(SPACEY if rng.random() < 0.06 else PREFIXES))
    our = rng.choice([b"", pubs[0], pubs[0], rng.choice(PREFIXES)]) if rng.random() > 0.04 else rng.choice(SPACEY)
    case = {"serializer": ser, "pubs": [p.hex() for p in pubs], "disp": {"prefix": our.hex(), "strict": rng.random() < 0.3}, "sends": []}
    ok_pubs = [i for i, p in enumerate(pubs) if b" " not in p]
    mr = rng.choice([0.0, 0.0, 0.15, 0.4]) if malformed_rate is None else malformed_rate
    for _ in range(rng.choice([0, 1, 2, 3, 5, 8, 13])):
        if rng.random() < mr or not ok_pubs:
            case["sends"].append({"k": "raw", "hex": gen_raw(rng, case, dumps, names).hex()})
        else:
            name = rng.choice(names) if rng.random() > 0.05 else rng.choice(BAD_NAMES)
            case["sends"].append({"k": "pub", "p": rng.choice(ok_pubs), "name": name, "doc": gen_doc(rng, rich)})
    return case


def exhaustive_cases(maxlen):
    """Raw frames = every concatenation of <= maxlen tokens; each frame alone (then a valid frame after it, to see
    whether the loop goes on) for dispatcher prefix b''/b'sb' x strict/non-strict."""
    good = pickle.dumps({"a": "x y"})
    toks = [b" ", b"sb", b"start", b"stop", b"\xff", good, b"G"]
    follow = (b"sb start " + good).hex()
    frames = []
    for n in range(0, maxlen + 1):
        for t in itertools.product(toks, repeat=n):
            frames.append(b"".join(t))
    frames = sorted(set(frames))
    for our in (b"", b"sb"):
        # non-strict: many frames per case
        for i in range(0, len(frames), 40):
            yield {"serializer": "pickle", "pubs": [], "disp": {"prefix": our.hex(), "strict": False}, "sends": [{"k": "raw", "hex": f.hex()} for f in frames[i : i + 40]] + [{"k": "raw", "hex": follow}]}
        for f in frames:
            yield {"serializer": "pickle", "pubs": [], "disp": {"prefix": our.hex(), "strict": True}, "sends": [{"k": "raw", "hex": f.hex()}, {"k": "raw", "hex": follow}]}


def _cases(ctx):
    corpus = C.VERIF / "corpus" / "C33"
    if corpus.exists():
        for f in sorted(corpus.glob("*.json")):
            yield json.loads(f.read_text())["case"]
    thorough = ctx.tier == "thorough" or ctx.deep
    yield from exhaustive_cases(4 if thorough else 3)
    for _ in range(ctx.budget(1500, 20000)):
        yield gen_case(ctx.rng)


# ----------------------------------------------------------------------------- model request
def model_request(case, obs):
    """Same sends for the Lean model; the serializer pair enters as data: payload bytes produced by the real
    serializer and a table of the real deserializer on the candidate payloads of the wire frames."""
    _, _, dumps, loads = serializers(case["serializer"])
    sends = []
    for s in case["sends"]:
        if s["k"] == "pub":
            sends.append({"k": "pub", "p": s["p"], "name": s["name"].encode().hex(), "payload": dumps(copy.deepcopy(dec_doc(s["doc"]))).hex()})
        else:
            sends.append(s)
    tbl = {}
    for h in obs["frames"]:
        fr = bytes.fromhex(h)
        pos = [i for i, b in enumerate(fr) if b == 32][:3]
        for p in pos:
            suf = fr[p + 1 :]
            if suf.hex() in tbl:
                continue
            try:
                tbl[suf.hex()] = key_of(loads(suf))
            except Exception:  # noqa: BLE001
                tbl[suf.hex()] = None
    return {"op": "run", "pubs": case["pubs"], "sends": sends, "disp": case["disp"], "loads": [[k, v] for k, v in tbl.items()]}


def check_laws(case, res):
    """assumed law loads(dumps d) == d on every generated document of the case"""
    _, _, dumps, loads = serializers(case["serializer"])
    for s in case["sends"]:
        if s["k"] == "pub":
            d = dec_doc(s["doc"])
            res.count("law-checked:" + case["serializer"])
            if key_of(loads(dumps(copy.deepcopy(d)))) != key_of(d):
                res.disagreements.append({"assumption": "loads(dumps d) == d", "serializer": case["serializer"], "doc": s["doc"]})


def utf8_cases(rng, n):
    fixed = [b"", b"start", b"\xc3\xa9", b"\xc3", b"\xc0\xaf", b"\xc1\xbf", b"\xe0\x80\x80", b"\xe0\xa0\x80", b"\xed\x9f\xbf", b"\xed\xa0\x80", b"\xee\x80\x80", b"\xef\xbf\xbf", b"\xf0\x8f\xbf\xbf", b"\xf0\x90\x80\x80", b"\xf4\x8f\xbf\xbf", b"\xf4\x90\x80\x80", b"\xf5\x80\x80\x80", b"\x80", b"\xbf", b"a\xffb", b"\xe2\x82\xac", b"\xe2\x82", b"\xf0\x9f\x98\x80", b"\xf0\x9f\x98"]
    lead = [0x00, 0x7F, 0x80, 0xBF, 0xC0, 0xC1, 0xC2, 0xDF, 0xE0, 0xE1, 0xEC, 0xED, 0xEE, 0xEF, 0xF0, 0xF1, 0xF3, 0xF4, 0xF5, 0xFF, 0x41]
    cont = [0x7F, 0x80, 0x8F, 0x90, 0x9F, 0xA0, 0xBF, 0xC0, 0x41]
    out = list(fixed)
    for _ in range(n):
        out.append(bytes([rng.choice(lead)] + [rng.choice(cont) for _ in range(rng.randrange(4))] + ([rng.choice(lead)] if rng.random() < 0.3 else [])))
    return out


def _nontrivial(case, obs):
    if obs.get("disp") != "ok" or "ValueError" in obs["pubs"]:
        return True
    return obs["ending"] != "waiting" or len(obs["delivered"]) != len(case["sends"])


def _quiet_unraisable(unraisable):
    # pickle's C unpickler reports "deallocated bytearray object has exported buffers" through the unraisable
    # hook when it is fed a truncated/garbled stream; that is noise of the garbage payloads, not a result.
    if isinstance(unraisable.exc_value, SystemError) and "exported buffers" in str(unraisable.exc_value):
        return
    sys.__unraisablehook__(unraisable)


def run(ctx, model=True):
    C.assert_repo_import()
    sys.unraisablehook = _quiet_unraisable
    res = C.Result(
        rule="cases = corpus + every raw frame made of <=3 (thorough 4) tokens from {SP, sb, start, stop, 0xff, valid pickle, G} for dispatcher "
        "prefix b''/b'sb' strict/non-strict + random scenarios (1-3 publishers with prefixes incl. near-misses sb/sbx/xsb/not_sb, 0-13 sends, "
        "documents with spaces/unicode/bytes, 4 serializers, raw near-miss frames); non-trivial = a constructor rejected, the loop ended by an "
        "exception, or at least one message was not delivered (filtered or dropped)"
    )
    cases, obss = [], []
    for case in _cases(ctx):
        obs = run_impl(case)
        cases.append(case)
        obss.append(obs)
        res.seen(case, _nontrivial(case, obs))
        res.count("serializer:" + case["serializer"])
        res.count("mode:" + ("strict" if case["disp"]["strict"] else "nonstrict"))
        res.count("ending:" + obs.get("ending", "ctor-" + obs["disp"]))
        res.count("sends", len(case["sends"]))
        res.count("delivered", len(obs.get("delivered", [])))
        check_laws(case, res)
        for sig, what in oracle(case, obs):
            res.violations.append(C.Violation(sig, what, case))
    # utf-8 validity of the model against bytes.decode
    ucases = utf8_cases(ctx.rng, ctx.budget(300, 5000))
    if model:
        lines = [json.dumps(model_request(c, o)) for c, o in zip(cases, obss)] + [json.dumps({"op": "utf8", "name": u.hex()}) for u in ucases]
        replies = C.lean_batch(DRIVER, lines)
        for case, obs, rep in zip(cases, obss, replies):
            m = json.loads(rep)
            m.pop("stage", None)
            if m != public(obs):
                res.disagreements.append({"case": case, "model": m, "impl": public(obs)})
        for u, rep in zip(ucases, replies[len(cases) :]):
            try:
                u.decode()
                ok = True
            except UnicodeDecodeError:
                ok = False
            res.count("utf8-checked")
            if json.loads(rep)["valid"] != ok:
                res.disagreements.append({"case": {"utf8": u.hex()}, "model": json.loads(rep), "impl": {"valid": ok}})
        for i in (0, len(cases) // 2, len(cases) - 1):
            res.samples.append({"case": cases[i], "impl": public(obss[i]), "model": json.loads(replies[i])})
    else:
        res.samples.append({"case": cases[-1], "impl": public(obss[-1])})
    return res


def run_impl_only(ctx):
    return run(ctx, model=False)


def replay(ctx, data):
    res = C.Result()
    case = data.get("case")
    if not case or "sends" not in case:
        return res
    obs = run_impl(case)
    for sig, what in oracle(case, obs):
        res.violations.append(C.Violation(sig, what, case))
    return res
