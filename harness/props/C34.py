"""C34 -- JSON writers produce files that parse back to the documents.

Tie: (T) from the current src/bluesky/callbacks/json_writer.py the extractor regenerates
lean/BlueskyVerif/IO/JsonWriterGenerated.lean: per branch of JSONWriter.__call__ (start / stop / other) and
for JSONLinesWriter.__call__ the open() mode and the sequence of `file.write(<literal>)` / `json.dump(record)`
statements, the document names tested, the pieces of the file name (uid separator, index, extension) and the
exists?-mode rule of the lines writer.  Theorems in Props/C34.lean are about these.  (C) the hand-written
`arrayCall/linesCall/openWrite` run against the REAL writers in a temp directory on the same operation
sequences, given the same per-document `json.dumps` texts; the oracle (`json.loads` of what the real writers
wrote) is evaluated on the real files.
"""
from __future__ import annotations

import ast
import json
import re
import os
import shutil
import tempfile
from datetime import datetime

import common as C
import pyexpr as P

MANIFEST = {
    "text": "FULL (JSON value grammar of one json.dumps text is a stated assumption). Theorems (Props/C34.lean) over strings/modes "
    "regenerated from json_writer.py on every run: for ANY prior directory content and ANY number of documents the JSONWriter "
    "file after start,d1..dn,stop is exactly '[\\n' + ',\\n'.join(dumps) + '\\n]' and no other file is touched "
    "(C34_array_text); that text parses (RFC 8259 array production, deterministic parser) as the array of exactly those values "
    "in order for ANY element texts that are one value each (C34_array_parses); JSONLinesWriter leaves previous content ++ "
    "(newline iff previous content non-empty and unterminated) ++ (dumps+'\\n' per call) for ANY previous content and ANY "
    "number of calls, other files untouched (C34_lines_append); the lines of that file are the old lines followed by exactly one "
    "line per document, for arbitrary previous content (C34_lines_full).",
    "note": "Trusted: Lean kernel; extractor in harness/props/C34.py; json.dumps output is one JSON value without raw newline "
    "(checked with json.loads on every generated record); POSIX open() 'w'/'a' semantics as modelled by openWrite; "
    "json.dump(file) writes the same text as json.dumps; last byte == 0x0A iff last character is a newline (UTF-8); "
    "hand-written arrayCall/linesCall tied by the correspondence run.",
    "technique": "Lean 4 proof over source-extracted write sequences (translator) + correspondence run of the real writers in a temp directory",
}
LEAN_MODULES = ["BlueskyVerif.Props.C34"]
DRIVER_MODULES = ["BlueskyVerif.IO.JsonWriter"]
DRIVER = "Drivers/C34.lean"
ASSUMPTIONS = [
    "json.dumps(record) (default arguments) is the text of exactly one JSON value (an object), contains no raw newline and "
    "json.loads gives the record back -- checked on every generated record in every run; documents are JSON-compatible "
    "(str keys, no NaN/Infinity, no tuples/bytes/numpy)",
    "json.dump(record, file) writes the same text as json.dumps(record) (compared byte for byte through the file contents)",
    "open(path,'w') creates or truncates, open(path,'a') creates or appends at the end; no concurrent writer; the directory exists",
    "file names: uid is a str; constructor filename is None or a plain file name (no path separators)",
    "a 'run' for JSONWriter is start, any documents not named start/stop, stop, through one writer instance "
    "(class docstring: 'documents of a single run'); reuse of an instance for a second run overwrites the first run's file",
]
TRUSTED = ["harness/props/C34.py extractor (AST shapes of JSONWriter.__call__/JSONLinesWriter.__call__)"]


# ----------------------------------------------------------------------------- extractor
class U(P.Untranslatable):
    pass


def lean_str(s: str) -> str:
    out = []
    for ch in s:
        if ch == "\n":
            out.append("\\n")
        elif ch == "\t":
            out.append("\\t")
        elif ch == "\r":
            out.append("\\r")
        elif ch == '"':
            out.append('\\"')
        elif ch == "\\":
            out.append("\\\\")
        elif 32 <= ord(ch) < 127:
            out.append(ch)
        else:
            out.append("\\u{%x}" % ord(ch))
    return '"' + "".join(out) + '"'


def _lean_char(c: str) -> str:
    return "'" + lean_str(c)[1:-1].replace("'", "\\'") + "'"


RECORD = "{'name': name, 'doc': doc}"


def _with_block(st, where, path_names=("self.dirname / self.filename",)):
    """`with open(self.dirname / self.filename, MODE) as file: <writes>` -> (mode, ops)"""
    if not (isinstance(st, ast.With) and len(st.items) == 1):
        raise U(f"{where}: expected a single `with open(...)`")
    it = st.items[0]
    c = it.context_expr
    if not (isinstance(c, ast.Call) and P.dotted(c.func) == "open" and len(c.args) == 2 and not c.keywords):
        raise U(f"{where}: context manager is {ast.unparse(c)}")
    if ast.unparse(c.args[0]) not in path_names:
        raise U(f"{where}: path is {ast.unparse(c.args[0])}")
    mode = _mode(c.args[1], where)
    if not (isinstance(it.optional_vars, ast.Name)):
        raise U(f"{where}: no `as file`")
    f = it.optional_vars.id
    ops = []
    for s in st.body:
        if not (isinstance(s, ast.Expr) and isinstance(s.value, ast.Call)):
            raise U(f"{where}: statement {ast.unparse(s)[:60]}")
        call = s.value
        if P.dotted(call.func) == f + ".write" and len(call.args) == 1 and isinstance(call.args[0], ast.Constant) and isinstance(call.args[0].value, str) and not call.keywords:
            ops.append(("lit", call.args[0].value))
        elif P.dotted(call.func) == "json.dump" and len(call.args) == 2 and not call.keywords and P.dotted(call.args[1]) == f and ast.unparse(call.args[0]) == RECORD:
            ops.append(("dump", None))
        else:
            raise U(f"{where}: statement {ast.unparse(s)[:80]}")
    return mode, ops


def _mode(node, where):
    if isinstance(node, ast.Constant) and node.value in ("w", "a"):
        return node.value
    if isinstance(node, ast.Name):
        return node  # resolved by the caller
    raise U(f"{where}: open mode {ast.unparse(node)}")


def _name_test(test, where):
    if isinstance(test, ast.Compare) and len(test.ops) == 1 and isinstance(test.ops[0], ast.Eq) and P.dotted(test.left) == "name" and isinstance(test.comparators[0], ast.Constant) and isinstance(test.comparators[0].value, str):
        return test.comparators[0].value
    raise U(f"{where}: condition {ast.unparse(test)}")


def _uid_fname(node, where):
    """f"{doc['uid'].split(SEP)[0]}EXT" -> (SEP, EXT)"""
    if not (isinstance(node, ast.JoinedStr) and len(node.values) == 2 and isinstance(node.values[0], ast.FormattedValue) and isinstance(node.values[1], ast.Constant)):
        raise U(f"{where}: file name expression {ast.unparse(node)}")
    fv = node.values[0]
    if fv.conversion != -1 or fv.format_spec is not None:
        raise U(f"{where}: formatted value with conversion/spec")
    v = fv.value
    if not (isinstance(v, ast.Subscript) and isinstance(v.slice, ast.Constant) and v.slice.value == 0 and isinstance(v.value, ast.Call) and isinstance(v.value.func, ast.Attribute) and v.value.func.attr == "split" and ast.unparse(v.value.func.value) == "doc['uid']" and len(v.value.args) == 1 and isinstance(v.value.args[0], ast.Constant) and isinstance(v.value.args[0].value, str) and v.value.args[0].value and not v.value.keywords):
        raise U(f"{where}: file name expression {ast.unparse(node)}")
    return v.value.args[0].value, node.values[1].value


def _ops_lean(ops):
    return "[" + ", ".join(".dump" if k == "dump" else f".lit {lean_str(v)}" for k, v in ops) + "]"


def extract(ctx):
    tree = ast.parse((C.SRC / "callbacks" / "json_writer.py").read_text())
    facts = {}
    # ---- JSONWriter.__call__
    fn, _ = P.find_method(tree, "JSONWriter", "__call__")
    body = P.body_wo_doc(fn)
    if not (len(body) == 1 and isinstance(body[0], ast.If)):
        raise U("JSONWriter.__call__: expected a single if/elif/else")
    top = body[0]
    start_name = _name_test(top.test, "JSONWriter start test")
    if len(top.body) != 2 or not isinstance(top.body[0], ast.Assign) or P.dotted(top.body[0].targets[0]) != "self.filename":
        raise U("JSONWriter start branch: expected `self.filename = ...; with open(...)`")
    v = top.body[0].value
    if not (isinstance(v, ast.BoolOp) and isinstance(v.op, ast.Or) and len(v.values) == 2 and P.dotted(v.values[0]) == "self.filename"):
        raise U(f"JSONWriter start branch: filename rule {ast.unparse(v)}")
    a_sep, a_ext = _uid_fname(v.values[1], "JSONWriter")
    start_mode, start_ops = _with_block(top.body[1], "JSONWriter start branch")
    if not (len(top.orelse) == 1 and isinstance(top.orelse[0], ast.If)):
        raise U("JSONWriter: expected elif name == 'stop'")
    mid = top.orelse[0]
    stop_name = _name_test(mid.test, "JSONWriter stop test")
    if len(mid.body) != 1 or len(mid.orelse) != 1:
        raise U("JSONWriter stop/else branches: expected one `with` each")
    stop_mode, stop_ops = _with_block(mid.body[0], "JSONWriter stop branch")
    other_mode, other_ops = _with_block(mid.orelse[0], "JSONWriter else branch")
    for m in (start_mode, stop_mode, other_mode):
        if not isinstance(m, str):
            raise U("JSONWriter: open mode is not a literal")
    facts["JSONWriter"] = {
        "start": {"name": start_name, "mode": start_mode, "ops": start_ops, "at": f"json_writer.py:{top.body[1].lineno}"},
        "stop": {"name": stop_name, "mode": stop_mode, "ops": stop_ops, "at": f"json_writer.py:{mid.body[0].lineno}"},
        "other": {"mode": other_mode, "ops": other_ops, "at": f"json_writer.py:{mid.orelse[0].lineno}"},
        "filename": {"rule": ast.unparse(v), "sep": a_sep, "ext": a_ext},
    }
    # ---- JSONLinesWriter.__call__
    fn, _ = P.find_method(tree, "JSONLinesWriter", "__call__")
    body = P.body_wo_doc(fn)
    if not body:
        raise U("JSONLinesWriter.__call__: empty")
    g = body[0]
    if not (isinstance(g, ast.If) and ast.unparse(g.test) == "not self.filename" and not g.orelse and len(g.body) == 1 and isinstance(g.body[0], ast.If)):
        raise U("JSONLinesWriter: file-name guard not recognised")
    inner = g.body[0]
    l_start = _name_test(inner.test, "JSONLinesWriter start test")
    if not (len(inner.body) == 1 and isinstance(inner.body[0], ast.Assign) and P.dotted(inner.body[0].targets[0]) == "self.filename"):
        raise U("JSONLinesWriter: start file name assignment")
    l_sep, l_ext = _uid_fname(inner.body[0].value, "JSONLinesWriter")
    if not (len(inner.orelse) == 1 and isinstance(inner.orelse[0], ast.Assign) and P.dotted(inner.orelse[0].targets[0]) == "self.filename"):
        raise U("JSONLinesWriter: date file name assignment")
    dv = inner.orelse[0].value
    if not (isinstance(dv, ast.JoinedStr) and len(dv.values) == 2 and isinstance(dv.values[0], ast.FormattedValue) and ast.unparse(dv.values[0].value) == "datetime.today().strftime('%Y-%m-%d')" and isinstance(dv.values[1], ast.Constant)):
        raise U(f"JSONLinesWriter: date file name {ast.unparse(dv)}")
    if dv.values[1].value != l_ext:
        raise U("JSONLinesWriter: the two file-name rules use different extensions")
    rest = body[1:]
    path_names = {"self.dirname / self.filename"}
    if rest and isinstance(rest[0], ast.Assign) and P.dotted(rest[0].targets[0]) == "path" and ast.unparse(rest[0].value) == "self.dirname / self.filename":
        path_names.add("path")
        rest = rest[1:]
    if not rest:
        raise U("JSONLinesWriter: `mode = ...` not found")
    m = rest[0]
    if not (isinstance(m, ast.Assign) and P.dotted(m.targets[0]) == "mode"):
        raise U("JSONLinesWriter: `mode = ...` not found")
    mv = m.value
    exists_forms = {f"({x}).exists()" if " " in x else f"{x}.exists()" for x in path_names}
    if isinstance(mv, ast.Constant) and mv.value in ("a", "w"):
        mode_exists = mode_missing = mv.value
    elif isinstance(mv, ast.IfExp) and ast.unparse(mv.test) in exists_forms and isinstance(mv.body, ast.Constant) and isinstance(mv.orelse, ast.Constant) and mv.body.value in ("a", "w") and mv.orelse.value in ("a", "w"):
        mode_exists, mode_missing = mv.body.value, mv.orelse.value
    else:
        raise U(f"JSONLinesWriter: mode rule {ast.unparse(mv)}")
    rest = rest[1:]
    # optional repair of an unterminated last line:
    #   needs_newline = False
    #   if mode == M and path.stat().st_size > 0:
    #       with open(path, "rb") as existing: existing.seek(-1, 2); needs_newline = existing.read(1) != b"\n"
    repairs, guard_mode, term = False, "a", "\n"
    if len(rest) == 3:
        a0, a1 = rest[0], rest[1]
        ok = isinstance(a0, ast.Assign) and P.dotted(a0.targets[0]) == "needs_newline" and isinstance(a0.value, ast.Constant) and a0.value.value is False
        ok = ok and isinstance(a1, ast.If) and not a1.orelse and isinstance(a1.test, ast.BoolOp) and isinstance(a1.test.op, ast.And) and len(a1.test.values) == 2
        if not ok:
            raise U("JSONLinesWriter: statements between `mode = ...` and the final `with` not recognised")
        t0, t1 = a1.test.values
        if not (isinstance(t0, ast.Compare) and P.dotted(t0.left) == "mode" and len(t0.ops) == 1 and isinstance(t0.ops[0], ast.Eq) and isinstance(t0.comparators[0], ast.Constant) and t0.comparators[0].value in ("a", "w")):
            raise U(f"JSONLinesWriter: repair guard {ast.unparse(t0)}")
        if ast.unparse(t1) != "path.stat().st_size > 0" or "path" not in path_names:
            raise U(f"JSONLinesWriter: repair guard {ast.unparse(t1)}")
        guard_mode = t0.comparators[0].value
        if not (len(a1.body) == 1 and isinstance(a1.body[0], ast.With)):
            raise U("JSONLinesWriter: repair block")
        wb = a1.body[0]
        if not (len(wb.items) == 1 and ast.unparse(wb.items[0].context_expr) == "open(path, 'rb')" and isinstance(wb.items[0].optional_vars, ast.Name) and len(wb.body) == 2):
            raise U("JSONLinesWriter: repair block does not read the file in binary mode")
        ex = wb.items[0].optional_vars.id
        if ast.unparse(wb.body[0]) != f"{ex}.seek(-1, 2)":
            raise U(f"JSONLinesWriter: repair block seeks with {ast.unparse(wb.body[0])}")
        asg = wb.body[1]
        if not (isinstance(asg, ast.Assign) and P.dotted(asg.targets[0]) == "needs_newline" and isinstance(asg.value, ast.Compare) and ast.unparse(asg.value.left) == f"{ex}.read(1)" and len(asg.value.ops) == 1 and isinstance(asg.value.ops[0], ast.NotEq) and isinstance(asg.value.comparators[0], ast.Constant) and isinstance(asg.value.comparators[0].value, bytes) and len(asg.value.comparators[0].value) == 1 and asg.value.comparators[0].value[0] < 128):
            raise U(f"JSONLinesWriter: repair test {ast.unparse(asg)}")
        term = asg.value.comparators[0].value.decode()
        repairs = True
        rest = rest[2:]
    if len(rest) != 1:
        raise U("JSONLinesWriter.__call__: expected the final `with open(...)` block")
    wfinal = rest[0]
    fix_ops = []
    if repairs:
        # the final with starts with `if needs_newline: file.write(LIT)`
        if not (isinstance(wfinal, ast.With) and wfinal.body and isinstance(wfinal.body[0], ast.If) and P.dotted(wfinal.body[0].test) == "needs_newline" and not wfinal.body[0].orelse):
            raise U("JSONLinesWriter: `if needs_newline:` is not the first statement of the final with block")
        fake = ast.With(items=wfinal.items, body=wfinal.body[0].body)
        _, fix_ops = _with_block(fake, "JSONLinesWriter repair write", path_names)
        if any(k != "lit" for k, _ in fix_ops):
            raise U("JSONLinesWriter: repair writes something other than literals")
        wfinal = ast.With(items=wfinal.items, body=wfinal.body[1:])
    wmode, l_ops = _with_block(wfinal, "JSONLinesWriter", path_names)
    if not (isinstance(wmode, ast.Name) and wmode.id == "mode"):
        raise U("JSONLinesWriter: open() does not use `mode`")
    facts["JSONLinesWriter"] = {"start_name": l_start, "sep": l_sep, "ext": l_ext, "mode_if_exists": mode_exists, "mode_if_missing": mode_missing, "ops": l_ops,
                                "repairs_unterminated_last_line": repairs, "repair_guard_mode": guard_mode, "terminator": term, "repair_ops": fix_ops, "at": f"json_writer.py:{rest[0].lineno}"}
    out = [
        "-- GENERATED by harness/props/C34.py from src/bluesky/callbacks/json_writer.py -- do not edit.",
        "namespace BlueskyVerif.JsonWriter",
        "",
        "/-- one statement inside `with open(...) as file:` -/",
        "inductive Op where",
        '  | lit (s : String)   -- file.write("<s>")',
        '  | dump               -- json.dump({"name": name, "doc": doc}, file)',
        "deriving Repr, DecidableEq",
        "",
        "/-- open() mode -/",
        "inductive Mode where",
        "  | w | a",
        "deriving Repr, DecidableEq",
        "",
        f"/-- JSONWriter.__call__: `if name == {start_name!r}` ({facts['JSONWriter']['start']['at']}) -/",
        f"def arrayStartName : String := {lean_str(start_name)}",
        f"def arrayStartMode : Mode := .{start_mode}",
        f"def arrayStartOps : List Op := {_ops_lean(start_ops)}",
        f"/-- `elif name == {stop_name!r}` ({facts['JSONWriter']['stop']['at']}) -/",
        f"def arrayStopName : String := {lean_str(stop_name)}",
        f"def arrayStopMode : Mode := .{stop_mode}",
        f"def arrayStopOps : List Op := {_ops_lean(stop_ops)}",
        f"/-- `else` ({facts['JSONWriter']['other']['at']}) -/",
        f"def arrayOtherMode : Mode := .{other_mode}",
        f"def arrayOtherOps : List Op := {_ops_lean(other_ops)}",
        f"/-- `{ast.unparse(v)}` -/",
        f"def arrayUidSep : String := {lean_str(a_sep)}",
        f"def arrayExt : String := {lean_str(a_ext)}",
        "",
        f"/-- JSONLinesWriter.__call__ ({facts['JSONLinesWriter']['at']}) -/",
        f"def linesStartName : String := {lean_str(l_start)}",
        f"def linesUidSep : String := {lean_str(l_sep)}",
        f"def linesExt : String := {lean_str(l_ext)}",
        f"/-- `{ast.unparse(mv)}` -/",
        f"def linesModeIfExists : Mode := .{mode_exists}",
        f"def linesModeIfMissing : Mode := .{mode_missing}",
        f"def linesOps : List Op := {_ops_lean(l_ops)}",
        "/-- does `__call__` terminate an unterminated last line of an existing file first?",
        "    (`if mode == M and path.stat().st_size > 0:` read the last byte, compare with the terminator) -/",
        f"def linesRepairs : Bool := {'true' if repairs else 'false'}",
        f"def linesRepairGuardMode : Mode := .{guard_mode}",
        f"def linesTerminator : Char := {_lean_char(term)}",
        f"def linesRepairOps : List Op := {_ops_lean(fix_ops)}",
        "",
        "end BlueskyVerif.JsonWriter",
        "",
    ]
    C.write_if_changed(C.LEAN / "BlueskyVerif" / "IO" / "JsonWriterGenerated.lean", "\n".join(out))
    return facts


# ----------------------------------------------------------------------------- running the real writers
def record_text(name, doc):
    return json.dumps({"name": name, "doc": doc})


def _today():
    return datetime.today().strftime("%Y-%m-%d")


def run_impl(case):
    """case = {pre: {file: content}, ops: [{op:new, cls, filename} | {op:call, w, name, doc}]}
    -> {files, outcomes, filenames} + private snapshots for the oracle"""
    from bluesky.callbacks.json_writer import JSONLinesWriter, JSONWriter

    for _ in range(2):
        t0 = _today()
        d = tempfile.mkdtemp(prefix="verif_C34_")
        try:
            for p, c in case["pre"].items():
                with open(os.path.join(d, p), "w", newline="") as f:
                    f.write(c)
            writers, outcomes, snaps = [], [], []
            for op in case["ops"]:
                if op["op"] == "new":
                    K = JSONLinesWriter if op["cls"] == "lines" else JSONWriter
                    writers.append(K(d, filename=op["filename"]) if op["filename"] is not None else K(d))
                    continue
                w = writers[op["w"]]
                before = _read_dir(d)
                try:
                    w(op["name"], op["doc"])
                    outcomes.append("ok")
                except Exception as e:  # noqa: BLE001
                    outcomes.append(type(e).__name__)
                fn = w.filename
                after = _read_dir(d)
                snaps.append({"file": fn, "before": before, "after": after})
            files = _read_dir(d)
            obs = {"files": sorted(files.items()), "outcomes": outcomes, "filenames": [w.filename for w in writers], "_snaps": snaps, "_today": t0}
        finally:
            shutil.rmtree(d, ignore_errors=True)
        if _today() == t0:
            return obs
    return obs


def _read_dir(d):
    out = {}
    for p in os.listdir(d):
        with open(os.path.join(d, p), newline="") as f:
            out[p] = f.read()
    return out


def public(obs):
    return {k: ([list(x) for x in v] if k == "files" else v) for k, v in obs.items() if not k.startswith("_")}


# ----------------------------------------------------------------------------- oracle
def oracle(case, obs):
    bad = []
    calls = [op for op in case["ops"] if op["op"] == "call"]
    cls = [op["cls"] for op in case["ops"] if op["op"] == "new"]
    # assumption on dumps (not a property of the writers)
    per_writer = {}
    for k, (op, out, snap) in enumerate(zip(calls, obs["outcomes"], obs["_snaps"])):
        per_writer.setdefault(op["w"], []).append((k, op, out, snap))
    for wi, seq in per_writer.items():
        if cls[wi] == "array":
            bad += _oracle_array(seq)
        else:
            bad += _oracle_lines(seq)
    return bad


def _oracle_array(seq):
    """every completed run (start, non-start/stop..., stop; all calls ok) -> the file parses to the records"""
    bad = []
    i = 0
    while i < len(seq):
        k, op, out, snap = seq[i]
        if op["name"] != "start" or out != "ok":
            i += 1
            continue
        j = i + 1
        while j < len(seq) and seq[j][1]["name"] not in ("start", "stop") and seq[j][2] == "ok":
            j += 1
        if j < len(seq) and seq[j][1]["name"] == "stop":
            run = seq[i : j + 1]
            if seq[j][2] != "ok":
                bad.append((f"array:stop-raises-{seq[j][2]}", f"stop document raised {seq[j][2]}"))
            else:
                fn = seq[j][3]["file"]
                content = seq[j][3]["after"].get(fn)
                want = [{"name": o["name"], "doc": o["doc"]} for _, o, _, _ in run]
                shape = f"{len(run) - 2}-between-start-and-stop" if len(run) - 2 < 2 else "several-between-start-and-stop"
                existed = fn in seq[i][3]["before"]
                tag = shape + (":file-existed" if existed else "")
                try:
                    got = json.loads(content)
                except Exception as e:  # noqa: BLE001
                    bad.append((f"array:file-does-not-parse:{tag}", f"{fn}: {type(e).__name__}: {e}; content {content[:120]!r}"))
                    got = None
                if got is not None and got != want:
                    if not isinstance(got, list):
                        kind = "not-an-array"
                    elif len(got) < len(want):
                        kind = "records-lost"
                    elif len(got) > len(want):
                        kind = "extra-records"
                    elif sorted(map(json.dumps, got)) == sorted(map(json.dumps, want)):
                        kind = "order"
                    else:
                        kind = "content-differs"
                    bad.append((f"array:{kind}:{tag}", f"{fn} parses to {len(got) if isinstance(got, list) else type(got).__name__} records, expected {len(want)}: got {json.dumps(got)[:100]} want {json.dumps(want)[:100]}"))
                # nothing else in the directory was touched by this run
                b0, a1 = seq[i][3]["before"], seq[j][3]["after"]
                others_changed = [p for p in set(b0) | set(a1) if p != fn and b0.get(p) != a1.get(p)]  # runs are not interleaved (see gen_case)
                if others_changed:
                    bad.append(("array:other-file-changed", f"run into {fn} changed {others_changed}"))
            i = j + 1
        else:
            i = j
    return bad


def _oracle_lines(seq):
    bad = []
    recs = []
    pre0 = None
    for k, op, out, snap in seq:
        if out != "ok":
            if not (op["name"] == "start" and "uid" not in op["doc"]):
                bad.append((f"lines:call-raises-{out}", f"JSONLinesWriter({op['name']}) raised {out}"))
            continue
        fn = snap["file"]
        before = snap["before"].get(fn, "")
        after = snap["after"].get(fn)
        if pre0 is None:
            pre0 = before
        rec = {"name": op["name"], "doc": op["doc"]}
        recs.append(rec)
        state = "missing" if fn not in snap["before"] else ("empty" if before == "" else ("terminated" if before.endswith("\n") else "unterminated"))
        if after is None or not after.startswith(before):
            bad.append((f"lines:earlier-content-lost:file-{state}", f"{fn}: content before the call {before[-60:]!r} is not a prefix of the content after it {(after or '')[:60]!r}"))
            continue
        suffix = after[len(before) :]
        if state == "unterminated" and suffix.startswith("\n"):
            suffix = suffix[1:]  # the old last line may be terminated first; it must not be altered otherwise
        ok_line = suffix.endswith("\n") and "\n" not in suffix[:-1]
        try:
            ok_line = ok_line and json.loads(suffix) == rec
        except Exception:  # noqa: BLE001
            ok_line = False
        if not ok_line:
            bad.append((f"lines:appended-text-is-not-one-line-holding-the-record:file-{state}", f"{fn}: appended {after[len(before):][:100]!r} for record {json.dumps(rec)[:80]}"))
            continue
        # independently parseable lines of the file as a whole
        lines = after.split("\n")
        if lines[-1] == "":
            lines.pop()
        tail = lines[-len(recs) :]
        try:
            parsed = [json.loads(l) for l in tail]
        except Exception:  # noqa: BLE001
            parsed = None
        if parsed != recs:
            st0 = "empty" if pre0 == "" else ("terminated" if pre0.endswith("\n") else "unterminated")
            bad.append((f"lines:record-not-on-its-own-line:preexisting-file-{st0}", f"{fn}: pre-existing content {pre0[-40:]!r}; last {len(recs)} lines {[t[:50] for t in tail]} do not parse to the {len(recs)} records written"))
            break
    return bad


# ----------------------------------------------------------------------------- generators
STRS = ["", " ", "a", "start", "stop", "\n", "a\nb", '"', 'q"uo"te', "]", "[", "\n]", ",\n", "[\n", "}\n{", "\\", "\\n", "é", "日本語", "😀", " ", "\r\n", "\t", "\x00", "\x7f", "nul\x00l", "x" * 40,
        "scan_\udcb5m.dat", "\udc80",
        "NaN", "Infinity", "-Infinity", "Andor Infinity 3", "value NaN here", "null"]   # words that a textual post-processing of the dump could hit   # lone surrogates (os.fsdecode of a non-UTF-8 file name): legal str, json.dumps escapes them


def gen_value(rng, depth):
    r = rng.random()
    if depth <= 0 or r < 0.6:
        k = rng.randrange(6)
        if k == 0:
            return None
        if k == 1:
            return rng.random() < 0.5
        if k == 2:
            return rng.choice([0, 1, -1, 10**30, -(2**63), rng.randrange(-999, 999)])
        if k == 3:
            return rng.choice([0.5, -2.25, 1.0, 0.001, 3.75, -0.0])
        return rng.choice(STRS)
    if r < 0.8:
        return [gen_value(rng, depth - 1) for _ in range(rng.randrange(4))]
    return {rng.choice(STRS): gen_value(rng, depth - 1) for _ in range(rng.randrange(4))}


def gen_uid(rng):
    head = "".join(rng.choice("abcdef0123456789") for _ in range(rng.choice([1, 3, 8])))
    return rng.choice([head + "-1111-2222", head, head + "-", "-" + head, head + "--x", head + "-" + head])


def gen_doc(rng, name, uid=None):
    d = {}
    if name == "start":
        d["uid"] = uid or gen_uid(rng)
        d["time"] = rng.randrange(10**6) / 4
    elif name == "stop":
        d["exit_status"] = rng.choice(["success", "abort", "fail"])
        d["uid"] = gen_uid(rng)
    else:
        d["seq_num"] = rng.randrange(100)
    for _ in range(rng.randrange(4)):
        d[rng.choice(STRS)] = gen_value(rng, 3)
    return d


MID = ["descriptor", "event", "event_page", "datum", "resource", "bulk_events", "Start", "stopped", "", "start ", "x"]
FILENAMES = [None, None, None, "custom.json", "run.jsonl", "data", "a b.json", "ü.jsonl"]
PRE = ["", "\n", "old\n", '{"name": "start", "doc": {}}\n', "old", '{"a": 1}', "line1\nline2", "x\n\n", "\r\n", "[\n1,\n2\n]"]


def gen_run(rng, w, uid=None, complete=True, n=None):
    n = rng.choice([0, 0, 1, 1, 2, 3, 5, 8]) if n is None else n
    ops = [{"op": "call", "w": w, "name": "start", "doc": gen_doc(rng, "start", uid)}]
    for _ in range(n):
        nm = rng.choice(MID[:6]) if rng.random() < 0.85 else rng.choice(MID)
        ops.append({"op": "call", "w": w, "name": nm, "doc": gen_doc(rng, nm)})
    if complete:
        ops.append({"op": "call", "w": w, "name": "stop", "doc": gen_doc(rng, "stop")})
    return ops


def gen_case(rng):
    """A directory with some pre-existing files, then several writers used one after the other (runs are not
    interleaved: the statement is about one run through one writer)."""
    case = {"pre": {}, "ops": []}
    nw = rng.choice([1, 1, 2, 3])
    uids = [gen_uid(rng) for _ in range(3)]
    for w in range(nw):
        cls = rng.choice(["array", "lines"])
        fname = rng.choice(FILENAMES)
        if fname == "" and cls == "array":
            fname = None
        case["ops"].append({"op": "new", "cls": cls, "filename": fname})
        uid = rng.choice(uids)
        # pre-existing file where this writer is going to write
        if rng.random() < (0.6 if cls == "lines" else 0.25):
            target = fname or (uid.split("-")[0] + (".jsonl" if cls == "lines" else ".json"))
            case["pre"].setdefault(target, rng.choice(PRE))
        k = rng.random()
        if k < 0.70:
            case["ops"] += gen_run(rng, w, uid)
            if rng.random() < 0.25:  # a second run through the same instance
                case["ops"] += gen_run(rng, w, rng.choice(uids))
        elif k < 0.80:
            case["ops"] += gen_run(rng, w, uid, complete=False)  # stop never arrives
        elif k < 0.90:  # documents before start
            nm = rng.choice(MID[:5] + ["stop"])
            case["ops"].append({"op": "call", "w": w, "name": nm, "doc": gen_doc(rng, nm)})
            case["ops"] += gen_run(rng, w, uid)
        elif k < 0.95:  # start without uid
            d = gen_doc(rng, "start")
            del d["uid"]
            case["ops"].append({"op": "call", "w": w, "name": "start", "doc": d})
        else:  # only non-run documents
            for _ in range(rng.randrange(1, 4)):
                nm = rng.choice(MID[:5])
                case["ops"].append({"op": "call", "w": w, "name": nm, "doc": gen_doc(rng, nm)})
    return case


def exhaustive_cases():
    """Both writers x constructor filename given/not x pre-existing target file (missing / empty / terminated) x
    number of documents between start and stop 0..3 x complete or not; small fixed documents."""
    for cls in ("array", "lines"):
        for fname in (None, "f.out"):
            for pre in (None, "", "old\n", "[\n"):
                for n in range(4):
                    for complete in (True, False):
                        ext = ".jsonl" if cls == "lines" else ".json"
                        target = fname or "ab" + ext
                        ops = [{"op": "new", "cls": cls, "filename": fname}, {"op": "call", "w": 0, "name": "start", "doc": {"uid": "ab-cd"}}]
                        ops += [{"op": "call", "w": 0, "name": "event", "doc": {"seq_num": i + 1, "s": "a\nb"}} for i in range(n)]
                        if complete:
                            ops.append({"op": "call", "w": 0, "name": "stop", "doc": {"exit_status": "success"}})
                        yield {"pre": {} if pre is None else {target: pre}, "ops": ops}


def _cases(ctx):
    corpus = C.VERIF / "corpus" / "C34"
    if corpus.exists():
        for f in sorted(corpus.glob("*.json")):
            yield json.loads(f.read_text())["case"]
    yield from exhaustive_cases()
    for _ in range(ctx.budget(1200, 15000)):
        yield gen_case(ctx.rng)


# ----------------------------------------------------------------------------- model request
def model_request(case, today):
    ops = []
    for op in case["ops"]:
        if op["op"] == "new":
            ops.append(op)
        else:
            uid = op["doc"].get("uid") if isinstance(op["doc"], dict) else None
            ops.append({"op": "call", "w": op["w"], "name": op["name"], "text": record_text(op["name"], op["doc"]), "uid": uid})
    return {"today": today, "pre": sorted(case["pre"].items()), "ops": ops}


def check_assumptions(case, res):
    for op in case["ops"]:
        if op["op"] != "call":
            continue
        rec = {"name": op["name"], "doc": op["doc"]}
        t = record_text(op["name"], op["doc"])
        res.count("dumps-assumption-checked")
        if "\n" in t or not (t.startswith("{") and t.endswith("}")) or json.loads(t) != rec:
            res.disagreements.append({"assumption": "json.dumps(record) is one JSON object without raw newline that loads back", "record": rec})


def _nontrivial(case, obs):
    return bool(case["pre"]) or any(o != "ok" for o in obs["outcomes"]) or len(obs["filenames"]) > 1


def run(ctx, model=True):
    C.assert_repo_import()
    res = C.Result(
        rule="cases = corpus + exhaustive (writer x filename arg x pre-existing target missing/empty/terminated/garbage x 0..3 documents x "
        "with/without stop) + random directories (1-3 writers used in sequence, custom file names, pre-existing files with and without "
        "trailing newline, runs of 0-8 documents with nested values / unicode / newlines / quotes / brackets, second run through the same "
        "instance, stop never arriving, documents before start, start without uid); non-trivial = a pre-existing file, an exception, or "
        "several writers in one directory"
    )
    cases, obss = [], []
    for case in _cases(ctx):
        obs = run_impl(case)
        cases.append(case)
        obss.append(obs)
        res.seen(case, _nontrivial(case, obs))
        for op in case["ops"]:
            if op["op"] == "new":
                res.count("writer:" + op["cls"])
        res.count("calls", len(obs["outcomes"]))
        for o in obs["outcomes"]:
            res.count("outcome:" + o)
        res.count("pre-existing-files", len(case["pre"]))
        check_assumptions(case, res)
        for sig, what in oracle(case, obs):
            res.violations.append(C.Violation(sig, what, case))
    if model:
        replies = C.lean_batch(DRIVER, [json.dumps(model_request(c, o["_today"])) for c, o in zip(cases, obss)])
        for case, obs, rep in zip(cases, obss, replies):
            m = json.loads(rep)
            parsed, lines = m.pop("parsed"), m.pop("lines")
            m["files"] = sorted(m["files"])
            if m != public(obs):
                res.disagreements.append({"case": case, "model": m, "impl": public(obs)})
                continue
            # the model's own reading of the files (Lean's JSON parser / linesOf) against Python's
            files = dict(obs["files"])
            for p, txt in parsed:
                if re.search(r"\\u[dD][89a-fA-F][0-9a-fA-F]{2}", files[p]):
                    # a surrogate escape: Lean's String holds Unicode scalar values only, so Lean's parser cannot
                    # agree with Python's here; the byte-level comparison of the file above is unaffected
                    res.count("lean-json-parse-skipped:surrogate-escape")
                    continue
                try:
                    want = json.loads(files[p])
                except Exception:  # noqa: BLE001
                    want = None
                got = None if txt is None else json.loads(txt)
                res.count("lean-json-parse-compared")
                if (want is None) != (got is None) or (want is not None and want != got):
                    res.disagreements.append({"case": case, "file": p, "lean_parse": txt, "python_parse": want})
            for p, ls in lines:
                want = files[p].split("\n")
                if want[-1] == "":
                    want.pop()
                if ls != want:
                    res.disagreements.append({"case": case, "file": p, "lean_lines": ls, "python_lines": want})
        for i in (0, len(cases) // 2, len(cases) - 1):
            res.samples.append({"case": cases[i], "impl": public(obss[i]), "model": json.loads(replies[i])})
    else:
        res.samples.append({"case": cases[-1], "impl": public(obss[-1])})
    return res


def run_impl_only(ctx):
    return run(ctx, model=False)


def replay(ctx, data):
    res = C.Result()
    case = data.get("case")
    if not case or "ops" not in case:
        return res
    obs = run_impl(case)
    for sig, what in oracle(case, obs):
        res.violations.append(C.Violation(sig, what, case))
    return res
