"""C30 -- suspenders trip and release exactly on their documented conditions.

Tie: (T) the predicates `_should_suspend/_should_resume/_validate`, the threshold operator and the
constructor defaulting of every built-in suspender class are translated from the current
suspenders.py into lean/BlueskyVerif/Suspender/Generated.lean; the theorems in Props/C30.lean are
about those generated definitions.  (C) the hand-written `step` (SuspenderBase.__call__'s
tripped-flag update) is run against real suspender objects on the same value histories.
"""
from __future__ import annotations

import ast
import itertools
import json
import warnings

import common as C
import pyexpr as P

MANIFEST = {
    "text": "FULL. Theorems (Props/C30.lean) over definitions regenerated from suspenders.py on every run: the code's "
    "suspend/resume predicates equal the documented conditions for all 8 classes and all integer values; never both "
    "true for accepted parameters; after ANY value history the tripped flag is the suspend condition at the last "
    "decisive value (induction over the history); explicit thresholds/expected values are stored as given incl. 0.",
    "note": "Trusted: Lean kernel; harness/pyexpr.py (AST -> Lean for the comparison/boolean sub-language); values are "
    "integers (NaN excluded by the property); the lock/thread behaviour of __call__ is not modelled; the hand-written "
    "`step` is tied by the correspondence run against real suspender objects.",
    "technique": "Lean 4 proof over source-translated predicates (translator) + correspondence run of the flag state machine",
}
LEAN_MODULES = ["BlueskyVerif.Props.C30"]
DRIVER_MODULES = ["BlueskyVerif.Suspender.Model"]
DRIVER = "Drivers/C30.lean"
ASSUMPTIONS = [
    "signal values, thresholds and expected values are integers in the Lean model (a linear order with"
    " decidable equality; NaN is excluded by the property)",
    "thread interleavings inside SuspenderBase.__call__ (the lock) are not modelled",
]
TRUSTED = ["harness/pyexpr.py translation of the comparison/boolean sub-language of suspenders.py"]

CLASSES = ["SuspendBoolHigh", "SuspendBoolLow", "SuspendFloor", "SuspendCeil", "SuspendWhenOutsideBand", "SuspendInBand", "SuspendOutBand", "SuspendWhenChanged"]
ENV = {
    "value": "value",
    "self._suspend_thresh": "p.suspendThresh",
    "self._resume_thresh": "p.resumeThresh",
    "self._bot": "p.bot",
    "self._top": "p.top",
    "band_bottom": "p.bot",
    "band_top": "p.top",
    "self.expected_value": "p.expected",
    "self.allow_resume": "p.allowResume",
}
BOOLS = {"self.allow_resume"}


def _op_of(tree, cls):
    """`_op` property: `return operator.lt` -> '<'."""
    try:
        fn, _ = P.find_method(tree, cls, "_op")
        r = P.single_return(fn)
    except P.Untranslatable:
        return {}
    d = P.dotted(r)
    if d and d.startswith("operator.") and d.split(".")[1] in P.OPERATOR_FUNCS:
        return {"self._op": P.OPERATOR_FUNCS[d.split(".")[1]]}
    raise P.Untranslatable(f"{cls}._op returns {ast.dump(r)}")


def _validity(tree, cls, tr):
    """Conjunction of the negated `if COND: raise ValueError` guards in _validate and in the
    constructors along the MRO."""
    conds = []
    fns = []
    try:
        fns.append(P.find_method(tree, cls, "_validate")[0])
    except P.Untranslatable:
        pass
    c = cls
    while c:
        cd = P.find_class(tree, c)
        for n in cd.body:
            if isinstance(n, ast.FunctionDef) and n.name == "__init__":
                fns.append(n)
        c = next((P.dotted(b) for b in cd.bases if P.dotted(b) in [x.name for x in tree.body if isinstance(x, ast.ClassDef)]), None)
    for fn in fns:
        for st in P.body_wo_doc(fn):
            if isinstance(st, ast.If) and st.body and isinstance(st.body[0], ast.Raise):
                conds.append(f"(!{tr.b(st.test)})")
    return "(" + " && ".join(conds) + ")" if conds else "true"


def _default_rule(fn: ast.FunctionDef, param: str, fallback_names: set[str]):
    """How a constructor turns an optional argument into the stored value.
    Returns 'isnone' (only None falls back) or 'falsy' (`x or fallback`)."""
    for st in ast.walk(fn):
        # if x is None: x = fallback
        if isinstance(st, ast.If) and isinstance(st.test, ast.Compare) and P.dotted(st.test.left) == param and isinstance(st.test.ops[0], ast.Is) and isinstance(st.test.comparators[0], ast.Constant) and st.test.comparators[0].value is None:
            if len(st.body) == 1 and isinstance(st.body[0], ast.Assign) and P.dotted(st.body[0].targets[0]) == param and P.dotted(st.body[0].value) in fallback_names:
                return "isnone"
        if isinstance(st, ast.Assign):
            v = st.value
            # fallback if x is None else x
            if isinstance(v, ast.IfExp) and isinstance(v.test, ast.Compare) and P.dotted(v.test.left) == param and isinstance(v.test.comparators[0], ast.Constant) and v.test.comparators[0].value is None:
                if isinstance(v.test.ops[0], ast.Is) and P.dotted(v.body) in fallback_names and P.dotted(v.orelse) == param:
                    return "isnone"
                if isinstance(v.test.ops[0], ast.IsNot) and P.dotted(v.orelse) in fallback_names and P.dotted(v.body) == param:
                    return "isnone"
            # x or fallback
            if isinstance(v, ast.BoolOp) and isinstance(v.op, ast.Or) and len(v.values) == 2 and P.dotted(v.values[0]) == param and P.dotted(v.values[1]) in fallback_names:
                return "falsy"
    raise P.Untranslatable(f"defaulting of {param} in {fn.name} not recognised")


def extract(ctx):
    src = (C.SRC / "suspenders.py").read_text()
    tree = ast.parse(src)
    out = [
        "-- GENERATED by harness/props/C30.py from src/bluesky/suspenders.py -- do not edit.",
        "namespace BlueskyVerif.Suspender",
        "",
        "structure Params where",
        "  suspendThresh : Int := 0",
        "  resumeThresh : Int := 0",
        "  bot : Int := 0",
        "  top : Int := 0",
        "  expected : Int := 0",
        "  allowResume : Bool := false",
        "deriving Repr, DecidableEq",
        "",
        "inductive Cls where",
        "  | " + " | ".join(c[0].lower() + c[1:] for c in CLASSES),
        "deriving Repr, DecidableEq",
        "",
    ]
    facts = {}
    sus, res, val = [], [], []
    for cls in CLASSES:
        ops = _op_of(tree, cls)
        tr = P.Tr(ENV, ops, BOOLS)
        fs, where_s = P.find_method(tree, cls, "_should_suspend")
        fr, where_r = P.find_method(tree, cls, "_should_resume")
        s = tr.b(P.single_return(fs))
        r = tr.b(P.single_return(fr))
        v = _validity(tree, cls, tr)
        ctor = cls[0].lower() + cls[1:]
        sus.append(f"  | .{ctor} => {s}")
        res.append(f"  | .{ctor} => {r}")
        val.append(f"  | .{ctor} => {v}")
        facts[cls] = {"suspend": s, "resume": r, "valid": v, "suspend_at": f"suspenders.py:{fs.lineno} ({where_s})", "resume_at": f"suspenders.py:{fr.lineno} ({where_r})"}
    out += ["def shouldSuspend (c : Cls) (p : Params) (value : Int) : Bool :=", "  match c with"] + sus + [""]
    out += ["def shouldResume (c : Cls) (p : Params) (value : Int) : Bool :=", "  match c with"] + res + [""]
    out += ["/-- the constructor accepts these parameters (no ValueError) -/", "def valid (c : Cls) (p : Params) : Bool :=", "  match c with"] + val + [""]
    # constructor defaulting
    thr_init = next(n for n in P.find_class(tree, "_Threshold").body if isinstance(n, ast.FunctionDef) and n.name == "__init__")
    chg_init = next(n for n in P.find_class(tree, "SuspendWhenChanged").body if isinstance(n, ast.FunctionDef) and n.name == "__init__")
    rules = {"resume_thresh": _default_rule(thr_init, "resume_thresh", {"suspend_thresh"}), "expected_value": _default_rule(chg_init, "expected_value", {"signal.value"})}
    facts["defaulting"] = rules
    for name, lean in (("resume_thresh", "ctorResumeThresh"), ("expected_value", "ctorExpected")):
        out += [f"/-- stored value for the optional constructor argument `{name}` (rule: {rules[name]}) -/", f"def {lean} (given : Option Int) (fallback : Int) : Int :="]
        if rules[name] == "isnone":
            out += ["  match given with", "  | none => fallback", "  | some v => v", ""]
        else:
            out += ["  match given with", "  | none => fallback", "  | some v => if v != 0 then v else fallback", ""]
    out += ["end BlueskyVerif.Suspender", ""]
    C.write_if_changed(C.LEAN / "BlueskyVerif" / "Suspender" / "Generated.lean", "\n".join(out))
    return facts


# ----------------------------------------------------------------------------- documented conditions (oracle)
_PD = {"suspend": 0, "resume": 0, "bot": 0, "top": 0, "expected": 0, "allow": False}


def doc_suspend(cls, p, v):
    p = {**_PD, **p}
    return {
        "SuspendBoolHigh": bool(v),
        "SuspendBoolLow": not bool(v),
        "SuspendFloor": v < p["suspend"],
        "SuspendCeil": v > p["suspend"],
        "SuspendWhenOutsideBand": not (p["bot"] < v < p["top"]),
        "SuspendInBand": not (p["bot"] < v < p["top"]),
        "SuspendOutBand": p["bot"] < v < p["top"],
        "SuspendWhenChanged": v != p["expected"],
    }[cls]


def doc_resume(cls, p, v):
    p = {**_PD, **p}
    return {
        "SuspendBoolHigh": not bool(v),
        "SuspendBoolLow": bool(v),
        "SuspendFloor": v >= p["resume"],
        "SuspendCeil": v <= p["resume"],
        "SuspendWhenOutsideBand": p["bot"] < v < p["top"],
        "SuspendInBand": p["bot"] < v < p["top"],
        "SuspendOutBand": not (p["bot"] < v < p["top"]),
        "SuspendWhenChanged": p["allow"] and v == p["expected"],
    }[cls]


class _Sig:
    name = "sig"

    def __init__(self, value):
        self.value = value

    def get(self):
        return self.value

    def subscribe(self, *a, **k):
        pass

    def clear_sub(self, *a, **k):
        pass


class _State:
    is_running = False


class _RE:
    """Just enough of a RunEngine for SuspenderBase.__call__: never 'running', so no request is
    scheduled; the private event creation is short-circuited by a loop that runs callbacks inline."""

    state = _State()

    class _L:
        def call_soon_threadsafe(self, f, *a):
            f(*a)

            class H:
                def cancel(self):
                    pass

            return H()

        def call_later(self, *a):
            pass

    _loop = _L()

    def request_suspend(self, *a, **k):
        pass


class _RE_busy(_RE):
    """the engine's loop does not answer within the 0.1 s that SuspenderBase.__make_event waits: the trip is registered
    all the same (tripped is True; the event is made later, when a plan is about to start)"""

    class _L(_RE._L):
        def call_soon_threadsafe(self, f, *a):
            class H:
                def cancel(self):
                    pass

            return H()

    _loop = _L()


def make(cls, case):
    import bluesky.suspenders as S

    sig = _Sig(case["signal"])
    K = getattr(S, cls)
    with warnings.catch_warnings():
        warnings.simplefilter("ignore")
        if cls in ("SuspendBoolHigh", "SuspendBoolLow"):
            s = K(sig)
        elif cls in ("SuspendFloor", "SuspendCeil"):
            kw = {} if case["resume"] is None else {"resume_thresh": case["resume"]}
            s = K(sig, case["suspend"], **kw)
        elif cls in ("SuspendWhenOutsideBand", "SuspendInBand", "SuspendOutBand"):
            s = K(sig, case["bot"], case["top"])
        else:
            kw = {} if case["expected"] is None else {"expected_value": case["expected"]}
            s = K(sig, allow_resume=case["allow"], **kw)
    return s


def run_impl(case):
    """-> observation: constructor outcome, stored parameters, tripped flag after each value."""
    import asyncio

    cls = case["cls"]
    try:
        s = make(cls, case)
    except ValueError:
        return {"ctor": "ValueError"}
    s.RE = _RE_busy() if case.get("busy") else _RE()
    flags = []
    import contextlib
    import io

    with contextlib.redirect_stdout(io.StringIO()):
        for i, v in enumerate(case["values"]):
            try:
                # the way ophyd calls a subscriber: the previous value comes along; the very first call (the replay of the
                # cached reading when the suspender is installed) carries old_value == value
                s(v, old_value=(case["values"][i - 1] if i else v), timestamp=0.0)
            except RuntimeError:  # asyncio.Event() outside a loop on some versions -- not part of the model
                pass
            flags.append(bool(s.tripped))
    stored = {}
    if cls in ("SuspendFloor", "SuspendCeil"):
        stored = {"suspend": s._suspend_thresh, "resume": s._resume_thresh}
    elif cls == "SuspendWhenChanged":
        stored = {"expected": s.expected_value, "allow": bool(s.allow_resume)}
    elif "Band" in cls:
        stored = {"bot": s._bot, "top": s._top}
    return {"ctor": "ok", "stored": stored, "flags": flags}


def oracle(case, obs):
    """The property, evaluated on what the implementation did.  -> list of (sig, what)."""
    cls = case["cls"]
    bad = []
    if obs["ctor"] != "ok":
        return bad
    st = obs["stored"]
    # explicitly given values are honoured, including falsy ones
    if cls in ("SuspendFloor", "SuspendCeil"):
        if st["suspend"] != case["suspend"]:
            bad.append((f"{cls}:suspend_thresh-not-honoured", f"suspend_thresh={case['suspend']} stored as {st['suspend']}"))
        if case["resume"] is not None and st["resume"] != case["resume"]:
            bad.append((f"{cls}:resume_thresh-not-honoured:{'falsy' if not case['resume'] else 'truthy'}", f"resume_thresh={case['resume']} stored as {st['resume']}"))
        p = {"suspend": st["suspend"], "resume": case["resume"] if case["resume"] is not None else case["suspend"]}
    elif cls == "SuspendWhenChanged":
        if case["expected"] is not None and st["expected"] != case["expected"]:
            bad.append((f"{cls}:expected_value-not-honoured:{'falsy' if not case['expected'] else 'truthy'}", f"expected_value={case['expected']} stored as {st['expected']} (signal value {case['signal']})"))
        p = {"expected": case["expected"] if case["expected"] is not None else case["signal"], "allow": case["allow"]}
    elif "Band" in cls:
        p = {"bot": case["bot"], "top": case["top"]}
    else:
        p = {}
    tripped = False
    for i, (v, flag) in enumerate(zip(case["values"], obs["flags"])):
        s, r = doc_suspend(cls, p, v), doc_resume(cls, p, v)
        if s and r:
            bad.append((f"{cls}:conditions-overlap", f"documented suspend and resume conditions both hold at value {v} with {p}"))
        if s:
            tripped = True
        elif r:
            tripped = False
        if flag != tripped:
            kind = "boundary" if v in p.values() else "interior"
            bad.append((f"{cls}:tripped-flag:{kind}", f"after values {case['values'][: i + 1]} tripped={flag}, documented conditions say {tripped} (params {p})"))
            break
    return bad


def gen_case(rng, cls=None):
    cls = cls or rng.choice(CLASSES)
    small = lambda: rng.choice([-3, -2, -1, 0, 0, 1, 2, 3, 5])  # noqa: E731
    case = {"cls": cls, "signal": small(), "suspend": small(), "resume": rng.choice([None, small(), small()]), "bot": small(), "top": small(), "expected": rng.choice([None, 0, small()]), "allow": rng.random() < 0.6}
    n = rng.choice([0, 1, 2, 3, 5, 8, 12])
    pool = sorted({case["suspend"], case["bot"], case["top"], case["signal"], 0, 1} | ({case["resume"]} if case["resume"] is not None else set()) | ({case["expected"]} if case["expected"] is not None else set()))
    pool = pool + [x - 1 for x in pool] + [x + 1 for x in pool]
    case["values"] = [rng.choice(pool) for _ in range(n)]
    return case


def exhaustive_cases(lim):
    """Every class x every parameter tuple in [-lim, lim] x value histories of length <= 2 over the boundary values."""
    rng = range(-lim, lim + 1)
    for cls in CLASSES:
        if cls in ("SuspendBoolHigh", "SuspendBoolLow"):
            params = [{}]
        elif cls in ("SuspendFloor", "SuspendCeil"):
            params = [{"suspend": a, "resume": b} for a in rng for b in [None, *rng]]
        elif "Band" in cls:
            params = [{"bot": a, "top": b} for a in rng for b in rng]
        else:
            params = [{"expected": e, "allow": al, "signal": s} for e in [None, *rng] for al in (False, True) for s in rng]
        for p in params:
            base = {"cls": cls, "signal": 1, "suspend": 0, "resume": None, "bot": 0, "top": 1, "expected": None, "allow": False}
            base.update(p)
            vals = list(range(-lim - 1, lim + 2))
            for k in (1, 2):
                for vs in itertools.product(vals, repeat=k):
                    yield {**base, "values": list(vs)}


def _cases(ctx):
    corpus = C.VERIF / "corpus" / "C30"
    if corpus.exists():
        for f in sorted(corpus.glob("*.json")):
            yield json.loads(f.read_text())["case"]
    lim = 1 if not (ctx.tier == "thorough" or ctx.deep) else 2
    yield from exhaustive_cases(lim)
    for _ in range(ctx.budget(1500, 40000)):
        yield gen_case(ctx.rng)
    # a few cases in which the engine's loop is too busy to make the suspender's event in time (0.1 s real time per trip)
    for _ in range(ctx.budget(6, 40)):
        c = gen_case(ctx.rng)
        c["values"] = c["values"][:3]
        c["busy"] = True
        yield c


def _nontrivial(case, obs):
    return obs["ctor"] == "ok" and len(set(obs.get("flags", []))) > 1 or obs["ctor"] != "ok"


def run(ctx, model=True):
    res = C.Result(rule="cases = corpus + exhaustive small parameter/value tuples + random histories over boundary values; non-trivial = constructor rejected, or the tripped flag changes at least once")
    cases, obss = [], []
    for case in _cases(ctx):
        obs = run_impl(case)
        cases.append(case)
        obss.append(obs)
        res.seen(case, _nontrivial(case, obs))
        res.count(case["cls"])
        res.count("ctor:" + obs["ctor"])
        for sig, what in oracle(case, obs):
            res.violations.append(C.Violation(sig, what, case))
    if model:
        replies = C.lean_batch(DRIVER, [json.dumps(c) for c in cases])
        for case, obs, rep in zip(cases, obss, replies):
            m = json.loads(rep)
            if m != obs:
                res.disagreements.append({"case": case, "model": m, "impl": obs})
        for i in (0, len(cases) // 2, len(cases) - 1):
            res.samples.append({"case": cases[i], "impl": obss[i], "model": json.loads(replies[i])})
    else:
        res.samples.append({"case": cases[-1], "impl": obss[-1]})
    return res


def run_impl_only(ctx):
    return run(ctx, model=False)


def replay(ctx, data):
    res = C.Result()
    case = data.get("case")
    if not case:
        return res
    obs = run_impl(case)
    for sig, what in oracle(case, obs):
        res.violations.append(C.Violation(sig, what, case))
    return res
