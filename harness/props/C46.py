"""C46 -- TiledWriter stores exactly the run it was given.

Tie
 (T) translator: the flush conditions and the flush/clear statements of `_RunWriter.event`, `.stop` and
     `.stream_datum` are pattern-matched in the CURRENT tiled_writer.py and written to
     lean/BlueskyVerif/IO/TiledWriterGenerated.lean (comparison operators, which statements are present);
     the model (IO/TiledWriter.lean) is parametrised by them and the theorems need their current values.
 (C) correspondence against the REAL in-memory tiled catalog built exactly as the suite's fixtures do
     (tiled.catalog.in_memory + tiled.server.app.build_app + Context.from_app + from_context): generated runs
     (several streams, event pages, internal data, external stream datums registered on an hdf5 file made in
     /tmp) are written with batch sizes 0..N; the harness records every `_write_internal_data` /
     `_write_external_data` call (a wrapper installed inside the harness process) and compares the sequence of
     flushed partitions per stream / stream resource with the Lean model; the property oracle reads the catalog back.
"""
from __future__ import annotations

import ast
import copy
import json
import os
import tempfile
import warnings

import common as C
import pyexpr as P

MANIFEST = {
    "text": "PARTIAL. Proved for every batch size (any integer) and every sequence of events / stream datums (induction): the "
    "partitions handed to Tiled for a stream, concatenated, are exactly that stream's rows in arrival order and nothing stays "
    "cached after stop (C46_rows_in_order); no partition is empty and all but the last have exactly max(batch,1) rows; the "
    "widths of the stream datums handed to the consolidator of a stream resource add up to the widths received "
    "(C46_array_length), whether they were written immediately, concatenated, flushed at the threshold, written separately after "
    "a failed concatenation or flushed at stop.  Trusted (not proved): tiled, pyarrow, the HTTP layer and the consolidators "
    "really store what they are handed -- checked only by the correspondence run against the real in-memory catalog.",
    "note": "Trusted: Lean kernel; tiled server/client, pyarrow, duckdb/parquet storage, httpx/starlette transport, "
    "bluesky.consolidators (C36), event_model.unpack_event_page; the pattern-matching extractor of this file.",
    "technique": "Lean 4 proof of the batching logic over source-extracted flush conditions (translator) + correspondence run against the real in-memory tiled catalog",
}
LEAN_MODULES = ["BlueskyVerif.Props.C46"]
DRIVER_MODULES = ["BlueskyVerif.IO.TiledWriter"]
DRIVER = "Drivers/C46.lean"
ASSUMPTIONS = [
    "tiled (server, client, catalog), pyarrow, the parquet/duckdb storage and the HTTP layer store and return what they are handed",
    "the consolidator's array length is the sum of (stop - start) of the stream datums it consumes (consolidators.py:256, property C36)",
    "events of one stream arrive in seq_num order (RunEngine guarantee, C05): 'seq_num order' = arrival order",
    "event_model.unpack_event_page transposes a page into its events",
]
TRUSTED = ["tiled / pyarrow / HTTP transport / consolidators", "pattern-matching extractor in harness/props/C46.py", "harness/pyexpr.py"]
TW = "callbacks/tiled_writer.py"


class Unrecognised(Exception):
    pass


# ============================================================================ translator
class _Subst(ast.NodeTransformer):
    """replace selected sub-expressions by plain names so that pyexpr can translate the comparison"""

    def __init__(self, table):
        self.table = table

    def generic_visit(self, node):
        try:
            key = ast.unparse(node)
        except Exception:  # noqa: BLE001
            key = None
        if key in self.table:
            return ast.copy_location(ast.Name(id=self.table[key], ctx=ast.Load()), node)
        return super().generic_visit(node)


def _tr(expr, table, env):
    e = _Subst(table).visit(copy.deepcopy(expr))
    return P.Tr(env).b(e)


def _is_call(st, name, nargs=None):
    return isinstance(st, ast.Expr) and isinstance(st.value, ast.Call) and P.dotted(st.value.func) == name and (nargs is None or len(st.value.args) + len(st.value.keywords) == nargs)


def extract(ctx):
    src = (C.SRC / TW).read_text()
    tree = ast.parse(src)
    cls = P.find_class(tree, "_RunWriter")
    meth = {n.name: n for n in cls.body if isinstance(n, ast.FunctionDef)}
    facts = {}
    # ---- BATCH_SIZE
    bs = None
    for n in tree.body:
        if isinstance(n, ast.Assign) and P.dotted(n.targets[0]) == "BATCH_SIZE":
            bs = ast.literal_eval(n.value)
    if not isinstance(bs, int):
        raise Unrecognised("BATCH_SIZE")
    # ---- event
    ev = P.body_wo_doc(meth["event"])
    appends = [i for i, st in enumerate(ev) if _is_call(st, "data_cache.append", 1) and P.dotted(st.value.args[0]) == "row"]
    ifs = [i for i, st in enumerate(ev) if isinstance(st, ast.If)]
    if len(appends) != 1 or len(ifs) != 1 or not appends[0] < ifs[0] or ifs[0] != len(ev) - 1:
        raise Unrecognised("_RunWriter.event: expected `data_cache.append(row)` followed by one trailing `if`")
    cache_def = [st for st in ev if isinstance(st, ast.Assign) and P.dotted(st.targets[0]) == "data_cache"]
    if not (len(cache_def) == 1 and ast.unparse(cache_def[0].value) == "self._internal_data_cache[desc_name]"):
        raise Unrecognised("_RunWriter.event: data_cache is not self._internal_data_cache[desc_name]")
    iff = ev[ifs[0]]
    if iff.orelse:
        raise Unrecognised("_RunWriter.event: else branch")
    flush_cond = _tr(iff.test, {"len(data_cache)": "LEN", "self._batch_size": "BATCH"}, {"LEN": "len", "BATCH": "batch"})
    body = iff.body
    ev_writes = len(body) >= 1 and _is_call(body[0], "self._write_internal_data") and P.dotted(body[0].value.args[0]) == "data_cache"
    ev_clears = len(body) == 2 and _is_call(body[1], "data_cache.clear", 0)
    if not ev_writes or len(body) > 2 or (len(body) == 2 and not ev_clears):
        raise Unrecognised("_RunWriter.event: flush branch is not `write(data_cache); data_cache.clear()`")
    facts["event"] = {"flush_cond": flush_cond, "clears": ev_clears, "at": f"{TW}:{iff.lineno}"}
    # ---- stop
    st_body = P.body_wo_doc(meth["stop"])
    rows_loop = ext_loop = None
    for st in st_body:
        if isinstance(st, ast.For) and ast.unparse(st.iter) == "self._internal_data_cache.items()":
            rows_loop = st
        if isinstance(st, ast.For) and ast.unparse(st.iter) == "self._external_data_cache.values()":
            ext_loop = st
    stop_flush = stop_clear = False
    if rows_loop is not None:
        b = rows_loop.body
        if not (len(b) == 1 and isinstance(b[0], ast.If) and P.dotted(b[0].test) == "data_cache" and not b[0].orelse):
            raise Unrecognised("_RunWriter.stop: rows loop body is not `if data_cache:`")
        bb = b[0].body
        stop_flush = len(bb) >= 1 and _is_call(bb[0], "self._write_internal_data") and P.dotted(bb[0].value.args[0]) == "data_cache"
        stop_clear = len(bb) == 2 and _is_call(bb[1], "data_cache.clear", 0)
        if not stop_flush or len(bb) > 2 or (len(bb) == 2 and not stop_clear):
            raise Unrecognised("_RunWriter.stop: rows flush is not `write(data_cache); data_cache.clear()`")
    stop_ext = False
    if ext_loop is not None:
        b = ext_loop.body
        stop_ext = len(b) == 1 and _is_call(b[0], "self._write_external_data", 1) and P.dotted(b[0].value.args[0]) == P.dotted(ext_loop.target)
        if not stop_ext:
            raise Unrecognised("_RunWriter.stop: external loop body")
    facts["stop"] = {"flushes_rows": stop_flush, "clears_rows": stop_clear, "flushes_ext": stop_ext, "at": f"{TW}:{meth['stop'].lineno}"}
    # ---- stream_datum
    sd = P.body_wo_doc(meth["stream_datum"])
    if not (len(sd) == 3 and isinstance(sd[0], ast.If) and isinstance(sd[1], ast.Assign) and isinstance(sd[2], ast.If)):
        raise Unrecognised("_RunWriter.stream_datum: statement shape")
    first = sd[0]
    if not (len(first.body) == 2 and _is_call(first.body[0], "self._write_external_data", 1) and P.dotted(first.body[0].value.args[0]) == "doc" and isinstance(first.body[1], ast.Return) and not first.orelse):
        raise Unrecognised("_RunWriter.stream_datum: immediate branch")
    immediate = _tr(first.test, {"self._batch_size": "BATCH"}, {"BATCH": "batch"})
    if not (P.dotted(sd[1].targets[0]) == "sres_uid" and ast.unparse(sd[1].value) == "doc['stream_resource']"):
        raise Unrecognised("_RunWriter.stream_datum: cache key is not doc['stream_resource']")
    main = sd[2]
    if not (isinstance(main.test, ast.NamedExpr) and ast.unparse(main.test.value) == "self._external_data_cache.pop(sres_uid, None)" and main.test.target.id == "cached_stream_datum_doc"):
        raise Unrecognised("_RunWriter.stream_datum: cache pop")
    if not (len(main.orelse) == 1 and ast.unparse(main.orelse[0]) == "self._external_data_cache[sres_uid] = doc"):
        raise Unrecognised("_RunWriter.stream_datum: first datum is not cached")
    if not (len(main.body) == 1 and isinstance(main.body[0], ast.Try)):
        raise Unrecognised("_RunWriter.stream_datum: try")
    tr_ = main.body[0]
    if not (len(tr_.handlers) == 1 and P.dotted(tr_.handlers[0].type) == "ValueError" and not tr_.orelse and not tr_.finalbody):
        raise Unrecognised("_RunWriter.stream_datum: except clause")
    hb = tr_.handlers[0].body
    if [ast.unparse(x) for x in hb] != ["self._write_external_data(cached_stream_datum_doc)", "self._write_external_data(doc)"]:
        raise Unrecognised("_RunWriter.stream_datum: except body")
    tb = tr_.body
    if not (len(tb) == 2 and ast.unparse(tb[0]) == "_doc = concatenate_stream_datums(cached_stream_datum_doc, doc)" and isinstance(tb[1], ast.If)):
        raise Unrecognised("_RunWriter.stream_datum: try body")
    inner = tb[1]
    if [ast.unparse(x) for x in inner.body] != ["self._write_external_data(_doc)"] or [ast.unparse(x) for x in inner.orelse] != ["self._external_data_cache[sres_uid] = _doc"]:
        raise Unrecognised("_RunWriter.stream_datum: threshold branches")
    ext_flush = _tr(inner.test, {"_doc['indices']['stop']": "I1", "_doc['indices']['start']": "I0", "self._batch_size": "BATCH"}, {"I0": "i0", "I1": "i1", "BATCH": "batch"})
    facts["stream_datum"] = {"immediate": immediate, "flush_cond": ext_flush, "at": f"{TW}:{meth['stream_datum'].lineno}"}
    facts["BATCH_SIZE"] = bs
    b = lambda x: "true" if x else "false"  # noqa: E731
    out = [
        "-- GENERATED by harness/props/C46.py from src/bluesky/callbacks/tiled_writer.py (class _RunWriter) -- do not edit.",
        "set_option linter.unusedVariables false",
        "namespace BlueskyVerif.TiledWriter",
        "",
        f"def defaultBatchSize : Int := {bs}",
        "/-- `event`: the test after `data_cache.append(row)` -/",
        f"def flushCond (len batch : Int) : Bool := {flush_cond}",
        "/-- `event`: `data_cache.clear()` follows the write -/",
        f"def eventClears : Bool := {b(ev_clears)}",
        "/-- `stop`: `for ... in self._internal_data_cache.items(): if data_cache: write; clear` -/",
        f"def stopFlushesRows : Bool := {b(stop_flush)}",
        f"def stopClearsRows : Bool := {b(stop_clear)}",
        "/-- `stop`: `for d in self._external_data_cache.values(): self._write_external_data(d)` -/",
        f"def stopFlushesExt : Bool := {b(stop_ext)}",
        "/-- `stream_datum`: write immediately when ... -/",
        f"def immediateCond (batch : Int) : Bool := {immediate}",
        "/-- `stream_datum`: write the concatenated datum when ... (else keep it cached) -/",
        f"def extFlushCond (i0 i1 batch : Int) : Bool := {ext_flush}",
        "",
        "end BlueskyVerif.TiledWriter",
        "",
    ]
    C.write_if_changed(C.LEAN / "BlueskyVerif" / "IO" / "TiledWriterGenerated.lean", "\n".join(out))
    return facts
