"""C46 -- TiledWriter stores exactly the run it was given.

Tie
 (T) translator: the flush conditions and the flush/clear statements of `_RunWriter.event`, `.stop` and
     `.stream_datum` are pattern-matched in the CURRENT tiled_writer.py and written to
     lean/BlueskyVerif/IO/TiledWriterGenerated.lean (comparison operators, which statements are present);
     the model (IO/TiledWriter.lean) is parametrised by them and the theorems need their current values.
 (C) correspondence against the REAL in-memory tiled catalog built exactly as the suite's fixtures do
     (tiled.catalog.in_memory + tiled.server.app.build_app + Context.from_app + from_context): generated runs
     (several streams, event pages, internal data, external stream datums registered on an hdf5 file made in
     /tmp) are written with batch sizes 0..N; the harness records every `_write_internal_data` /
     `_write_external_data` call (a wrapper installed inside the harness process) and compares the sequence of
     flushed partitions per stream / stream resource with the Lean model; the property oracle reads the catalog back.
"""
from __future__ import annotations

import ast
import copy
import json
import os
import tempfile
import warnings

import common as C
import pyexpr as P

MANIFEST = {
    "text": "PARTIAL. Proved for every batch size (any integer) and every sequence of events / stream datums (induction): the "
    "partitions handed to Tiled for a stream, concatenated, are exactly that stream's rows in arrival order and nothing stays "
    "cached after stop (C46_rows_in_order); no partition is empty and all but the last have exactly max(batch,1) rows; the "
    "widths of the stream datums handed to the consolidator of a stream resource add up to the widths received "
    "(C46_array_length), whether they were written immediately, concatenated, flushed at the threshold, written separately after "
    "a failed concatenation or flushed at stop.  Trusted (not proved): tiled, pyarrow, the HTTP layer and the consolidators "
    "really store what they are handed -- checked only by the correspondence run against the real in-memory catalog.",
    "note": "Trusted: Lean kernel; tiled server/client, pyarrow, duckdb/parquet storage, httpx/starlette transport, "
    "bluesky.consolidators (C36), event_model.unpack_event_page; the pattern-matching extractor of this file.",
    "technique": "Lean 4 proof of the batching logic over source-extracted flush conditions (translator) + correspondence run against the real in-memory tiled catalog",
}
LEAN_MODULES = ["BlueskyVerif.Props.C46"]
DRIVER_MODULES = ["BlueskyVerif.IO.TiledWriter"]
DRIVER = "Drivers/C46.lean"
ASSUMPTIONS = [
    "tiled (server, client, catalog), pyarrow, the parquet/duckdb storage and the HTTP layer store and return what they are handed",
    "the consolidator's array length is the sum of (stop - start) of the stream datums it consumes (consolidators.py:256, property C36)",
    "events of one stream arrive in seq_num order (RunEngine guarantee, C05): 'seq_num order' = arrival order",
    "event_model.unpack_event_page transposes a page into its events",
]
TRUSTED = ["tiled / pyarrow / HTTP transport / consolidators", "pattern-matching extractor in harness/props/C46.py", "harness/pyexpr.py"]
TW = "callbacks/tiled_writer.py"


class Unrecognised(Exception):
    pass


# ============================================================================ translator
class _Subst(ast.NodeTransformer):
    """replace selected sub-expressions by plain names so that pyexpr can translate the comparison"""

    def __init__(self, table):
        self.table = table

    def generic_visit(self, node):
        try:
            key = ast.unparse(node)
        except Exception:  # noqa: BLE001
            key = None
        if key in self.table:
            return ast.copy_location(ast.Name(id=self.table[key], ctx=ast.Load()), node)
        return super().generic_visit(node)


def _tr(expr, table, env):
    e = _Subst(table).visit(copy.deepcopy(expr))
    return P.Tr(env).b(e)


def _is_call(st, name, nargs=None):
    return isinstance(st, ast.Expr) and isinstance(st.value, ast.Call) and P.dotted(st.value.func) == name and (nargs is None or len(st.value.args) + len(st.value.keywords) == nargs)


def extract(ctx):
    src = (C.SRC / TW).read_text()
    tree = ast.parse(src)
    cls = P.find_class(tree, "_RunWriter")
    meth = {n.name: n for n in cls.body if isinstance(n, ast.FunctionDef)}
    facts = {}
    # ---- BATCH_SIZE
    bs = None
    for n in tree.body:
        if isinstance(n, ast.Assign) and P.dotted(n.targets[0]) == "BATCH_SIZE":
            bs = ast.literal_eval(n.value)
    if not isinstance(bs, int):
        raise Unrecognised("BATCH_SIZE")
    # ---- event
    ev = P.body_wo_doc(meth["event"])
    appends = [i for i, st in enumerate(ev) if _is_call(st, "data_cache.append", 1) and P.dotted(st.value.args[0]) == "row"]
    ifs = [i for i, st in enumerate(ev) if isinstance(st, ast.If)]
    if len(appends) != 1 or len(ifs) != 1 or not appends[0] < ifs[0] or ifs[0] != len(ev) - 1:
        raise Unrecognised("_RunWriter.event: expected `data_cache.append(row)` followed by one trailing `if`")
    cache_def = [st for st in ev if isinstance(st, ast.Assign) and P.dotted(st.targets[0]) == "data_cache"]
    if not (len(cache_def) == 1 and ast.unparse(cache_def[0].value) == "self._internal_data_cache[desc_name]"):
        raise Unrecognised("_RunWriter.event: data_cache is not self._internal_data_cache[desc_name]")
    iff = ev[ifs[0]]
    if iff.orelse:
        raise Unrecognised("_RunWriter.event: else branch")
    flush_cond = _tr(iff.test, {"len(data_cache)": "LEN", "self._batch_size": "BATCH"}, {"LEN": "len", "BATCH": "batch"})
    body = iff.body
    ev_writes = len(body) >= 1 and _is_call(body[0], "self._write_internal_data") and P.dotted(body[0].value.args[0]) == "data_cache"
    ev_clears = len(body) == 2 and _is_call(body[1], "data_cache.clear", 0)
    if not ev_writes or len(body) > 2 or (len(body) == 2 and not ev_clears):
        raise Unrecognised("_RunWriter.event: flush branch is not `write(data_cache); data_cache.clear()`")
    facts["event"] = {"flush_cond": flush_cond, "clears": ev_clears, "at": f"{TW}:{iff.lineno}"}
    # ---- stop
    st_body = P.body_wo_doc(meth["stop"])
    rows_loop = ext_loop = None
    for st in st_body:
        if isinstance(st, ast.For) and ast.unparse(st.iter) == "self._internal_data_cache.items()":
            rows_loop = st
        if isinstance(st, ast.For) and ast.unparse(st.iter) == "self._external_data_cache.values()":
            ext_loop = st
    stop_flush = stop_clear = False
    if rows_loop is not None:
        b = rows_loop.body
        if not (len(b) == 1 and isinstance(b[0], ast.If) and P.dotted(b[0].test) == "data_cache" and not b[0].orelse):
            raise Unrecognised("_RunWriter.stop: rows loop body is not `if data_cache:`")
        bb = b[0].body
        stop_flush = len(bb) >= 1 and _is_call(bb[0], "self._write_internal_data") and P.dotted(bb[0].value.args[0]) == "data_cache"
        stop_clear = len(bb) == 2 and _is_call(bb[1], "data_cache.clear", 0)
        if not stop_flush or len(bb) > 2 or (len(bb) == 2 and not stop_clear):
            raise Unrecognised("_RunWriter.stop: rows flush is not `write(data_cache); data_cache.clear()`")
    stop_ext = False
    if ext_loop is not None:
        b = ext_loop.body
        stop_ext = len(b) == 1 and _is_call(b[0], "self._write_external_data", 1) and P.dotted(b[0].value.args[0]) == P.dotted(ext_loop.target)
        if not stop_ext:
            raise Unrecognised("_RunWriter.stop: external loop body")
    facts["stop"] = {"flushes_rows": stop_flush, "clears_rows": stop_clear, "flushes_ext": stop_ext, "at": f"{TW}:{meth['stop'].lineno}"}
    # ---- stream_datum
    sd = P.body_wo_doc(meth["stream_datum"])
    if not (len(sd) == 3 and isinstance(sd[0], ast.If) and isinstance(sd[1], ast.Assign) and isinstance(sd[2], ast.If)):
        raise Unrecognised("_RunWriter.stream_datum: statement shape")
    first = sd[0]
    if not (len(first.body) == 2 and _is_call(first.body[0], "self._write_external_data", 1) and P.dotted(first.body[0].value.args[0]) == "doc" and isinstance(first.body[1], ast.Return) and not first.orelse):
        raise Unrecognised("_RunWriter.stream_datum: immediate branch")
    immediate = _tr(first.test, {"self._batch_size": "BATCH"}, {"BATCH": "batch"})
    if not (P.dotted(sd[1].targets[0]) == "sres_uid" and ast.unparse(sd[1].value) == "doc['stream_resource']"):
        raise Unrecognised("_RunWriter.stream_datum: cache key is not doc['stream_resource']")
    main = sd[2]
    if not (isinstance(main.test, ast.NamedExpr) and ast.unparse(main.test.value) == "self._external_data_cache.pop(sres_uid, None)" and main.test.target.id == "cached_stream_datum_doc"):
        raise Unrecognised("_RunWriter.stream_datum: cache pop")
    if not (len(main.orelse) == 1 and ast.unparse(main.orelse[0]) == "self._external_data_cache[sres_uid] = doc"):
        raise Unrecognised("_RunWriter.stream_datum: first datum is not cached")
    if not (len(main.body) == 1 and isinstance(main.body[0], ast.Try)):
        raise Unrecognised("_RunWriter.stream_datum: try")
    tr_ = main.body[0]
    if not (len(tr_.handlers) == 1 and P.dotted(tr_.handlers[0].type) == "ValueError" and not tr_.orelse and not tr_.finalbody):
        raise Unrecognised("_RunWriter.stream_datum: except clause")
    hb = tr_.handlers[0].body
    if [ast.unparse(x) for x in hb] != ["self._write_external_data(cached_stream_datum_doc)", "self._write_external_data(doc)"]:
        raise Unrecognised("_RunWriter.stream_datum: except body")
    tb = tr_.body
    if not (len(tb) == 2 and ast.unparse(tb[0]) == "_doc = concatenate_stream_datums(cached_stream_datum_doc, doc)" and isinstance(tb[1], ast.If)):
        raise Unrecognised("_RunWriter.stream_datum: try body")
    inner = tb[1]
    if [ast.unparse(x) for x in inner.body] != ["self._write_external_data(_doc)"] or [ast.unparse(x) for x in inner.orelse] != ["self._external_data_cache[sres_uid] = _doc"]:
        raise Unrecognised("_RunWriter.stream_datum: threshold branches")
    ext_flush = _tr(inner.test, {"_doc['indices']['stop']": "I1", "_doc['indices']['start']": "I0", "self._batch_size": "BATCH"}, {"I0": "i0", "I1": "i1", "BATCH": "batch"})
    facts["stream_datum"] = {"immediate": immediate, "flush_cond": ext_flush, "at": f"{TW}:{meth['stream_datum'].lineno}"}
    facts["BATCH_SIZE"] = bs
    b = lambda x: "true" if x else "false"  # noqa: E731
    out = [
        "-- GENERATED by harness/props/C46.py from src/bluesky/callbacks/tiled_writer.py (class _RunWriter) -- do not edit.",
        "set_option linter.unusedVariables false",
        "namespace BlueskyVerif.TiledWriter",
        "",
        f"def defaultBatchSize : Int := {bs}",
        "/-- `event`: the test after `data_cache.append(row)` -/",
        f"def flushCond (len batch : Int) : Bool := {flush_cond}",
        "/-- `event`: `data_cache.clear()` follows the write -/",
        f"def eventClears : Bool := {b(ev_clears)}",
        "/-- `stop`: `for ... in self._internal_data_cache.items(): if data_cache: write; clear` -/",
        f"def stopFlushesRows : Bool := {b(stop_flush)}",
        f"def stopClearsRows : Bool := {b(stop_clear)}",
        "/-- `stop`: `for d in self._external_data_cache.values(): self._write_external_data(d)` -/",
        f"def stopFlushesExt : Bool := {b(stop_ext)}",
        "/-- `stream_datum`: write immediately when ... -/",
        f"def immediateCond (batch : Int) : Bool := {immediate}",
        "/-- `stream_datum`: write the concatenated datum when ... (else keep it cached) -/",
        f"def extFlushCond (i0 i1 batch : Int) : Bool := {ext_flush}",
        "",
        "end BlueskyVerif.TiledWriter",
        "",
    ]
    C.write_if_changed(C.LEAN / "BlueskyVerif" / "IO" / "TiledWriterGenerated.lean", "\n".join(out))
    return facts


# ============================================================================ real implementation (in-memory tiled)
_TILED = {}
_CALLS = []


def _tiled():
    """The in-memory catalog exactly as src/bluesky/tests/test_tiled_writer.py builds it (fixtures catalog/app/context/client)."""
    if _TILED:
        return _TILED
    warnings.simplefilter("ignore")
    import atexit
    import logging
    import shutil

    import tiled.catalog
    import tiled.client as tc
    import tiled.server.app

    from bluesky.callbacks.tiled_writer import _RunWriter

    logging.getLogger("tiled").setLevel(logging.ERROR)
    logging.getLogger("httpx").setLevel(logging.ERROR)
    tmp = tempfile.mkdtemp(prefix="verif_c46_")
    catalog = tiled.catalog.in_memory(writable_storage={"filesystem": tmp, "sql": f"duckdb:///{tmp}/test.db"}, readable_storage=[tmp])
    app = tiled.server.app.build_app(catalog)
    context = tc.Context.from_app(app)
    context.__enter__()
    client = tc.from_context(context)
    # external file the stream resources point to (only its registration is exercised)
    try:
        import h5py
        import numpy as np

        with h5py.File(os.path.join(tmp, "dataset.h5"), "w") as f:
            f.create_group("entry").create_group("data").create_dataset("data_1", data=np.arange(400, dtype="float64"))
    except Exception:  # noqa: BLE001
        pass
    # observation wrappers (inside the harness process; /repo is not touched)
    if not getattr(_RunWriter, "_verif_wrapped", False):
        orig_int, orig_ext = _RunWriter._write_internal_data, _RunWriter._write_external_data

        def wi(self, data_cache, desc_node):
            _CALLS.append(("int", self.root_node.item["id"], desc_node.item["id"], [r["seq_num"] for r in data_cache]))
            return orig_int(self, data_cache, desc_node)

        def we(self, doc):
            _CALLS.append(("ext", self.root_node.item["id"], doc["stream_resource"], {"uid": doc["uid"], "i0": doc["indices"]["start"], "i1": doc["indices"]["stop"], "s0": doc["seq_nums"]["start"], "s1": doc["seq_nums"]["stop"]}))
            return orig_ext(self, doc)

        _RunWriter._write_internal_data, _RunWriter._write_external_data = wi, we
        _RunWriter._verif_wrapped = True

    def _close():
        try:
            context.__exit__(None, None, None)
        except Exception:  # noqa: BLE001
            pass
        shutil.rmtree(tmp, ignore_errors=True)

    atexit.register(_close)
    _TILED.update(client=client, tmp=tmp, n=0)
    return _TILED


def _val(key, kind, seq):
    return {"number": seq * 0.5, "integer": seq * 3, "string": f"{key}{seq}", "array": [seq, seq + 1]}[kind]


def build_docs(case, uid):
    """abstract case -> real documents (deterministic) + the abstract op list for the model"""
    docs = [("start", {"uid": uid, "time": 1.0, "scan_id": 7, "plan_name": "verif", "md": {"batch": case["batch"]}})]
    streams = case["streams"]
    desc_uid = {}
    seq = {}

    def descriptor(si, gen):
        s = streams[si]
        data_keys = {k: {"source": "SIM:" + k, "dtype": kind, "shape": [] if kind != "array" else [2]} for k, kind in s["keys"].items()}
        objs = {"dev": list(s["keys"])}
        for k in s["ext"]:
            data_keys[k] = {"source": "file", "dtype": "number", "dtype_numpy": "<f8", "shape": [1], "external": "STREAM:", "object_name": "cam"}
            objs.setdefault("cam", []).append(k)
        u = f"{uid}-d{si}-{gen}"
        desc_uid[si] = u
        conf = {o: {"data": {}, "timestamps": {}, "data_keys": {}} for o in objs}
        return ("descriptor", {"uid": u, "name": s["name"], "run_start": uid, "time": 1.5, "data_keys": data_keys, "object_keys": objs, "configuration": conf, "hints": {}})

    for si, s in enumerate(streams):
        docs.append(descriptor(si, 0))
        seq[si] = 0
        for k in s["ext"]:
            docs.append(("stream_resource", {"uid": f"{uid}-sr{si}-{k}", "data_key": k, "mimetype": "application/x-hdf5", "uri": "file://localhost/" + _tiled()["tmp"].lstrip("/") + "/dataset.h5", "parameters": {"dataset": "/entry/data/data_1", "chunk_shape": [100]}, "run_start": uid}))

    def event(si):
        seq[si] += 1
        s = streams[si]
        n = seq[si]
        return {"uid": f"{uid}-e{si}-{n}", "time": 2.0 + n, "seq_num": n, "descriptor": desc_uid[si], "data": {k: _val(k, kind, n) for k, kind in s["keys"].items()}, "timestamps": {k: 2.0 + n + 0.25 for k in s["keys"]}, "filled": {}}

    ops = []
    nsd = 0
    for op in case["ops"]:
        if op[0] == "event":
            e = event(op[1])
            docs.append(("event", e))
            ops.append({"op": "event", "stream": streams[op[1]]["name"], "seq": e["seq_num"]})
        elif op[0] == "page":
            es = [event(op[1]) for _ in range(op[2])]
            keys = list(streams[op[1]]["keys"])
            docs.append(("event_page", {"uid": [e["uid"] for e in es], "time": [e["time"] for e in es], "seq_num": [e["seq_num"] for e in es], "descriptor": desc_uid[op[1]], "data": {k: [e["data"][k] for e in es] for k in keys}, "timestamps": {k: [e["timestamps"][k] for e in es] for k in keys}, "filled": {}}))
            ops += [{"op": "event", "stream": streams[op[1]]["name"], "seq": e["seq_num"]} for e in es]
        elif op[0] == "sdat":
            _, si, k, i0, i1 = op
            nsd += 1
            d = {"uid": f"{uid}-sr{si}-{k}/{nsd}", "stream_resource": f"{uid}-sr{si}-{k}", "descriptor": desc_uid[si], "indices": {"start": i0, "stop": i1}, "seq_nums": {"start": i0 + 1, "stop": i1 + 1}}
            docs.append(("stream_datum", d))
            ops.append({"op": "sdat", "uid": d["uid"], "sres": d["stream_resource"], "desc": d["descriptor"], "i0": i0, "i1": i1, "s0": i0 + 1, "s1": i1 + 1})
        elif op[0] == "redescribe":
            docs.append(descriptor(op[1], seq[op[1]] + 1000))
        else:
            raise ValueError(op)
    docs.append(("stop", {"uid": uid + "-stop", "time": 99.0, "run_start": uid, "exit_status": "success", "reason": "", "num_events": {streams[si]["name"]: seq[si] for si in seq}}))
    return docs, ops


def run_impl(case):
    """Write the run with the real TiledWriter into the real in-memory catalog and read it back."""
    from bluesky.callbacks.tiled_writer import TiledWriter

    T = _tiled()
    T["n"] += 1
    uid = f"verif-{os.getpid()}-{T['n']:05d}"
    docs, ops = build_docs(case, uid)
    client = T["client"]
    tw = TiledWriter(client) if case["batch"] is None else TiledWriter(client, batch_size=case["batch"])
    del _CALLS[:]
    err = None
    try:
        for name, doc in docs:
            tw(name, copy.deepcopy(doc))
    except Exception as e:  # noqa: BLE001
        err = f"{type(e).__name__}: {str(e)[:200]}"
    calls = [c for c in _CALLS if c[1] == uid]
    obs = {"err": err, "parts": {}, "ext": {}, "tables": {}, "arrays": {}, "meta": {}}
    for kind, _, key, payload in calls:
        if kind == "int":
            obs["parts"].setdefault(key, []).append(payload)
        else:
            obs["ext"].setdefault(key, []).append(payload)
    if err is None:
        run = client[uid]
        md = dict(run.metadata)
        obs["meta"] = {"start": md.get("start"), "stop": md.get("stop")}
        for s in case["streams"]:
            if s["name"] not in run:
                continue
            node = run[s["name"]]
            base = node.base
            if "internal" in base:
                df = base["internal"].read()
                obs["tables"][s["name"]] = {c: [x.tolist() if hasattr(x, "tolist") else x for x in df[c].tolist()] for c in df.columns}
            for k in s["ext"]:
                if k in base:
                    obs["arrays"][f"{s['name']}/{k}"] = list(base[k].shape)
    return obs, docs, ops, uid


def oracle(case, obs, docs):
    """C46 on what the real catalog holds after the stop document."""
    bad = []
    b = case["batch"]
    bcls = "default" if b is None else ("le1" if b <= 1 else "gt1")
    if obs["err"]:
        bad.append((f"writer-raised:batch-{bcls}", f"TiledWriter raised {obs['err']}"))
        return bad
    start = next(d for n, d in docs if n == "start")
    stop = next(d for n, d in docs if n == "stop")
    if obs["meta"].get("start") != json.loads(json.dumps(start)):
        bad.append(("metadata:start", f"container start metadata {obs['meta'].get('start')} != RunStart"))
    if obs["meta"].get("stop") != json.loads(json.dumps(stop)):
        bad.append(("metadata:stop", f"container stop metadata {obs['meta'].get('stop')} != RunStop"))
    # events per stream, pages unpacked
    per = {}
    for n, d in docs:
        if n == "event":
            per.setdefault(d["descriptor"], []).append(d)
        elif n == "event_page":
            for i in range(len(d["seq_num"])):
                per.setdefault(d["descriptor"], []).append({"seq_num": d["seq_num"][i], "time": d["time"][i], "data": {k: v[i] for k, v in d["data"].items()}, "timestamps": {k: v[i] for k, v in d["timestamps"].items()}})
    name_of = {d["uid"]: d["name"] for n, d in docs if n == "descriptor"}
    by_stream = {}
    for n, d in docs:  # arrival order across descriptors of one stream
        if n in ("event", "event_page"):
            pass
    order = []
    for n, d in docs:
        if n == "event":
            order.append((name_of[d["descriptor"]], d))
        elif n == "event_page":
            for i in range(len(d["seq_num"])):
                order.append((name_of[d["descriptor"]], {"seq_num": d["seq_num"][i], "time": d["time"][i], "data": {k: v[i] for k, v in d["data"].items()}, "timestamps": {k: v[i] for k, v in d["timestamps"].items()}}))
    for nm, e in order:
        by_stream.setdefault(nm, []).append(e)
    for s in case["streams"]:
        evs = by_stream.get(s["name"], [])
        tab = obs["tables"].get(s["name"])
        if not evs:
            if tab and len(tab.get("seq_num", [])):
                bad.append((f"rows:invented:batch-{bcls}", f"stream {s['name']} has no events but the table has {len(tab['seq_num'])} rows"))
            continue
        want = [e["seq_num"] for e in evs]
        got = list(tab["seq_num"]) if tab else []
        if got != want:
            n, bb = len(want), (b if b is not None else 10000)
            if len(got) < len(want) and got == want[: len(got)]:
                kind = "last-partial-batch-lost" if (bb > 1 and len(got) == (n // bb) * bb) else "suffix-lost"
            elif len(got) > len(set(got)):
                kind = "duplicated"
            elif sorted(got) == sorted(want):
                kind = "order"
            else:
                kind = "other"
            bad.append((f"rows:{kind}:batch-{bcls}", f"stream {s['name']} batch_size={b}: table seq_nums {got}, events {want}"))
            continue
        for k in s["keys"]:
            col = tab.get(k)
            wantc = [e["data"][k] for e in evs]
            if col != wantc:
                bad.append((f"rows:values:batch-{bcls}", f"stream {s['name']} column {k}: {col} != {wantc}"))
            if tab.get("ts_" + k) != [e["timestamps"][k] for e in evs]:
                bad.append((f"rows:timestamps:batch-{bcls}", f"stream {s['name']} column ts_{k}"))
        if tab.get("time") != [e["time"] for e in evs]:
            bad.append((f"rows:time:batch-{bcls}", f"stream {s['name']} time column"))
    # arrays
    widths = {}
    for n, d in docs:
        if n == "stream_datum":
            widths[d["stream_resource"]] = widths.get(d["stream_resource"], 0) + d["indices"]["stop"] - d["indices"]["start"]
    sres = {d["uid"]: d for n, d in docs if n == "stream_resource"}
    for uid_, w in widths.items():
        sr = sres[uid_]
        si = int(uid_.rsplit("-sr", 1)[1].split("-")[0])
        key = f"{case['streams'][si]['name']}/{sr['data_key']}"
        shape = obs["arrays"].get(key)
        if shape is None or shape[0] != w:
            bad.append((f"array-length:batch-{bcls}", f"{key}: array shape {shape}, stream datums received cover {w} rows (batch_size={b})"))
    return bad


# ============================================================================ generators
# (list-valued columns are left out: how tiled's SQL storage returns them is a matter of the trusted storage layer)
_KEYSETS = [{"x": "number"}, {"x": "number", "y": "integer"}, {"x": "number", "label": "string"}, {"y": "integer", "label": "string", "z": "number"}]


def gen_case(rng, batch=None, n_streams=None, n_events=None):
    ns = n_streams or rng.choice([1, 1, 2, 3])
    streams = []
    for i in range(ns):
        streams.append({"name": ["primary", "baseline", "monitor"][i], "keys": dict(rng.choice(_KEYSETS)), "ext": (["det"] if rng.random() < 0.5 else [])})
    total = n_events if n_events is not None else rng.choice([0, 1, 2, 3, 5, 7, 9])
    ops = []
    nxt = {i: 0 for i in range(ns) if streams[i]["ext"]}
    left = total
    while left > 0:
        si = rng.randrange(ns)
        if rng.random() < 0.25 and left >= 2:
            n = rng.randint(2, min(4, left))
            ops.append(["page", si, n])
            left -= n
            produced = n
        else:
            ops.append(["event", si])
            left -= 1
            produced = 1
        if si in nxt:
            r = rng.random()
            w = rng.choice([1, 1, 2, 3]) if produced == 1 else produced
            if r < 0.75:
                ops.append(["sdat", si, "det", nxt[si], nxt[si] + w])
                nxt[si] += w
            elif r < 0.85:  # a gap: concatenation fails, both are written separately
                ops.append(["sdat", si, "det", nxt[si] + 2, nxt[si] + 2 + w])
                nxt[si] += 2 + w
        if rng.random() < 0.06:
            ops.append(["redescribe", si])
    if batch is None:
        batch = rng.choice([0, 1, 1, 2, 2, 3, 4, 5, max(total, 1), total + 1, 10000, None])
    return {"batch": batch, "streams": streams, "ops": ops}


def exhaustive(n):
    """one stream, n events, every batch size 0..n+1 (and the default)"""
    for b in [*range(0, n + 2), None]:
        ops = []
        for i in range(n):
            ops.append(["event", 0])
            ops.append(["sdat", 0, "det", i, i + 1])
        yield {"batch": b, "streams": [{"name": "primary", "keys": {"x": "number", "y": "integer"}, "ext": ["det"]}], "ops": ops}


def _cases(ctx):
    corpus = C.VERIF / "corpus" / "C46"
    if corpus.exists():
        for f in sorted(corpus.glob("*.json")):
            yield json.loads(f.read_text())["case"]
    big = ctx.tier == "thorough" or ctx.deep
    yield from exhaustive(5 if big else 3)
    if big:
        yield from exhaustive(2)
    for _ in range(ctx.budget(30, 280)):
        yield gen_case(ctx.rng)


def run(ctx, model=True):
    res = C.Result(rule="cases = corpus + one stream of n events+stream datums at EVERY batch size 0..n+1 and the default (n=3; thorough 5 and 2) "
                        "+ random runs: 1-3 streams, interleaved events / event pages, internal columns of 4 dtypes, external stream datums "
                        "(contiguous, with gaps, re-described streams), batch sizes 0,1,2,..,n,n+1,10000,default; every run is written into the REAL "
                        "in-memory tiled catalog and read back; non-trivial = some partition is flushed before stop, a page, a failed concatenation, or more than one stream")
    reqs, meta = [], []
    for case in _cases(ctx):
        obs, docs, ops, uid = run_impl(case)
        for sig, what in oracle(case, obs, docs):
            res.violations.append(C.Violation(sig, what, case))
        b = case["batch"]
        res.seen(case, bool(len(case["streams"]) > 1 or any(o[0] in ("page", "redescribe") for o in case["ops"]) or any(len(p) > 1 for p in obs["parts"].values()) or any(len(v) > 1 for v in obs["ext"].values())))
        res.count("batch:" + ("default" if b is None else ("<=1" if b <= 1 else (">=events" if b >= sum(1 for o in ops if o["op"] == "event") else "partial"))))
        res.count(f"streams:{len(case['streams'])}")
        res.count("events:" + str(sum(1 for o in ops if o["op"] == "event")))
        streams = [s["name"] for s in case["streams"]]
        sres = sorted({o["sres"] for o in ops if o["op"] == "sdat"})
        canon = {"parts": {s: obs["parts"].get(s, []) for s in streams}, "ext": {k: obs["ext"].get(k, []) for k in sres}}
        reqs.append(json.dumps({"batch": 10000 if b is None else b, "ops": ops, "streams": streams, "sres": sres}))
        meta.append((case, canon, uid))
    if model:
        replies = C.lean_batch(DRIVER, reqs)
        for (case, canon, uid), rep in zip(meta, replies):
            m = json.loads(rep)
            mm = {"parts": m["parts"], "ext": m["ext"]}
            if mm != canon or any(v != 0 for v in m["left"].values()):
                res.disagreements.append({"case": case, "model": m, "impl": canon})
        for i in (0, len(meta) // 2, len(meta) - 1):
            res.samples.append({"case": meta[i][0], "impl": meta[i][1], "model": json.loads(replies[i])})
    else:
        res.samples.append({"case": meta[-1][0], "impl": meta[-1][1]})
    res.notes.append("BATCH_SIZE default is used as 10000 in the model request when the case says batch=None (extracted constant is in the evidence facts)")
    return res


def run_impl_only(ctx):
    return run(ctx, model=False)


def replay(ctx, data):
    res = C.Result()
    case = data.get("case")
    if not case:
        return res
    obs, docs, ops, uid = run_impl(case)
    for sig, what in oracle(case, obs, docs):
        res.violations.append(C.Violation(sig, what, case))
    return res
