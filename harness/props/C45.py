"""C45 -- Collected stream assets line up with the stream's event numbering.

Tie: (T) Bundler/Generated.lean: `min_index = min(...)` (collectIndexAgg), `+= indices_difference`,
`StreamRange(start=counter, stop=counter + difference)`, the commit in collect's `finally`;
(C) fake detectors obeying the WritesStreamAssets contract (harness/bundler_fakes.py::Det, mirrored by
`detCollect` in the model) with arbitrary per-detector index progressions and collect cadences, several
detectors together / alone / several streams, plus scripted one-shot contract violations (width mismatch,
re-sent stream_resource, pre-filled seq_nums / descriptor, unknown stream_resource) that must be rejected
the same way by model and implementation.
"""
from __future__ import annotations

import bundler_gen as G
import bundler_props as P
import re_probes as RP

MANIFEST = {
    "text": "FULL under the device contract (written down as the model's detector `detCollect`, the fake used on the real code). "
    "Theorems: C45_contiguous_from_one (after ANY admissible history a non-raising collect stamps every datum with [c, c+width) where "
    "c = 1 + total width handed out in the stream so far when the stream got no bundle events -- first collect at 1, each next where "
    "the previous ended, rewinds notwithstanding -- and advances the counter by the collect's width), C45_same_min_index (for every "
    "state, detectors collected together all stop at the minimum of their indices, which is one of them), C45_indices_contiguous "
    "(contract: index ranges start at the last reported index, 0 initially), C45_num_events_equals_frames (num_events of a "
    "collect-only stream = sum of the widths of its collects).",
    "note": "Trusted: Lean kernel; bundler_extract.py; the hand transcription of collect/_pack_external_assets tied by the correspondence "
    "run; the detector contract is an assumption about devices (the fake implements it; violations are generated separately and "
    "must raise). Old-style flyers and Event(Page)Collectable devices are not modelled.",
    "technique": "Lean 4 proof (loop invariant of _pack_external_assets, counter-machine refinement from C05, contract lemmas) + translator + correspondence run",
}
LEAN_MODULES = ["BlueskyVerif.Props.C45"]
DRIVER_MODULES = P.DRIVER_MODULES
DRIVER = "Drivers/C45.lean"
ASSUMPTIONS = P.ASSUMPTIONS + ["detectors obey the WritesStreamAssets contract as implemented by harness/bundler_fakes.py::Det (get_index monotone; collect_asset_docs(index) yields stream_resource once and datums [last, index))"]
TRUSTED = P.TRUSTED
RULE = "cases = corpus + exhaustive (two detectors x all pairs of index progressions with steps 0..2 over 3 collects) + random sequences of declare_stream / advance / collect (together, alone, several streams, with pauses and scripted contract violations); non-trivial = some message raised, or the sequence contains pause/resume/configure/monitor update/collect"

extract = P.extract


def run(ctx, model=True):
    lim = 3 if (ctx.tier == "thorough" or ctx.deep) else 2
    res = P.run(ctx, "C45", "C45", 900, 20000, exhaustive=(lambda: G.exhaustive_dets(lim),), model=model, rule=RULE)
    RP.add_to(res, ["stream-assets"])
    return res


def run_impl_only(ctx):
    return run(ctx, model=False)


def replay(ctx, data):
    r = RP.replay(data)
    if r is not None:
        return r
    return P.replay(ctx, "C45", data)
