"""C24 -- relative moves are offsets from the start and are undone at the end.

Tie: (T) harness/pairedextract.py re-reads relative_set_wrapper / reset_positions_wrapper /
__read_and_stash_a_motor / rel_set / mvr / mv / abs_set / make_decorator and the decorator stacks of every rel_*
plan in plans.py: the operator of `rewrite_pos`, the order `reset` walks `initial_positions`, the order in which the
position sources are tried go to lean/BlueskyVerif/Gen/GeneratedRelative.lean (the Lean models in Gen/Relative.lean
are parametrised by them); every other statement is compared with the transcribed shape.
(C) the REAL wrappers / stubs around real generators compiled from plan ASTs are driven WITHOUT a RunEngine by
scripts of sends / throws / close on fake motors (.name, .parent=None; position from `locate`, `.position` or
`read`); `read` / `locate` messages of the wrappers are answered with a reading / location carrying the number of
the script; the same case goes through the Lean models; canonical traces are compared.  The real rel_* scans
(rel_scan, rel_list_scan, rel_grid_scan, rel_list_grid_scan, rel_log_scan, rel_spiral, rel_spiral_fermat, rel_spiral_square; not rel_adaptive_scan, which needs live detector values) are consumed
the same way with exceptions thrown at the k-th message; on them only the oracle is evaluated.
Oracle: the property on the implementation's trace.
"""
from __future__ import annotations

import json
from concurrent.futures import ThreadPoolExecutor

import common as C
import re_probes as RP
import genextract
import pairedextract
import plangen as G
from props import C23 as B

MANIFEST = {
    "text": "FULL for simple movables (pseudo-positioners are out of the model).  Theorems (Props/C24.lean), for ANY wrapped plan "
    "behaviour and ANY script of responses / thrown exceptions (no GeneratorExit thrown in the middle; close() at the end "
    "allowed): relative_set_wrapper's trace is the plan's trace in which, for every eligible device, the FIRST `set` is "
    "preceded by exactly one query of the initial position (locate / read; none when the device has a .position) and every "
    "`set d x` -- the first one included -- goes out as `set d (init d + x)`, all other messages unchanged "
    "(C24_relative_trace, C24_relative_set_is_offset, C24_relative_init_once); reset_positions_wrapper records the initial "
    "position of every device it sees set, once, and on every exit but GeneratorExit/close emits `set d (init d)` for each "
    "in recording order with one group and then `wait` on that group (C24_reset_trace, C24_reset_messages); rel_set, mvr and "
    "the rel_* scans are these compositions (C24_rel_set_mvr).",
    "note": "Trusted: Lean kernel; the shared generator / plan_mutator / msg_mutator / finalize models; "
    "harness/pairedextract.py, genextract.py, plangen.py; readings/locations are reduced to the one number the wrapper uses; the "
    "tuple mv returns is not modelled; the absolute scans inside rel_* plans are arbitrary behaviours in the theorems and are "
    "run for real (oracle only) in the check.",
    "technique": "Lean 4 proof (trace semantics of plan_mutator with a closure variable + msg_mutator + finalize_wrapper, "
    "induction over the script) + extracted facts + exhaustive/random correspondence of message traces against the real "
    "wrappers, stubs and rel_* plans driven without a RunEngine",
}
LEAN_MODULES = ["BlueskyVerif.Props.C24"]
DRIVER_MODULES = ["BlueskyVerif.Gen.Driver", "BlueskyVerif.Gen.Relative"]
DRIVER = "Drivers/C24.lean"
ASSUMPTIONS = [
    "movables are simple devices (no pseudo-positioners: `coupled_parents` stays empty); `set` messages carry a device and exactly one positional argument",
    "answers to the wrappers' `locate` / `read` are None or well-formed locations / readings (one value)",
    "no GeneratorExit is thrown into a wrapper in the middle of a script (close() at the end is covered)",
    "positions are integers in the model and in the generated cases (the wrappers only add them)",
    "statements are about `set` message OBJECTS yielded for the first time (plan_mutator passes an object it has seen through unprocessed)",
]
TRUSTED = ["harness/pairedextract.py", "harness/genextract.py", "harness/plangen.py (AST -> Python source)"]

WRAPPERS = ["relative_set_wrapper", "reset_positions_wrapper", "rel_scan", "rel_set", "mvr"]


def extract(ctx):
    facts = {}
    facts.update(genextract.extract_mutators_file(ctx))
    facts.update(genextract.extract_wrappers_file(ctx))
    facts.update(pairedextract.extract_paired_file(ctx))
    facts.update(pairedextract.extract_relative_file(ctx))
    return facts


# ----------------------------------------------------------------------------- fakes


class Motor(B.FakeDev):
    # `Movable` + `Readable` for bluesky's argument parsing; never called: there is no RunEngine
    def set(self, value):  # noqa: A003
        raise AssertionError("no RunEngine here")

    def read(self):
        raise AssertionError("no RunEngine here")

    def describe(self):
        raise AssertionError("no RunEngine here")


class PosMotor(Motor):
    def __init__(self, n, position):
        super().__init__(n)
        self.position = position


class LocMotor(Motor):
    def locate(self):
        raise AssertionError("no RunEngine here")


class LocPosMotor(LocMotor):
    def __init__(self, n, position):
        super().__init__(n)
        self.position = position


def make_motor(row):
    d, loc, haspos, pos = row
    if loc and haspos:
        return LocPosMotor(d, pos)
    if loc:
        return LocMotor(d)
    if haspos:
        return PosMotor(d, pos)
    return Motor(d)


class World(B.World):
    def __init__(self, case):
        super().__init__(case)
        for row in case.get("motors", []):
            self.devs[row[0]] = make_motor(row)

    def make(self, _cmd, k):
        if k in self.table:
            cmd, obj, num = self.table[k]
            o = None if obj is None else self.dev(obj)
            if cmd == "set":
                # the kwargs survive rewrite_pos: the oracle reads the requested offset and the object's identity from them
                self.uid = getattr(self, "uid", 0) + 1
                m = self.Msg(cmd, o, num, rel=num, uid=self.uid)
            else:
                m = self.Msg(cmd, o) if num is None else self.Msg(cmd, o, num)
        else:
            m = self.Msg("null", None, k)
        self.plan_ids[id(m)] = m
        return m


def build(case, world, log=None):
    import bluesky.plan_stubs as bps
    import bluesky.preprocessors as bpp

    w = case["wrapper"]
    devs = None if case.get("devices") is None else [world.dev(d) for d in case["devices"]]
    if w in ("relative_set_wrapper", "reset_positions_wrapper", "rel_scan"):
        plan = world.genfunc(case["plan"])()
        if log is not None:
            plan = B.logged(plan, log, world)
        if w == "relative_set_wrapper":
            return bpp.relative_set_wrapper(plan, devs)
        if w == "reset_positions_wrapper":
            return bpp.reset_positions_wrapper(plan, devs)

        @bpp.reset_positions_decorator(devs)
        @bpp.relative_set_decorator(devs)
        def inner():
            return (yield from plan)

        def outer():
            return (yield from inner())

        return outer()
    if w == "rel_set":
        g = case.get("group")
        return iter(bps.rel_set(world.dev(case["d"]), case["x"], group=None if g is None else f"g{g}", wait=case["wait"]))
    if w == "mvr":
        args = []
        for d, x in case["pairs"]:
            args += [world.dev(d), x]
        return iter(bps.mvr(*args))
    raise ValueError(w)


def canon_msg(m, world):
    o = B.canon_msg(m, world)
    if o[1] == "wait":
        o[3] = None
    return o


def drive(case, script, instrument=False):
    """-> (raw trace, origins, log, rels) ; rels[i] = the `rel` kwarg of a set message (None otherwise)"""
    import contextlib
    import io

    with contextlib.redirect_stdout(io.StringIO()):
        return _drive(case, script, instrument)


def _drive(case, script, instrument):
    world = World(case)
    log = [] if instrument else None
    gen = build(case, world, log)
    trace, origins, rels = [], [], []
    uids = set()
    pending = None
    for step, cmd in enumerate(script):
        world.step = step
        try:
            if cmd[0] == "send":
                v = cmd[1]
                if v is not None and pending is not None and id(pending) not in world.plan_ids:
                    if pending.command == "read":
                        v = {pending.obj.name: {"value": v, "timestamp": 0.0}}
                    elif pending.command == "locate":
                        v = {"setpoint": v, "readback": v}
                m = gen.send(v)
            elif cmd[0] == "throw":
                m = gen.throw(G.make_exc(cmd[1], cmd[2]))
            elif cmd[0] == "close":
                gen.close()
                trace.append(["closed"])
                origins.append(None)
                rels.append(None)
                pending = None
                continue
            else:
                raise ValueError(cmd)
            trace.append(canon_msg(m, world))
            origins.append("plan" if id(m) in world.plan_ids else "wrapper")
            rel = m.kwargs.get("rel") if m.command == "set" else None
            if rel is not None and (m.kwargs.get("uid") in uids or m.kwargs.get("uid") in world.reyielded_uids):
                rel = ("again", rel)  # the same message object yielded a second time: plan_mutator does not process it again
            uids.add(m.kwargs.get("uid"))
            rels.append(rel)
            pending = m
        except StopIteration as e:
            v = e.value
            trace.append(["ret", None if isinstance(v, tuple) else v])
            origins.append(None)
            rels.append(None)
            pending = None
        except BaseException as e:  # noqa: BLE001
            trace.append(G.canon_exc(e)[:3])
            origins.append(None)
            rels.append(None)
            pending = None
    world.step = len(script)
    out_log = [e for e in log if e[3] < len(script)] if log is not None else None
    del gen
    return trace, origins, out_log, rels


# ----------------------------------------------------------------------------- the property on the implementation's trace


def _kind(case, d):
    for row in case.get("motors", []):
        if row[0] == d:
            return ("locate" if row[1] else ("attribute" if row[2] else "read")), row[3]
    return "read", 0


def oracle(case, script, trace, origins, log, rels):
    w = case["wrapper"]
    bad = []
    k = 0
    while k < len(script) and k < len(trace) and script[k][0] == "send" and script[k][1] is not None and trace[k][:2] == ["raise", "TypeError"]:
        k += 1
    if k:
        script, trace, origins, rels = script[k:], trace[k:], origins[k:], rels[k:]
        log = [e[:3] + [e[3] - k] for e in log] if log else log
    death = B._death(script, trace)
    eligible = None if case.get("devices") is None else set(case["devices"])
    if w == "mvr":
        eligible = {d for d, _ in case["pairs"]}
    if w == "rel_set":
        eligible = None
    relative = w in ("relative_set_wrapper", "rel_set", "mvr")
    reset = w == "reset_positions_wrapper"
    if w == "rel_scan":
        relative = reset = True
    # ---- walk the trace: which initial positions were obtained, how
    init = {}  # device -> initial position as the (single / inner) relative layer knows it
    init_reset = {}  # ... as the reset layer knows it (recording order = dict order)
    queries = {}
    for i, o in enumerate(trace):
        if o[0] != "yld":
            continue
        nxt = script[i + 1] if i + 1 < len(script) else None
        if origins[i] == "wrapper" and o[1] in ("read", "locate"):
            d = o[2]
            kind, _ = _kind(case, d)
            if o[1] != kind:
                bad.append((f"{w}:wrong-position-source", f"dev{d} is a {kind} device but the wrapper issued {o[1]}"))
            if nxt is not None and nxt[0] == "send":
                val = 0 if nxt[1] is None else nxt[1]
                queries.setdefault(d, []).append(val)
                n_layers = (1 if relative else 0) + (1 if reset else 0)
                if len(queries[d]) > n_layers:
                    bad.append((f"{w}:initial-position-obtained-again", f"dev{d}: query number {len(queries[d])} at step {i} (answered); only {n_layers} expected; trace {trace}"))
                if w == "rel_scan":
                    # the inner (relative) layer asks first, then the outer (reset) layer
                    if d not in init:
                        init[d] = val
                    elif d not in init_reset:
                        init_reset[d] = val
                elif relative:
                    init.setdefault(d, val)
                else:
                    init_reset.setdefault(d, val)
        if o[1] == "set" and o[2] is not None and isinstance(rels[i], tuple):
            continue  # re-yielded message object (msgs_seen is keyed by id): outside the property's domain
        if o[1] == "set" and o[2] is not None and rels[i] is not None:
            d = o[2]
            kind, pos = _kind(case, d)
            elig = eligible is None or d in eligible
            if kind == "attribute" and elig:
                if relative:
                    init.setdefault(d, pos)
                if reset:
                    init_reset.setdefault(d, pos)
            if relative:
                if elig:
                    if d not in init:
                        bad.append((f"{w}:set-without-initial-position", f"set on dev{d} at step {i} went out before its initial position was obtained: {o}"))
                    elif o[3] != init[d] + rels[i]:
                        bad.append((f"{w}:set-is-not-initial-plus-offset", f"dev{d}: requested offset {rels[i]}, initial position {init[d]}, commanded {o[3]} (expected {init[d] + rels[i]})"))
                elif o[3] != rels[i]:
                    bad.append((f"{w}:set-on-other-device-changed", f"dev{d} is not in the device list but its set {rels[i]} went out as {o[3]}"))
            elif o[3] != rels[i]:
                bad.append((f"{w}:set-changed", f"reset_positions_wrapper changed a set: {rels[i]} -> {o[3]}"))
            if reset and elig and d not in init_reset:
                bad.append((f"{w}:set-without-recording-initial-position", f"dev{d} set at step {i} but its initial position was not recorded before"))
    if reset:
        wend = B._wrapped_end(dict(case, wrapper="lazily_stage_wrapper"), script, trace, origins, log, ())
        idx = [i for i, o in enumerate(trace) if o[0] == "yld" and origins[i] == "wrapper" and ((o[1] == "set" and rels[i] is None) or o[1] == "wait")]
        downs = [[trace[i][1], trace[i][2], trace[i][3]] for i in idx]
        exp = [["set", d, v] for d, v in init_reset.items()] + [["wait", None, None]]
        bad += B._cleanup_checks(w, "reset", downs, idx, exp, wend, script, trace, death)
        groups = {trace[i][4] for i in idx}
        if len(groups) > 1:
            bad.append((f"{w}:reset-messages-not-in-one-group", f"groups {groups}"))
    return bad


# ----------------------------------------------------------------------------- cases

STEP = [["send", 7], ["send", None], ["throw", "E1", 5], ["close"]]
MOTORS = [[0, False, False, 0], [1, False, True, 40], [2, True, False, 0], [3, True, True, 90], [4, False, False, 0]]
ALPHA = [("set", [0, 1, 2, 3, 4], [5, -3, 0]), ("set", [0, 1], [2]), ("read", [0, 4], [None]), ("null", [None], [1]), ("trigger", [4], [None]), ("wait", [None], [None])]


def _assign(rng, ast):
    rows = []
    for k in range(1, G.size(ast) + 3):
        cmd, objs, nums = rng.choice(ALPHA)
        rows.append([k, cmd, rng.choice(objs), rng.choice(nums)])
    return rows


def _rand_script(rng, length, genexit):
    out = [["send", None]] if rng.random() > 0.04 else [rng.choice([["send", 7], ["throw", "E1", 5], ["close"]])]
    while len(out) < length:
        x = rng.random()
        if x < 0.78:
            out.append(["send", rng.choice([None, 7, 7, 8, 100, -20])])
        elif x < 0.96:
            c = rng.choice(["E1", "E2", "RequestStop", "RequestAbort", "RuntimeError", "BaseExc"] + (["GeneratorExit", "PlanHalt"] if genexit else []))
            out.append(["throw", c, 0 if c == "GeneratorExit" else rng.randrange(1, 9)])
        else:
            out.append(["close"])
            break
    return out


def _cases(ctx):
    rng = ctx.rng
    deep = ctx.tier == "thorough" or ctx.deep
    out = []
    for path in sorted((C.VERIF / "corpus" / "C24").glob("*.json")):
        d = json.loads(path.read_text())
        d["scripts"] = d.get("scripts") or [d.pop("script")]
        out.append(("corpus", d))
    L = 6 if deep else 5
    scripts = list(G.enum_scripts(L, STEP))
    plans = [G.renumber(s) for n in range(1, 4 if deep else 3) for s in G.enum_stmts(n)]
    fixed = [[1, "set", 0, 5], [2, "set", 1, -3], [3, "set", 0, 2]]
    for w in ("relative_set_wrapper", "reset_positions_wrapper", "rel_scan"):
        for devs in ([0, 1], None):
            for ast in plans:
                c = {"wrapper": w, "plan": ast, "msgs": fixed, "devices": devs if w != "rel_scan" else [0, 1], "motors": MOTORS}
                c["scripts"] = scripts if G.size(ast) <= 2 else rng.sample(scripts, 80)
                out.append(("exhaustive", c))
            if w == "rel_scan":
                break
    for d in range(4):
        for wait in (False, True):
            for g in (None, 2):
                out.append(("exhaustive", {"wrapper": "rel_set", "d": d, "x": 4, "group": g, "wait": wait, "motors": MOTORS, "scripts": scripts}))
    for pairs in ([[0, 3]], [[1, 2], [2, -5]], [[3, 1], [0, 0], [1, 7]]):
        out.append(("exhaustive", {"wrapper": "mvr", "pairs": pairs, "motors": MOTORS, "scripts": scripts}))
    for _ in range(ctx.budget(700, 10000)):
        w = rng.choice(["relative_set_wrapper", "reset_positions_wrapper", "rel_scan"])
        ast = G.rand_plan(rng, rng.randrange(1, 9))
        devs = rng.choice([None, rng.sample(range(5), rng.randrange(0, 4))])
        if w == "rel_scan" and devs is None:
            devs = [0, 1, 2]
        c = {"wrapper": w, "plan": ast, "msgs": _assign(rng, ast), "devices": devs, "motors": MOTORS}
        c["scripts"] = [_rand_script(rng, rng.randrange(2, 14), genexit=rng.random() < 0.15) for _ in range(6)]
        out.append(("random", c))
    return out


def _lean(cases):
    reqs = [json.dumps(c) for _, c in cases]
    chunk = max(1, (len(reqs) + 5) // 6)
    parts = [reqs[i : i + chunk] for i in range(0, len(reqs), chunk)]
    with ThreadPoolExecutor(max_workers=6) as ex:
        outs = list(ex.map(lambda part: C.lean_batch(DRIVER, part), parts))
    return [json.loads(line) for part in outs for line in part]


def _one(case, s):
    one = {k: v for k, v in case.items() if k != "scripts"}
    one["script"] = s
    return one


def _judge(res, case, s):
    trace, origins, _, rels = drive(case, s)
    if "plan" in case:
        itrace, _, log, _ = drive(case, s, instrument=True)
        if B.canon_trace(itrace) != B.canon_trace(trace):
            res.notes.append(f"instrumented trace differs from plain trace on {json.dumps(_one(case, s))[:300]}")
            log = None
    else:
        log = _stub_log(case, s, trace, origins)
    for sig, text in oracle(case, s, trace, origins, log, rels):
        res.violations.append(C.Violation(sig, f"{case['wrapper']}: {text}", dict(_one(case, s), trace=trace, plan_end=log)))
    return trace, origins, log


def _stub_log(case, script, trace, origins):
    return None


def run(ctx, model=True):
    import warnings

    warnings.simplefilter("ignore")
    G.quiet_unraisable()
    res = C.Result()
    res.rule = (
        "cases = (wrapper, plan AST, decode table payload->message on 5 fake motors of the four kinds read / .position / locate / "
        "locate+.position, device list or None) x scripts.  Corpus; relative_set_wrapper, reset_positions_wrapper and their "
        "rel_* composition around EVERY plan of the grammar with <=2 (quick) / <=3 (thorough) nodes x EVERY script of length 5 / 6 "
        "over {next, send 7, send None, throw E1, close; misuse of the fresh generator}; rel_set for every motor kind x wait x group; "
        "mvr for 1-3 motors; random larger plans (try/finally with yields, nested yield from, loops, raises, shared message objects) "
        "with random tables x random scripts of length 2-13 (sends of None/7/8/100/-20 -- as readings / locations when the wrapper "
        "asked --, throws of E1/E2/RequestStop/RequestAbort/RuntimeError/BaseExc, sometimes GeneratorExit/PlanHalt, close); the real "
        "rel_* scans of bluesky.plans on the fake motors with an exception thrown at the k-th message for every k (oracle only). "
        "Non-trivial: the script throws or closes, or the plan raises."
    )
    cases = _cases(ctx)
    lean = _lean(cases) if model else None
    for ci, (label, case) in enumerate(cases):
        res.count("cases:" + label + ":" + case["wrapper"])
        if lean is not None and "traces" not in lean[ci]:
            res.disagreements.append({"case": case, "model_error": lean[ci]})
            continue
        feats = G.features(case["plan"]) if "plan" in case else set()
        for si, s in enumerate(case["scripts"]):
            res.seen(_one(case, s), any(c[0] != "send" for c in s) or "raise" in feats)
            trace, origins, log = _judge(res, case, s)
            if lean is not None:
                a = B.canon_trace(lean[ci]["traces"][si])
                b = B.canon_trace(B.with_origins(trace, origins))
                if case["wrapper"] in ("rel_set", "mvr"):
                    # the stubs' own messages are created by library code: no plan/wrapper distinction
                    a = [o[:7] if o[0] == "yld" else o for o in a]
                    b = [o[:7] if o[0] == "yld" else o for o in b]
                if a != b:
                    res.disagreements.append({"case": _one(case, s), "what": "trace", "model": a, "impl": b})
                if len(res.samples) < 3 and label == "random" and log and len(trace) > 4:
                    res.samples.append({"case": _one(case, s), "impl": b, "model": a})
    res.merge(_real_rel_plans(ctx))
    res.exhaustive = True
    return res


class Det:
    def __init__(self, name):
        self.name = name
        self.parent = None


def _consume(plan, motors, answers, throw_at=None, exc=None):
    """drive a real plan without a RunEngine: every message answered (reads of motors with readings from
    `answers[motor]` in turn, reads of detectors with a constant reading, everything else None); at message
    number `throw_at` (1-based) `exc` is thrown instead.  -> (list of (command, obj name, arg0, group), outcome)"""
    import contextlib
    import io

    out = []
    count = {m.name: 0 for m in motors}
    g = iter(plan)
    outcome = None
    with contextlib.redirect_stdout(io.StringIO()):
        try:
            m = next(g)
            k = 0
            while True:
                k += 1
                arg0 = m.args[0] if m.args else None
                out.append((m.command, getattr(m.obj, "name", None), arg0, m.kwargs.get("group")))
                if throw_at == k:
                    m = g.throw(exc)
                elif m.command == "read" and m.obj in motors:
                    seq = answers[m.obj.name]
                    v = seq[min(count[m.obj.name], len(seq) - 1)]
                    count[m.obj.name] += 1
                    m = g.send({m.obj.name: {"value": v, "timestamp": 0.0}})
                elif m.command == "read":
                    m = g.send({m.obj.name: {"value": 1.0, "timestamp": 0.0}})
                else:
                    m = g.send(None)
        except StopIteration:
            outcome = ["ret"]
        except BaseException as e:  # noqa: BLE001
            outcome = ["raise", type(e).__name__]
    return out, outcome


def _rel_specs(det, m0, m1, a, b, n):
    import bluesky.plans as bp

    return {
        "rel_scan": ([m0], lambda: bp.rel_scan([det], m0, a, b, n), lambda: bp.scan([det], m0, a, b, n)),
        "rel_scan2": ([m0, m1], lambda: bp.rel_scan([det], m0, a, b, m1, b, a, n), lambda: bp.scan([det], m0, a, b, m1, b, a, n)),
        "rel_list_scan": ([m0], lambda: bp.rel_list_scan([det], m0, [a, 0, b]), lambda: bp.list_scan([det], m0, [a, 0, b])),
        "rel_grid_scan": ([m0, m1], lambda: bp.rel_grid_scan([det], m0, a, b, 2, m1, 0, b, n), lambda: bp.grid_scan([det], m0, a, b, 2, m1, 0, b, n)),
        "rel_list_grid_scan": ([m0, m1], lambda: bp.rel_list_grid_scan([det], m0, [a, b], m1, [0, 1, 2]), lambda: bp.list_grid_scan([det], m0, [a, b], m1, [0, 1, 2])),
        "rel_log_scan": ([m0], lambda: bp.rel_log_scan([det], m0, 0, 1, n), lambda: bp.log_scan([det], m0, 0, 1, n)),
        "rel_spiral": ([m0, m1], lambda: bp.rel_spiral([det], m0, m1, 2, 2, 1, 4), lambda: bp.spiral([det], m0, m1, 0, 0, 2, 2, 1, 4)),
        "rel_spiral_fermat": ([m0, m1], lambda: bp.rel_spiral_fermat([det], m0, m1, 2, 2, 1, 1.0), lambda: bp.spiral_fermat([det], m0, m1, 0, 0, 2, 2, 1, 1.0)),
        "rel_spiral_square": ([m0, m1], lambda: bp.rel_spiral_square([det], m0, m1, 2, 2, 3, 3), lambda: bp.spiral_square([det], m0, m1, 0, 0, 2, 2, 3, 3)),
    }


def _real_one(res, name, par, ks):
    """one real rel_* plan: undisturbed and with an exception thrown at the messages `ks` (None = undisturbed)"""
    from bluesky.utils import RequestStop

    a1, a2 = par["a1"], par["a2"]
    det, m0, m1 = Det("det"), Motor(0), PosMotor(1, 40)
    motors, mk_rel, mk_abs = _rel_specs(det, m0, m1, par["a"], par["b"], par["n"])[name]
    answers = {m0.name: [a1, a2, 0], m1.name: [0]}
    init_rel = {m0.name: a1, m1.name: 40}
    init_reset = {m0.name: a2, m1.name: 40}
    names = [m.name for m in motors]
    try:
        abs_trace, _ = _consume(mk_abs(), motors, {m0.name: [0], m1.name: [0]})
        full, outcome = _consume(mk_rel(), motors, answers)
    except Exception as e:  # noqa: BLE001
        res.notes.append(f"{name}: could not be consumed without a RunEngine ({type(e).__name__}: {e})")
        return 0
    if outcome != ["ret"]:
        res.notes.append(f"{name}: the undisturbed plan does not run to its end without a RunEngine ({outcome}); skipped")
        return 0
    offsets = {n: [t[2] for t in abs_trace if t[0] == "set" and t[1] == n] for n in names}
    if ks == "all":
        ks = [[None, None]] + [[k, e] for k in range(1, len(full) + 1) for e in (["RuntimeError"] + (["RequestStop"] if k % 5 == 0 else []))]
    for k, excname in ks:
        exc = None if k is None else (RequestStop() if excname == "RequestStop" else RuntimeError("boom"))
        trace, outcome = _consume(mk_rel(), motors, answers, k, exc)
        case = dict(par, real_plan=name, throw_at=k, exc=excname)
        res.seen(case, k is not None)
        res.count("cases:real:" + name)
        # recorded by the reset layer: read-kind motors once their second query was answered, .position motors once set
        recorded = []
        seen_reads = {n: 0 for n in names}
        first_set = {}
        for i, t in enumerate(trace):
            answered = not (k is not None and i + 1 == k)
            if t[0] == "read" and t[1] in names and t[1] not in first_set and answered:
                seen_reads[t[1]] += 1
                if seen_reads[t[1]] == 2 and t[1] == m0.name and t[1] not in recorded:
                    recorded.append(t[1])
            if t[0] == "set" and t[1] in names and t[1] not in first_set:
                first_set[t[1]] = i
                if t[1] == m1.name and t[1] not in recorded:
                    recorded.append(t[1])
        expect_reset = [("set", n, init_reset[n]) for n in recorded] + [("wait", None, None)]
        body = trace
        thrown_in_reset = False
        shown = [list(map(str, t)) for t in trace]
        if outcome is not None and (k is None or k <= len(trace) - len(expect_reset)):
            tail = [(t[0], t[1], t[2]) for t in trace[len(trace) - len(expect_reset) :]]
            if tail != expect_reset:
                res.violations.append(C.Violation(f"{name}:devices-not-reset-to-initial-positions", f"{name} (exception at message {k}): the plan ended with {outcome} but its last messages are {tail}, expected {expect_reset}", dict(case, trace=shown)))
            else:
                groups = {t[3] for t in trace[len(trace) - len(expect_reset) :]}
                if len(groups) != 1 or None in groups:
                    res.violations.append(C.Violation(f"{name}:reset-not-in-one-group", f"{groups}", dict(case, trace=shown)))
                body = trace[: len(trace) - len(expect_reset)]
        else:
            thrown_in_reset = True
        # every set of the scan = initial position + the absolute scan's value
        for n in names:
            got = [t[2] for t in body if t[0] == "set" and t[1] == n]
            if thrown_in_reset and got:
                got = got[: len(offsets[n])]
            want = [init_rel[n] + o for o in offsets[n]][: len(got)]
            if len(got) > len(offsets[n]) or any(abs(float(x) - float(y)) > 1e-9 for x, y in zip(got, want)):
                res.violations.append(C.Violation(f"{name}:set-is-not-initial-plus-offset", f"{name} (exception at message {k}): {n} commanded to {got}, expected {want} (initial {init_rel[n]} + {offsets[n]})", dict(case, trace=shown)))
    return len(full)


def _real_rel_plans(ctx):
    """the real rel_* plans of bluesky.plans on fake motors, an exception thrown at every message in turn (oracle only)"""
    res = C.Result()
    rng = ctx.rng
    par = {"a": rng.randrange(-5, 0), "b": rng.randrange(1, 6), "n": rng.randrange(2, 5), "a1": rng.randrange(50, 150), "a2": rng.randrange(200, 300)}
    for name in _rel_specs(None, None, None, 0, 1, 2):
        if ctx.tier == "thorough" or ctx.deep:
            _real_one(res, name, par, "all")
        else:
            n = _real_one(res, name, par, [[None, None]])
            ks = sorted(rng.sample(range(1, n + 1), min(n, 40)))
            _real_one(res, name, par, [[k, "RequestStop" if k % 5 == 0 else "RuntimeError"] for k in ks])
    RP.add_to(res, ["relative-moves"])
    return res


def run_impl_only(ctx):
    return run(ctx, model=False)


def replay(ctx, data):
    r = RP.replay(data)
    if r is not None:
        return r
    G.quiet_unraisable()
    res = C.Result()
    case = dict(data["case"])
    if "real_plan" in case:
        _real_one(res, case["real_plan"], {k: case[k] for k in ("a", "b", "n", "a1", "a2")}, [[case["throw_at"], case["exc"]]])
        return res
    if "script" not in case:
        return res
    s = case.pop("script")
    for k in ("trace", "plan_end"):
        case.pop(k, None)
    _judge(res, case, s)
    return res
