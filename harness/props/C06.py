"""C06 -- devices are always left cleaned up when the RunEngine goes idle."""
from __future__ import annotations

import copy
import json

import common as C
import fault_probes as FP
import engine_common as E
import engine_extract
from engine_common import M, seq

MANIFEST = {
    "text": "PARTIAL (flyers / backstop_collect and per-call dispatcher subscriptions are not in the engine model). Lean "
    "(Props/C06.lean over the shared engine model): _stop_movable_objects logs exactly one `stop` per member of "
    "_movable_objs_touched, after everything logged before, whatever the devices answer; `set` puts the device into "
    "_movable_objs_touched before calling it; `stage` / `unstage` update _staged exactly like the specification function "
    "(insert on success, erase on success, unchanged when the device raises) and no other command touches _staged or shrinks "
    "_movable_objs_touched; the outer finally of _run (cleanupBody, its four steps switched by the GENERATED Src.finally* "
    "facts) appends to the device ledger: a stop for every moved device, clear_sub's, an unstage for every member of _staged "
    "(even if some raise), clear_sub's of the runs it closes -- so every moved device has a stop after its last set, every "
    "device still staged has an unstage after its last stage, _staged and the bundler table are empty and no monitor "
    "registration is left (C06_clean_at_idle). Lifted end to end: `every set entry of the ledger belongs to a device in "
    "_movable_objs_touched` is an invariant of every command, every block of _run, every environment action and the scheduler, "
    "so for EVERY plan / device behaviour / script, when RE(plan), resume() or abort/stop/halt hand control back with the task "
    "over, every set in the ledger is followed by a stop of that device, _staged is empty and no bundler is left "
    "(C06_call_returns_clean). The Python oracle states the property on the real device ledger at idle; "
    "the model is tied to the real RunEngine by differential runs.",
    "note": "Trusted: Lean kernel; engine_extract.py; the hand-written _run machine (tied by the correspondence run under a "
    "deterministic event loop). NOT modelled: flyers (kickoff / collect / backstop_collect; known open finding F19), "
    "subscribe / unsubscribe messages and per-call dispatcher tokens (checked by an implementation-only probe). RE._staged "
    "is a set: a device staged twice without unstage in between is unstaged once by the cleanup (reported in the evidence "
    "notes, not part of the oracle: ophyd refuses redundant staging).",
    "technique": "Lean 4 proof over the program-counter model of RunEngine with source-extracted finally facts; differential runs against the real RunEngine with a device-call ledger",
}
LEAN_MODULES = ["BlueskyVerif.Props.C06"]
DRIVER_MODULES = E.DRIVER_MODULES
DRIVER = E.DRIVER
ASSUMPTIONS = [
    "requests from other threads act atomically while _run is suspended at an await",
    "synchronous fake devices; statuses complete only when the script says so",
    "reading of 'unstaged as many times as staged': every successful stage() of a device is followed, one-to-one, by a later unstage() call on it (an unstage() that raises counts as the attempt: the engine logs the error and goes on); the generator stages a device at most once at a time",
    "flyers and per-call dispatcher subscriptions are outside the model",
]


def extract(ctx):
    return engine_extract.extract()


# ----------------------------------------------------------------------------- oracle
def _mode(sc, dev, op, k):
    modes = sc.get("devices", {}).get(dev, {}).get("modes", {}).get(op, [])
    return modes[k] if k < len(modes) else "done"


def exit_kind(o):
    last = "->".join(o["trans"][-1]) if o["trans"] else "?"
    return f"{last}:{o['returns'][-1][1] if o['returns'] else '?'}"


def oracle(sc, o):
    bad = []
    if any(r[1] == "hang" for r in o["returns"]) or o.get("final_state") == "paused":
        return bad  # the call is not over (C07's business)
    kind = exit_kind(o)
    if o.get("final_state") != "idle":
        # the blocking call is over but the engine did not even reach idle (C07 reports that): the devices must
        # be cleaned up all the same
        kind += ":left-in-state-" + str(o.get("final_state"))
    led = o["ledger"]
    devs = sorted({e[0] for e in led})
    for d in devs:
        # staging: successful stage -> +1, any later unstage call -> -1
        depth, ns, nu, deepest = 0, 0, 0, 0
        for e in led:
            if e[0] != d:
                continue
            if e[1] == "stage":
                if _mode(sc, d, "stage", ns) != "raise":
                    depth += 1
                    deepest = max(deepest, depth)
                ns += 1
            elif e[1] == "unstage":
                depth = max(0, depth - 1)
                nu += 1
        if depth != 0 and deepest <= 1:
            bad.append((f"device-left-staged:{kind}", f"{d}: staged and never unstaged afterwards (ledger of {d}: {[x[1] for x in led if x[0] == d]})"))
        elif depth != 0:
            bad.append((f"device-left-staged:staged-twice:{kind}", f"{d}: staged {deepest} deep, {depth} staging(s) not undone (ledger of {d}: {[x[1] for x in led if x[0] == d]})"))
        # motion: a stop after the last set
        # (a set() call that raised counts too: the device may have started to move before it raised, which is why
        #  the engine registers the device before calling set())
        idx_set = [i for i, e in enumerate(led) if e[0] == d and e[1] == "set"]
        if idx_set:
            if not any(e[0] == d and e[1] == "stop" for e in led[idx_set[-1] + 1 :]):
                raised = ":set-raised" if led[idx_set[-1]][2] == "raise" else ""
                bad.append((f"moved-device-not-stopped:{kind}{raised}", f"{d}: no stop() after its last set() (ledger of {d}: {[x[1] for x in led if x[0] == d]})"))
    # "as many times": the engine's own unstage calls (those not answering an `unstage` message) only go to devices
    # that are staged at that moment (successful stage not yet followed by a successful unstage)
    T = o["ticks"]
    mt = T["msgs"]
    plan_driven = set()
    for i, (m, tm) in enumerate(zip(o["msgs"], mt)):
        if m[0] == "unstage":
            end = mt[i + 1] if i + 1 < len(mt) else float("inf")
            for j, (e, tl) in enumerate(zip(led, T["ledger"])):
                if tm < tl < end and e[0] == m[1] and e[1] == "unstage":
                    plan_driven.add(j)
                    break
    depth_s, count = {}, {}
    for j, e in enumerate(led):
        d, op = e[0], e[1]
        if op not in ("stage", "unstage"):
            continue
        k = count.get((d, op), 0)
        count[(d, op)] = k + 1
        ok = _mode(sc, d, op, k) != "raise"
        if op == "stage":
            if ok:
                depth_s[d] = depth_s.get(d, 0) + 1
        else:
            if j not in plan_driven and depth_s.get(d, 0) < 1:
                bad.append((f"engine-unstaged-device-that-is-not-staged:{kind}", f"{d}: the cleanup called unstage() although the device is not staged (ledger of {d}: {[x[1] for x in led if x[0] == d]})"))
            if ok:
                depth_s[d] = max(0, depth_s.get(d, 0) - 1)
    for name, n in o.get("subs_left", {}).items():
        if n != 0:
            bad.append((f"subscription-left-on-device:{kind}", f"{name} still has {n} engine subscription(s) at idle"))
    return bad


def stats(sc, o):
    f = {"exit:" + exit_kind(o)}
    led = o["ledger"]
    if any(e[1] == "stage" for e in led):
        f.add("has:stage")
    if any(e[1] == "set" for e in led):
        f.add("has:set")
    if any(e[1] == "subscribe" for e in led):
        f.add("has:monitor")
    # cleanup had to unstage / a device call failed during cleanup
    for d in {e[0] for e in led}:
        for op in ("stop", "unstage", "stage", "set"):
            n = sum(1 for e in led if e[0] == d and e[1] == op)
            if any(_mode(sc, d, op, k) == "raise" for k in range(n)):
                f.add(f"raised:{op}")
    return f


# ----------------------------------------------------------------------------- targeted generator
def gen_devices(rng):
    def modes(ops, p=0.3):
        out = {}
        for op in ops:
            if rng.random() < p:
                out[op] = [rng.choice(["done", "done", "pending", "fail", "raise"]) for _ in range(rng.choice([1, 2, 4]))]
        return out

    def smodes(ops, p=0.3):
        out = {}
        for op in ops:
            if rng.random() < p:
                out[op] = [rng.choice(["done", "raise"]) for _ in range(rng.choice([1, 2, 3]))]
        return out

    devs = {
        "m1": {"kind": "motor", "modes": {**modes(["set"]), **smodes(["stop", "stage", "unstage"])}, "pausable": rng.random() < 0.3},
        "m2": {"kind": "motor", "modes": {**modes(["set"]), **smodes(["stop"])}},
        "d1": {"kind": "det", "modes": {**modes(["trigger", "read"], 0.2), **smodes(["stage", "unstage"], 0.2)}, "offset": 1},
        "d2": {"kind": "det", "modes": smodes(["stage", "unstage"], 0.4), "offset": 2},
        "s1": {"kind": "sig"},
    }
    if devs["m1"]["pausable"] and rng.random() < 0.3:
        devs["m1"]["modes"]["pause"] = [rng.choice(["done", "noreplay"])]
    return devs


def gen_plan(rng):
    stageable = ["m1", "m2", "d1", "d2"]
    staged = [d for d in stageable if rng.random() < 0.55]
    rng.shuffle(staged)
    body = [M("stage", d) for d in staged]
    if rng.random() < 0.2:
        body.insert(rng.randrange(0, len(body) + 1), M("checkpoint"))
    nruns = rng.choice([1, 1, 2])
    for _ in range(nruns):
        key = None
        body.append(M("open_run", run=key))
        mon = rng.random() < 0.4
        if mon:
            body.append(M("monitor", "s1", run=key, name="s1_monitor"))
        for _ in range(rng.choice([1, 2, 3])):
            if rng.random() < 0.8:
                body.append(M("checkpoint"))
            grp = rng.choice([None, "g"])
            for m in ("m1", "m2"):
                if rng.random() < 0.6:
                    body.append(M("set", m, rng.choice([1, 2, 3, 5]), **({"group": grp} if grp else {})))
            if rng.random() < 0.7:
                body.append(M("wait", None, group=grp))
            if rng.random() < 0.3:
                body += [M("trigger", "d1", group="t"), M("wait", None, group="t")]
            if rng.random() < 0.3:
                body.append(M("sleep", None, rng.choice([0, 1, 3])))
            body += [M("create", None, name="primary", run=key), M("read", "d1", run=key), M("save", run=key)]
            r = rng.random()
            if r < 0.08:
                body.append({"k": "raise"})
            elif r < 0.14:
                body.append(M("pause", None, defer=rng.random() < 0.5))
            elif r < 0.18:
                body.append(M("clear_checkpoint"))
            elif r < 0.22:
                body.append(M("bogus"))
        if mon and rng.random() < 0.5:
            body.append(M("unmonitor", "s1", run=key))
        if rng.random() < 0.85:
            body.append(M("close_run", run=key))
    unst = [M("unstage", d) for d in reversed(staged)]
    if rng.random() < 0.15 and unst:
        unst.pop(rng.randrange(len(unst)))  # the plan forgets one
    r = rng.random()
    if r < 0.35 and unst:
        return {"k": "try", "body": seq(*body), "handler": None, "fin": seq(*unst)}
    if r < 0.45:
        return {"k": "try", "body": seq(*body), "handler": seq(M("null")), "fin": seq(*unst) if unst else None}
    if r < 0.55:
        return seq(*body)  # no unstage at all: the engine has to do it
    return seq(*(body + unst))


def gen_script(rng, n_arr):
    script = {}
    fut = 0
    for _ in range(rng.choice([0, 1, 1, 1, 2, 2, 3])):
        at = rng.randrange(0, max(1, n_arr + 2))
        r = rng.random()
        if r < 0.3:
            act = {"a": "pause", "defer": rng.random() < 0.25}
        elif r < 0.45:
            act = {"a": "suspend", "fut": fut, "pre": E.small_plan(rng), "post": E.small_plan(rng), "just": None}
            if rng.random() < 0.7:
                script.setdefault(str(at + rng.randrange(1, 5)), []).append({"a": "release", "fut": fut})
            fut += 1
        elif r < 0.6:
            act = {"a": "abort"}
        elif r < 0.72:
            act = {"a": "stop"}
        elif r < 0.84:
            act = {"a": "halt"}
        elif r < 0.94:
            act = {"a": "status", "id": rng.randrange(0, 5), "ok": rng.random() < 0.5}
        else:
            act = {"a": "monitor", "sig": "s1", "v": rng.randrange(1, 9)}
        script.setdefault(str(at), []).append(act)
    return script


def normalise_script(script):
    """immediate actions (status / monitor / release) before queued requests: see C41.normalise_script"""
    imm = ("monitor", "status", "release")
    return {k: [a for a in v if a["a"] in imm] + [a for a in v if a["a"] not in imm] for k, v in script.items()}


def gen(rng):
    if rng.random() < 0.15:
        sc = E.gen_scenario(rng, dense=rng.random() < 0.5)
        sc["script"] = normalise_script(sc["script"])
        return sc
    sc = {
        "record_interruptions": rng.random() < 0.3,
        "devices": gen_devices(rng),
        "plan": gen_plan(rng),
        "script": {},
        "decisions": [rng.choice(["resume", "resume", "resume", "abort", "stop", "halt"]) for _ in range(8)],
        "max_arrivals": 300,
    }
    base = E.run_scenario(E.number(copy.deepcopy(sc)))
    sc["script"] = normalise_script(gen_script(rng, len(base["arrivals"])))
    return E.number(sc)


# small exhaustive family: one fixed plan with stage / set / monitor, every single injection point x request x decision
def _fixed_plan(with_finally):
    body = [
        M("stage", "d1"), M("stage", "m1"), M("open_run"), M("monitor", "s1", name="s1_monitor"), M("checkpoint"),
        M("set", "m1", 2, group="g"), M("set", "m2", 3, group="g"), M("wait", None, group="g"),
        M("create", None, name="primary"), M("read", "d1"), M("save"), M("sleep", None, 1), M("close_run"),
    ]
    unst = [M("unstage", "m1"), M("unstage", "d1")]
    if with_finally:
        return {"k": "try", "body": seq(*body), "handler": None, "fin": seq(*unst)}
    return seq(*(body + unst))


def enumeration():
    out = []
    for with_finally in (False, True):
        for devmode in ("plain", "stop-raises", "unstage-raises", "set-pending"):
            devs = {"m1": {"kind": "motor", "modes": {}}, "m2": {"kind": "motor", "modes": {}}, "d1": {"kind": "det", "modes": {}, "offset": 1}, "s1": {"kind": "sig"}}
            if devmode == "stop-raises":
                devs["m1"]["modes"]["stop"] = ["raise", "raise", "raise"]
            elif devmode == "unstage-raises":
                devs["m1"]["modes"]["unstage"] = ["raise", "raise"]
            elif devmode == "set-pending":
                devs["m1"]["modes"]["set"] = ["pending"]
            base = {"record_interruptions": False, "devices": devs, "plan": _fixed_plan(with_finally), "script": {}, "decisions": [], "max_arrivals": 200}
            n = len(E.run_scenario(E.number(copy.deepcopy(base)))["arrivals"])
            for at in range(n + 1):
                for act, decs in (("abort", [[]]), ("stop", [[]]), ("halt", [[]]), ("pause", [["resume"], ["abort"], ["stop"], ["halt"]]), ("suspend", [[]])):
                    for dec in decs:
                        sc = copy.deepcopy(base)
                        a = {"a": act}
                        if act == "pause":
                            a["defer"] = False
                        if act == "suspend":
                            a.update({"fut": 0, "pre": None, "post": None, "just": None})
                        sc["script"] = {str(at): [a]}
                        sc["decisions"] = dec
                        out.append(E.number(sc))
    return out


# ----------------------------------------------------------------------------- implementation-only probes
def double_staging_probe():
    """RE._staged is a set: stage d1 twice, then fail -> how many unstage calls?  (reported, not judged)"""
    sc = E.number({"record_interruptions": False, "devices": {"d1": {"kind": "det", "modes": {}, "offset": 1}}, "plan": seq(M("stage", "d1"), M("stage", "d1"), {"k": "raise"}), "script": {}, "decisions": [], "max_arrivals": 50})
    o = E.run_scenario(sc)
    return [e[1] for e in o["ledger"] if e[0] == "d1"]


def dispatcher_probe():
    """per-call subscriptions (RE(plan, subs) and `subscribe` messages) are gone from the dispatcher when the NEXT call
    runs, whatever the outcome of the call that installed them (implementation only; the engine model has no
    dispatcher).  `_clear_call_cache` runs at the start of __call__."""
    import contextlib
    import io

    from bluesky import Msg, RunEngine

    results = {}
    for outcome in ("success", "failure", "abort"):
        buf = io.StringIO()
        with contextlib.redirect_stdout(buf), contextlib.redirect_stderr(buf):
            RE = RunEngine({}, context_managers=[])
            RE.log.disabled = True
            perm = RE.subscribe(lambda n, d: None)
            before = sorted(RE.dispatcher._token_mapping)
            seen = []

            def plan():
                yield Msg("subscribe", None, lambda n, d: seen.append(n), "all")
                yield Msg("open_run")
                if outcome == "failure":
                    raise RuntimeError("boom")
                if outcome == "abort":
                    yield Msg("pause")
                yield Msg("close_run")

            try:
                RE(plan(), lambda n, d: None)
            except Exception:  # RuntimeError / RunEngineInterrupted
                pass
            if outcome == "abort":
                RE.abort()
            during_first = len(RE.dispatcher._token_mapping)
            inside = {}

            def second():
                inside["tokens"] = sorted(RE.dispatcher._token_mapping)
                inside["temp"] = len(RE._temp_callback_ids)
                yield Msg("null")

            RE(second())
            results[outcome] = {"state": str(RE.state), "tokens_before": len(before), "tokens_after_first_call": during_first,
                                "tokens_in_next_call": len(inside.get("tokens", [])), "same": inside.get("tokens") == before,
                                "permanent_kept": perm in inside.get("tokens", []), "temp_ids_in_next_call": inside.get("temp")}
            RE.loop.call_soon_threadsafe(RE.loop.stop)
    return results


PROBE_JUDGES = [FP.nothing_left_behind]


def run(ctx, model=True):
    enum = enumeration()
    if not (ctx.tier == "thorough" or ctx.deep):
        enum = ctx.rng.sample(enum, min(len(enum), 60))
    res = E.run_property(ctx, "C06", oracle, gen=gen, quick=100, thorough=3000, model=model, extra_scenarios=enum)
    res.rule += " | C06: (a) exhaustive family: a fixed plan with stage / set / monitor (with and without try-finally unstage) x device behaviour {plain, stop raises, unstage raises, set pending} x EVERY arrival index x {abort, stop, halt, pause+each decision, suspend} (all in the thorough tier, a sample of 60 in quick); (b) random plans staging 0-4 devices in any order, sets with groups, monitors, failures of set / stop / stage / unstage / trigger / read, plan errors, forgotten unstage, 0-3 requests, every post-pause decision"
    FP.run_probes(ctx, res, PROBE_JUDGES, ["close", "leftover-stage"], 30, 600)
    try:
        res.facts["double_staging_ledger(stage,stage,raise)"] = double_staging_probe()
        res.notes.append(f"double staging (RE._staged is a set): ledger of d1 for plan [stage d1, stage d1, raise] = {res.facts['double_staging_ledger(stage,stage,raise)']}")
        dp = dispatcher_probe()
        res.facts["dispatcher_probe"] = dp
        for outcome, r in dp.items():
            if not (r["same"] and r["permanent_kept"] and r["state"] == "idle"):
                res.violations.append(C.Violation(f"per-call-subscription-left-in-dispatcher:{outcome}", f"dispatcher tokens after a call ending in {outcome}: {r}", {"probe": "dispatcher", "outcome": outcome}))
    except Exception as e:  # noqa
        res.notes.append(f"probe crashed: {type(e).__name__}: {e}")
    return res


def run_impl_only(ctx):
    return run(ctx, model=False)


def replay(ctx, data):
    if FP.is_probe(data):
        return FP.replay_probe(ctx, data, PROBE_JUDGES)
    case = data.get("case") or {}
    if case.get("probe") == "dispatcher":
        res = C.Result()
        r = dispatcher_probe()[case["outcome"]]
        if not (r["same"] and r["permanent_kept"] and r["state"] == "idle"):
            res.violations.append(C.Violation(f"per-call-subscription-left-in-dispatcher:{case['outcome']}", str(r), case))
        return res
    return E.replay_property(ctx, data, oracle)
