"""C38 -- truncate_json_overflow makes any numeric payload JSON-safe without changing safe values.

Tie: (T) the two numeric branches of `truncate_json_overflow` (isinstance tuples, the `% 1` test, the
`int()`/`float()` conversions, the comparison operators, the 2**53 bounds, the 1.7976e308 bounds and
the min/max clamps) are translated from the current source into
lean/BlueskyVerif/Pure/TruncateGenerated.lean; the three container branches are recognised by exact
shape (the extractor raises otherwise).  The theorems in Props/C38.lean are about those generated
definitions.  (C) the hand-written scalar semantics (Pure/TruncateBase.lean) and the recursion
(Pure/Truncate.lean) are run against the real function on the same type-tagged nested values.
"""
from __future__ import annotations

import ast
import json
import math
import warnings
from fractions import Fraction

import common as C
import pyexpr as P

MANIFEST = {
    "text": "FULL (weak reading for non-finite inputs, ruled by the coordinator). Theorems (Props/C38.lean), by structural "
    "induction over ALL nested values (mappings / list, tuple, n-d array sequences / 0-d arrays / str, None, int, bool, "
    "numpy ints of every width, numpy.bool_, float, float16/32/64 incl. +-inf and NaN), about the numeric branches "
    "regenerated from utils/__init__.py on every run: C38_shape (same keys, same lengths, leaves stay leaves), "
    "C38_leaves + C38_in_range (every int-typed output leaf is within +-(2**53-1); every float output leaf is finite or "
    "NaN; every integral-valued float output leaf that comes from a FINITE input leaf is within +-(2**53-1); hypothesis "
    "`ieeeLike`, true of every binary16/32/64 float), C38_no_infinite_output (no output leaf is +-inf, no hypothesis), "
    "C38_safe_unchanged (all leaves in range => output equals the input up to list-ification of sequences and "
    ".item() of 0-d arrays, leaf types and values untouched), C38_int_conversion_guarded (int(data) is only evaluated "
    "where it cannot raise).  Reading made explicit: +-inf becomes the float +-1.7976e308, which is finite (float clause) "
    "but is itself an integral-valued float beyond 2**53-1; the integer bound is not demanded of it.",
    "note": "Trusted: Lean kernel; the expression translator in harness/props/C38.py; the hand-written scalar semantics of "
    "Python/numpy 2 comparisons, min/max, %, int(), float(), .item() (tied by the correspondence run: type tag + exact "
    "value of every output leaf compared).  Floats are exact rationals + inf/NaN tags (no IEEE rounding: every operation "
    "the function applies is exact on binary floats).  safe_unchanged assumes finite floats of magnitude >= 2**53 are "
    "integral (true for binary16/32/64; checked on every generated input).",
    "technique": "Lean 4 proof by mutual structural induction over source-translated branch conditions (translator) + "
    "correspondence run on type-tagged nested values",
}
LEAN_MODULES = ["BlueskyVerif.Props.C38"]
DRIVER_MODULES = ["BlueskyVerif.Pure.Truncate"]
DRIVER = "Drivers/C38.lean"
ASSUMPTIONS = [
    "floats are modelled as exact rationals plus +inf/-inf/NaN tags; IEEE rounding is not modelled (x % 1, int(x), float(x),"
    " comparisons and min/max are exact on binary floats; only the truthiness of x % 1 is used)",
    "the model admits finite float values no binary format has; C38_safe_unchanged therefore assumes `ieeeLike`: a finite"
    " float of magnitude >= 2**53 is integral (holds for float16/32/64; asserted on every generated input)",
    "reading of the statement for non-finite inputs (coordinator ruling): +-inf -> +-1.7976e308 satisfies 'every float is"
    " finite or NaN'; the +-(2**53-1) bound is demanded of int-typed leaves and of integral-valued floats coming from"
    " finite inputs.  Remark: truncate(truncate(inf)) = 2**53-1, the function is not idempotent on inf",
    "'unchanged' is stated on the JSON-level value: sequences (tuple, ndarray) become lists and 0-d arrays become the"
    " Python scalar of .item(); leaf types and values are otherwise identical",
    "mapping keys are strings in the model (the code copies keys untouched); numpy.longdouble, complex, bytes, sets,"
    " Decimal/Fraction are outside the property's domain and not modelled",
]
TRUSTED = ["harness/props/C38.py expression translator (Python numeric-branch sub-language -> Lean terms over Pure/TruncateBase.lean)"]

GEN_PATH = C.LEAN / "BlueskyVerif" / "Pure" / "TruncateGenerated.lean"
FUNC = "truncate_json_overflow"

# ----------------------------------------------------------------------------- translator

CLASSES = {
    "int": "int", "float": "float", "bool": "bool", "str": "str",
    "np.integer": "npInteger", "np.floating": "npFloating", "np.number": "npNumber", "np.bool_": "npBool",
    "np.float16": "npFloat16", "np.float32": "npFloat32", "np.float64": "npFloat64",
    "numpy.integer": "npInteger", "numpy.floating": "npFloating", "numpy.number": "npNumber",
}  # fmt: skip
CMP = {ast.Lt: "Scalar.lt", ast.LtE: "Scalar.le", ast.Gt: "Scalar.gt", ast.GtE: "Scalar.ge"}


class Tr:
    """Python expression over the single variable `data` -> Lean term (Scalar- or Bool-valued)."""

    def __init__(self, float_lits=None):
        self.consts = []  # (python text, lean text) of every literal met, for the evidence file
        self.float_lits = float_lits if float_lits is not None else []  # distinct magnitudes of float literals -> floatLit<i>

    def int_const(self, n):
        """integer constant expression -> (python value, lean Int term) or None"""
        if isinstance(n, ast.Constant) and type(n.value) is int:
            return n.value, str(n.value)
        if isinstance(n, ast.UnaryOp) and isinstance(n.op, ast.USub):
            r = self.int_const(n.operand)
            return None if r is None else (-r[0], f"(-{r[1]})")
        if isinstance(n, ast.BinOp) and type(n.op) in (ast.Add, ast.Sub, ast.Mult, ast.Pow):
            a, b = self.int_const(n.left), self.int_const(n.right)
            if a is None or b is None:
                return None
            if isinstance(n.op, ast.Pow):
                if b[0] < 0 or b[0] > 4096:
                    raise P.Untranslatable("exponent " + ast.unparse(n))
                return a[0] ** b[0], f"{a[1]} ^ {b[0]}"
            sym = {ast.Add: "+", ast.Sub: "-", ast.Mult: "*"}[type(n.op)]
            val = {"+": a[0] + b[0], "-": a[0] - b[0], "*": a[0] * b[0]}[sym]
            return val, f"({a[1]} {sym} {b[1]})"
        return None

    def float_const(self, n):
        if isinstance(n, ast.Constant) and type(n.value) is float:
            return n.value
        if isinstance(n, ast.UnaryOp) and isinstance(n.op, ast.USub) and isinstance(n.operand, ast.Constant) and type(n.operand.value) is float:
            return -n.operand.value
        return None

    def s(self, n) -> str:
        if isinstance(n, ast.Name) and n.id == "data":
            return "data"
        ic = self.int_const(n)
        if ic is not None:
            self.consts.append((ast.unparse(n), str(ic[0])))
            return f"(pyI ({ic[1]}))"
        fc = self.float_const(n)
        if fc is not None:
            if math.isinf(fc) or math.isnan(fc):
                raise P.Untranslatable("non-finite float literal")
            fr = Fraction(fc)  # the exact value of the double
            self.consts.append((ast.unparse(n), str(fr)))
            mag = abs(fr)
            if mag not in self.float_lits:
                self.float_lits.append(mag)
            name = f"floatLit{self.float_lits.index(mag)}"
            return f"(pyF (-{name}))" if fr < 0 else f"(pyF {name})"
        if isinstance(n, ast.Call) and isinstance(n.func, ast.Name) and not n.keywords:
            f = n.func.id
            if f in ("min", "max") and len(n.args) == 2:
                return f"(py{f.capitalize()} {self.s(n.args[0])} {self.s(n.args[1])})"
            if f == "int" and len(n.args) == 1:
                return f"(toPyInt {self.s(n.args[0])})"
            if f == "float" and len(n.args) == 1:
                return f"(toPyFloat {self.s(n.args[0])})"
        if isinstance(n, ast.BinOp) and isinstance(n.op, ast.Mod):
            ic = self.int_const(n.right)
            if ic is not None and ic[0] > 0:
                return f"(Scalar.modInt {self.s(n.left)} ({ic[1]}))"
        raise P.Untranslatable("scalar expression " + ast.unparse(n))

    def is_bool(self, n) -> bool:
        if isinstance(n, (ast.BoolOp, ast.Compare)):
            return True
        if isinstance(n, ast.UnaryOp) and isinstance(n.op, ast.Not):
            return True
        return isinstance(n, ast.Call) and isinstance(n.func, ast.Name) and n.func.id == "isinstance"

    def b(self, n) -> str:
        if isinstance(n, ast.BoolOp):
            op = " && " if isinstance(n.op, ast.And) else " || "
            return "(" + op.join(self.b(v) for v in n.values) + ")"
        if isinstance(n, ast.UnaryOp) and isinstance(n.op, ast.Not):
            return f"(!{self.b(n.operand)})"
        if isinstance(n, ast.Compare):
            terms, left = [], n.left
            for op, right in zip(n.ops, n.comparators):
                if type(op) not in CMP:
                    raise P.Untranslatable("comparison " + ast.unparse(n))
                terms.append(f"{CMP[type(op)]} {self.s(left)} {self.s(right)}")
                left = right
            return "(" + " && ".join(terms) + ")"
        if isinstance(n, ast.Call) and isinstance(n.func, ast.Name) and n.func.id == "isinstance" and len(n.args) == 2 and not n.keywords:
            if not (isinstance(n.args[0], ast.Name) and n.args[0].id == "data"):
                raise P.Untranslatable("isinstance of " + ast.unparse(n.args[0]))
            t = n.args[1]
            elts = t.elts if isinstance(t, ast.Tuple) else [t]
            names = []
            for e in elts:
                d = P.dotted(e)
                if d not in CLASSES:
                    raise P.Untranslatable(f"isinstance class {ast.unparse(e)}")
                names.append("." + CLASSES[d])
            return f"(isinst data [{', '.join(names)}])"
        # truthiness of a scalar expression
        return f"(Scalar.truthy {self.s(n)})"


def _calls_int(n) -> bool:
    return any(isinstance(x, ast.Call) and isinstance(x.func, ast.Name) and x.func.id == "int" for x in ast.walk(n))


def _int_guard(tr, test, ret) -> str:
    """Conjunction of the conjuncts of `test` evaluated before the first one that calls int();
    the whole test when only the return expression calls int(); `false` when int() is not called."""
    conj = test.values if isinstance(test, ast.BoolOp) and isinstance(test.op, ast.And) else [test]
    for k, c in enumerate(conj):
        if _calls_int(c):
            if k == 0:
                return "true"  # evaluated unguarded
            return "(" + " && ".join(Tr(tr.float_lits).b(x) for x in conj[:k]) + ")"
    if _calls_int(ret):
        return Tr(tr.float_lits).b(test)
    return "false"


CONTAINER_SHAPE = [
    ("mapping", "isinstance(data, collections.abc.Mapping)", "return {k: truncate_json_overflow(v) for k, v in data.items()}"),
    ("ndarray0d", "isinstance(data, np.ndarray) and data.ndim == 0", "return truncate_json_overflow(data.item())"),
    ("iterable-not-str", "isinstance(data, collections.abc.Iterable) and (not isinstance(data, str))", "return [truncate_json_overflow(item) for item in data]"),
]


def _find_func(tree):
    for n in tree.body:
        if isinstance(n, ast.FunctionDef) and n.name == FUNC:
            return n
    raise P.Untranslatable(f"function {FUNC} not found")


def extract(ctx):
    path = C.SRC / "utils" / "__init__.py"
    tree = ast.parse(path.read_text())
    fn = _find_func(tree)
    if [a.arg for a in fn.args.args] != ["data"] or fn.args.vararg or fn.args.kwarg or fn.args.kwonlyargs:
        raise P.Untranslatable("signature is not (data)")
    body = P.body_wo_doc(fn)
    if len(body) != 2 or not isinstance(body[0], ast.If) or ast.unparse(body[1]) != "return data":
        raise P.Untranslatable("body is not `if ... elif ...` followed by `return data`")
    # flatten the if/elif chain
    chain, node = [], body[0]
    while True:
        chain.append((node.test, node.body, node.lineno))
        if len(node.orelse) == 1 and isinstance(node.orelse[0], ast.If):
            node = node.orelse[0]
        elif not node.orelse:
            break
        else:
            raise P.Untranslatable("unexpected else branch")
    if len(chain) < len(CONTAINER_SHAPE):
        raise P.Untranslatable("container branches missing")
    for (kind, test_s, body_s), (test, bdy, line) in zip(CONTAINER_SHAPE, chain):
        if ast.unparse(test) != test_s or len(bdy) != 1 or ast.unparse(bdy[0]) != body_s:
            raise P.Untranslatable(f"container branch `{kind}` at line {line} not recognised: if {ast.unparse(test)}: {ast.unparse(bdy[0]) if bdy else ''}")
    numeric = chain[len(CONTAINER_SHAPE):]
    out = [
        "-- GENERATED by harness/props/C38.py from src/bluesky/utils/__init__.py (truncate_json_overflow) -- do not edit.",
        "import BlueskyVerif.Pure.TruncateBase",
        "namespace BlueskyVerif.Truncate",
        "",
        "/-- the if/elif chain of the function, in source order -/",
        "def branchKinds : List String := [" + ", ".join(f'"{k}"' for k, _, _ in CONTAINER_SHAPE) + "".join(', "numeric"' for _ in numeric) + "]",
        "",
    ]
    facts = {"branches": [k for k, _, _ in CONTAINER_SHAPE], "numeric": []}
    float_lits: list = []
    defs = []
    for i, (test, bdy, line) in enumerate(numeric, 1):
        if len(bdy) != 1 or not isinstance(bdy[0], ast.Return) or bdy[0].value is None:
            raise P.Untranslatable(f"numeric branch at line {line}: body is not a single return")
        tr = Tr(float_lits)
        cond = tr.b(test)
        ret = tr.s(bdy[0].value)
        guard = _int_guard(tr, test, bdy[0].value)
        defs += [
            f"/-- utils/__init__.py:{line}  `{ast.unparse(test)}` -/",
            f"def cond{i} (data : Scalar) : Bool :=",
            f"  {cond}",
            "",
            f"/-- `{ast.unparse(bdy[0])}` -/",
            f"def ret{i} (data : Scalar) : Scalar :=",
            f"  {ret}",
            "",
            f"/-- what has been tested (left to right, `and` short-circuits) before branch {i} first evaluates `int(data)`;",
            f"    `false` when the branch never calls `int` -/",
            f"def intGuard{i} (data : Scalar) : Bool :=",
            f"  {guard}",
            "",
        ]
        facts["numeric"].append({"line": line, "test": ast.unparse(test), "return": ast.unparse(bdy[0].value), "lean_cond": cond, "lean_ret": ret, "literals": tr.consts})
    for j, mag in enumerate(float_lits):
        lit = f"{mag.numerator}" if mag.denominator == 1 else f"{mag.numerator} / {mag.denominator}"
        out += [f"/-- exact value of a float literal of the source ({float(mag)!r}) -/", f"def floatLit{j} : Rat := {lit}", ""]
    facts["float_literals"] = {f"floatLit{j}": repr(float(m)) for j, m in enumerate(float_lits)}
    out += defs
    out += ["/-- the numeric part of the chain: first branch whose condition holds, else `return data` -/", "def truncLeaf (data : Scalar) : Scalar :="]
    if numeric:
        for i in range(1, len(numeric) + 1):
            out.append(("  if " if i == 1 else "  else if ") + f"cond{i} data then ret{i} data")
        out.append("  else data")
    else:
        out.append("  data")
    out += ["", "end BlueskyVerif.Truncate", ""]
    C.write_if_changed(GEN_PATH, "\n".join(out))
    facts["where"] = f"src/bluesky/utils/__init__.py:{fn.lineno}"
    return facts


# ----------------------------------------------------------------------------- tagged values <-> python objects
# A case is a JSON tree:  {"t": "map", "items": [[key, node], ...]} | {"t": "list"|"tuple"|"ndarray", "items": [...]}
#   | {"t": "arr0", "v": leaf} | leaf
# leaf: {"t": "str"|"npstr", "v": s} | {"t": "none"} | {"t": <int type>, "v": "<decimal>"} | {"t": <float type>, "v": "num/den"|"inf"|"-inf"|"nan"}
INT_TYPES = ["int", "bool", "npbool", "int8", "int16", "int32", "int64", "uint8", "uint16", "uint32", "uint64"]
FLT_TYPES = ["float", "float16", "float32", "float64"]
NP_INT_RANGE = {"int8": (-2**7, 2**7 - 1), "int16": (-2**15, 2**15 - 1), "int32": (-2**31, 2**31 - 1), "int64": (-2**63, 2**63 - 1),
                "uint8": (0, 2**8 - 1), "uint16": (0, 2**16 - 1), "uint32": (0, 2**32 - 1), "uint64": (0, 2**64 - 1)}  # fmt: skip
BOUND = 2**53 - 1  # the +-(2**53 - 1) of the property statement


def _np():
    import numpy as np

    return np


def fstr(x) -> str:
    """exact value of a float (any kind) as 'num/den' | 'inf' | '-inf' | 'nan'"""
    x = float(x)  # exact for float16/32/64
    if math.isnan(x):
        return "nan"
    if math.isinf(x):
        return "inf" if x > 0 else "-inf"
    fr = Fraction(x)
    return f"{fr.numerator}/{fr.denominator}"


def leaf_to_py(leaf):
    np = _np()
    t = leaf["t"]
    if t == "str":
        return leaf["v"]
    if t == "npstr":
        return np.str_(leaf["v"])
    if t == "none":
        return None
    if t == "int":
        return int(leaf["v"])
    if t == "bool":
        return bool(int(leaf["v"]))
    if t == "npbool":
        return np.bool_(int(leaf["v"]))
    if t in NP_INT_RANGE:
        return getattr(np, t)(int(leaf["v"]))
    if t in FLT_TYPES:
        v = leaf["v"]
        if v in ("inf", "-inf", "nan"):
            x = float(v)
        else:
            num, den = v.split("/")
            x = int(num) / int(den)  # exact: the generator only emits values of the target kind
        if t == "float":
            return x
        with warnings.catch_warnings():
            warnings.simplefilter("ignore")
            r = getattr(np, t)(x)
        return r
    raise ValueError(t)


ARR_DTYPES = {"npbool": "bool_", "npstr": "str_"}


def to_py(node):
    np = _np()
    t = node["t"]
    if t == "map":
        d = {k: to_py(v) for k, v in node["items"]}
        # the statement says "mappings": also Mapping types that are not dict subclasses (same model value)
        if node.get("as") == "proxy":
            import types

            return types.MappingProxyType(d)
        if node.get("as") == "chain":
            import collections

            return collections.ChainMap(d)
        if node.get("as") == "ordered":
            import collections

            return collections.OrderedDict(d)
        return d
    if t == "list":
        return [to_py(v) for v in node["items"]]
    if t == "tuple":
        return tuple(to_py(v) for v in node["items"])
    if t == "ndarray":
        return _to_array(node)
    if t == "arr0":
        return np.array(leaf_to_py(node["v"]))
    return leaf_to_py(node)


def _arr_leaf_type(node):
    if node["t"] == "ndarray":
        for it in node["items"]:
            r = _arr_leaf_type(it)
            if r:
                return r
        return None
    return node["t"]


def _nested(node):
    if node["t"] == "ndarray":
        return [_nested(it) for it in node["items"]]
    return leaf_to_py(node)


def _to_array(node):
    """an n-d array case: nested `ndarray` nodes of homogeneous leaf type and rectangular shape"""
    np = _np()
    lt = node.get("dtype") or _arr_leaf_type(node) or "float64"
    dtype = getattr(np, ARR_DTYPES.get(lt, lt))
    arr = np.array(_nested(node), dtype=dtype)
    if node.get("shape") is not None:
        arr = arr.reshape(node["shape"])
    return arr


def tag_leaf(x):
    """type tag + exact value of an output leaf"""
    np = _np()
    if x is None:
        return {"t": "none"}
    if type(x) is bool:
        return {"t": "bool", "v": str(int(x))}
    if type(x) is int:
        return {"t": "int", "v": str(x)}
    if type(x) is float:
        return {"t": "float", "v": fstr(x)}
    if type(x) is str:
        return {"t": "str", "v": x}
    if isinstance(x, np.str_):
        return {"t": "npstr", "v": str(x)}
    if isinstance(x, np.bool_):
        return {"t": "npbool", "v": str(int(x))}
    if isinstance(x, np.integer):
        return {"t": type(x).__name__, "v": str(int(x))}
    if isinstance(x, np.floating):
        return {"t": type(x).__name__, "v": fstr(x)}
    return {"t": "other:" + type(x).__name__, "v": repr(x)[:60]}


def tag(x):
    np = _np()
    if isinstance(x, dict):
        return {"t": "map", "items": [[k, tag(v)] for k, v in x.items()]}
    if isinstance(x, list):
        return {"t": "list", "items": [tag(v) for v in x]}
    if isinstance(x, tuple):
        return {"t": "tuple", "items": [tag(v) for v in x]}
    if isinstance(x, np.ndarray):
        if x.ndim == 0:
            return {"t": "arr0", "v": tag_leaf(x[()])}
        return {"t": "ndarray", "items": [tag(v) for v in x]}
    return tag_leaf(x)


def run_impl(case):
    from bluesky.utils import truncate_json_overflow

    try:
        with warnings.catch_warnings():
            warnings.simplefilter("ignore")
            obj = to_py(case)
            out = truncate_json_overflow(obj)
        return tag(out)
    except Exception as e:  # noqa: BLE001
        return {"error": type(e).__name__}


# ----------------------------------------------------------------------------- oracle (the property, on the implementation's output)


def _num(leaf):
    """-> ('int', n) | ('flt', Fraction|'inf'|'-inf'|'nan') | None"""
    t = leaf["t"]
    if t in INT_TYPES:
        return ("int", int(leaf["v"]))
    if t in FLT_TYPES:
        v = leaf["v"]
        return ("flt", v if v in ("inf", "-inf", "nan") else Fraction(v))
    return None


def leaf_class(leaf):
    """names the input class of a leaf precisely (used in violation signatures)"""
    t = leaf["t"]
    n = _num(leaf)
    if n is None:
        return t
    if n[0] == "int":
        v = n[1]
        return f"{t}:" + ("in-range" if -BOUND <= v <= BOUND else "above" if v > 0 else "below")
    v = n[1]
    if isinstance(v, str):
        return f"{t}:{v}"
    if v.denominator != 1:
        return f"{t}:fractional"
    if abs(v) == BOUND + 1:
        return f"{t}:exactly-pm-2**53"
    return f"{t}:integral-" + ("in-range" if -BOUND <= v <= BOUND else "above" if v > 0 else "below")


def leaf_in_range(leaf):
    n = _num(leaf)
    if n is None:
        return True
    if n[0] == "int":
        return -BOUND <= n[1] <= BOUND
    v = n[1]
    if isinstance(v, str):
        return v == "nan"
    return v.denominator != 1 or -BOUND <= v <= BOUND


def ieee_like(leaf):
    n = _num(leaf)
    if n is None or n[0] == "int" or isinstance(n[1], str):
        return True
    return abs(n[1]) < 2**53 or n[1].denominator == 1


def item_leaf(leaf):
    """what ndarray.item() makes of a numpy scalar (type tag level)"""
    t = leaf["t"]
    if t == "npstr":
        return {"t": "str", "v": leaf["v"]}
    if t == "npbool":
        return {"t": "bool", "v": leaf["v"]}
    if t in NP_INT_RANGE:
        return {"t": "int", "v": leaf["v"]}
    if t in FLT_TYPES:
        return {"t": "float", "v": leaf["v"]}
    return leaf


def normalize(node):
    """the JSON-level value: sequences -> list, 0-d arrays -> the Python scalar"""
    t = node["t"]
    if t == "map":
        return {"t": "map", "items": [[k, normalize(v)] for k, v in node["items"]]}
    if t in ("list", "tuple", "ndarray"):
        return {"t": "list", "items": [normalize(v) for v in node["items"]]}
    if t == "arr0":
        return item_leaf(node["v"])
    return {k: v for k, v in node.items() if k in ("t", "v")}


def leaves3(node, path=""):
    """(path, leaf, is_0d_array) in document order"""
    t = node["t"]
    if t == "map":
        for k, v in node["items"]:
            yield from leaves3(v, f"{path}.{k}")
    elif t in ("list", "tuple", "ndarray"):
        for i, v in enumerate(node["items"]):
            yield from leaves3(v, f"{path}[{i}]")
    elif t == "arr0":
        yield path, node["v"], True
    else:
        yield path, node, False


def leaves(node):
    for p, lf, _ in leaves3(node):
        yield p, lf


def shape(node):
    t = node["t"]
    if t == "map":
        return ["map", [[k, shape(v)] for k, v in node["items"]]]
    if t in ("list", "tuple", "ndarray"):
        return ["seq", [shape(v) for v in node["items"]]]
    return "leaf"


def oracle(case, obs):
    """-> list of (sig, what)"""
    bad = []
    if "error" in obs:
        kinds = sorted({lf["t"] for _, lf in leaves(case)} | ({"arr0"} if _has(case, "arr0") else set()))
        return [(f"raises:{obs['error']}:" + ("0d-array" if _has(case, "arr0") else ",".join(kinds)[:60]), f"truncate_json_overflow raised {obs['error']}")]
    if shape(obs) != shape(case):
        return [("shape-changed:" + _container_kinds(case), f"output shape {json.dumps(shape(obs))[:150]} differs from input shape {json.dumps(shape(case))[:150]}")]
    ins, outs = list(leaves3(case)), list(leaves3(obs))
    all_safe = True
    for (path, li, _), (_, lo, _) in zip(ins, outs):
        cls = leaf_class(li)
        no = _num(lo)
        if lo["t"].startswith("other:"):
            bad.append((f"leaf-type:{cls}", f"at {path or '<root>'}: output leaf of unexpected type {lo}"))
            continue
        if no is not None:
            if no[0] == "int" and not -BOUND <= no[1] <= BOUND:
                bad.append((f"int-out-of-range:{cls}", f"at {path or '<root>'}: input {li} -> output {lo}, integer outside +-(2**53-1)"))
            if no[0] == "flt":
                v = no[1]
                if v in ("inf", "-inf"):
                    bad.append((f"float-not-finite:{cls}", f"at {path or '<root>'}: input {li} -> output {lo}, float neither finite nor NaN"))
                elif not isinstance(v, str) and v.denominator == 1 and not -BOUND <= v <= BOUND:
                    ni = _num(li)
                    from_inf = ni is not None and ni[0] == "flt" and ni[1] in ("inf", "-inf")
                    if not from_inf:  # weak reading: the int bound is demanded of floats that come from finite inputs
                        bad.append((f"integral-float-out-of-range:{cls}", f"at {path or '<root>'}: input {li} -> output {lo}, integral-valued float outside +-(2**53-1)"))
        if not leaf_in_range(li):
            all_safe = False
    if all_safe and normalize(obs) != normalize(case):
        for (path, li, is0d), (_, lo, _) in zip(ins, outs):
            want = item_leaf(li) if is0d else li
            if {k: lo.get(k) for k in ("t", "v")} != {k: want.get(k) for k in ("t", "v")}:
                bad.append((f"safe-value-changed:{leaf_class(li)}", f"at {path or '<root>'}: in-range input {li} became {lo}"))
                break
        else:
            bad.append(("safe-value-changed:structure", "all leaves in range but the JSON-level output differs from the input"))
    return bad


def _has(node, kind):
    if node["t"] == kind:
        return True
    if node["t"] == "map":
        return any(_has(v, kind) for _, v in node["items"])
    if node["t"] in ("list", "tuple", "ndarray"):
        return any(_has(v, kind) for v in node["items"])
    return False


def _container_kinds(node):
    ks = set()

    def walk(n):
        if n["t"] == "map":
            ks.add("map")
            for _, v in n["items"]:
                walk(v)
        elif n["t"] in ("list", "tuple", "ndarray"):
            ks.add(n["t"])
            for v in n["items"]:
                walk(v)
        elif n["t"] == "arr0":
            ks.add("arr0")

    walk(node)
    return ",".join(sorted(ks))



# ----------------------------------------------------------------------------- generators

P53 = 2**53


def _int_pool():
    base = [0, 1, -1, 2, 7, -13, 255, 2**31, -(2**31), 2**52, P53 - 2, P53 - 1, P53, P53 + 1, -(P53 - 2), -(P53 - 1), -P53, -(P53 + 1), 2**60, -(2**60), 2**63 - 1, -(2**63), 2**63, 2**64 - 1, 2**64, 10**30, -(10**30)]
    return base


def _float_values(kind):
    """exactly representable values of the kind (as python floats) incl. the boundary ones"""
    np = _np()
    vals = [0.0, -0.0, 1.0, -1.0, 0.5, -0.5, 1.5, 2.75, 1024.0, -1024.0, 0.1, 1e-3]
    if kind == "float16":
        vals += [65504.0, -65504.0, 2048.0, 2049.0, 6.1e-5, 1e-7]
    elif kind == "float32":
        vals += [2.0**24, 2.0**24 + 2, float(P53), -float(P53), float(P53) + 2.0**30, float(P53) - 2.0**29, -(float(P53) - 2.0**29), 3e38, -3e38, 3.4028234663852886e38, 1e-40, 2.0**60]
    else:
        vals += [float(P53), -float(P53), float(P53 - 1), -float(P53 - 1), float(P53 - 2), float(P53) + 2, -(float(P53) + 2), 2.0**52 + 0.5, -(2.0**52 + 0.5), 2.0**52 - 0.5,
                 1e300, -1e300, 1.7976e308, -1.7976e308, 1.7976931348623157e308, -1.7976931348623157e308, 1.797e308, 1.7975999999999999e308, 5e-324, 2.0**60, -(2.0**60), 1e16, 123456789.125]  # fmt: skip
    out = []
    with warnings.catch_warnings():
        warnings.simplefilter("ignore")
        for v in vals:
            x = float(v) if kind == "float" else float(getattr(np, kind)(v))
            if not math.isinf(x):
                out.append(x)
    return out


def gen_leaf(rng, types=None):
    t = rng.choice(types or (["int"] * 4 + ["float"] * 4 + ["bool", "npbool", "str", "npstr", "none", "float16", "float32", "float32", "float64", "float64"] + list(NP_INT_RANGE)))
    if t == "str" or t == "npstr":
        return {"t": t, "v": rng.choice(["", "a", "1e400", "inf", "9007199254740993", "x y"])}
    if t == "none":
        return {"t": "none"}
    if t in ("bool", "npbool"):
        return {"t": t, "v": str(rng.randint(0, 1))}
    if t == "int":
        r = rng.random()
        v = rng.choice(_int_pool()) if r < 0.6 else rng.randint(-(2**70), 2**70) if r < 0.8 else rng.randint(-1000, 1000)
        return {"t": t, "v": str(v)}
    if t in NP_INT_RANGE:
        lo, hi = NP_INT_RANGE[t]
        cands = [v for v in _int_pool() if lo <= v <= hi] + [lo, hi, lo + 1, hi - 1]
        v = rng.choice(cands) if rng.random() < 0.7 else rng.randint(lo, hi)
        return {"t": t, "v": str(v)}
    # floats
    r = rng.random()
    if r < 0.18:
        return {"t": t, "v": rng.choice(["inf", "-inf", "nan"])}
    if r < 0.8:
        x = rng.choice(_float_values(t))
    else:
        np = _np()
        e = rng.choice([0, 1, 10, 30, 52, 53, 54, 60, 100, 1000]) if t in ("float", "float64") else rng.choice([0, 1, 10, 14]) if t == "float16" else rng.choice([0, 1, 10, 30, 53, 54, 100, 126])
        x = math.ldexp(rng.choice([1, -1]) * (1 + rng.randint(0, 2**10) / 2**10), e)
        if rng.random() < 0.5:
            x = float(math.floor(x))
        with warnings.catch_warnings():
            warnings.simplefilter("ignore")
            x = x if t == "float" else float(getattr(np, t)(x))
        if math.isinf(x):
            x = 1.0
    return {"t": t, "v": fstr(x)}


ARRAY_TYPES = ["float64", "float64", "float32", "float16", "npbool", "npstr"] + list(NP_INT_RANGE)


def gen_array(rng):
    lt = rng.choice(ARRAY_TYPES)
    ndim = rng.choice([1, 1, 2, 2, 3])
    shp = [rng.choice([0, 1, 2, 3]) if i == 0 else rng.choice([1, 2, 3]) for i in range(ndim)]

    def build(d):
        if d == ndim:
            return gen_leaf(rng, [lt])
        return {"t": "ndarray", "items": [build(d + 1) for _ in range(shp[d])]}

    node = build(0)
    node["dtype"] = lt
    node["shape"] = shp
    return node


def gen_value(rng, depth=0):
    r = rng.random()
    if depth >= 3 or r < 0.35:
        if rng.random() < 0.12:
            return {"t": "arr0", "v": gen_leaf(rng, ["float64", "float32", "float16", "npbool", "npstr", "int64", "uint64", "int8", "int32"])}
        return gen_leaf(rng)
    if r < 0.55:
        n = rng.choice([0, 1, 2, 3])
        keys = rng.sample(["a", "b", "c", "data", "k1", "", "x.y"], n)
        node = {"t": "map", "items": [[k, gen_value(rng, depth + 1)] for k in keys]}
        if rng.random() < 0.25:
            node["as"] = rng.choice(["proxy", "chain", "ordered"])
        return node
    if r < 0.85:
        return {"t": rng.choice(["list", "list", "tuple"]), "items": [gen_value(rng, depth + 1) for _ in range(rng.choice([0, 1, 2, 3, 4]))]}
    return gen_array(rng)


def exhaustive_cases():
    """every scalar type x every boundary value, bare, in a list, as a 0-d array, and as a 1-element array"""
    leaves_ = []
    for v in _int_pool():
        leaves_.append({"t": "int", "v": str(v)})
    for t, (lo, hi) in NP_INT_RANGE.items():
        for v in sorted({x for x in _int_pool() if lo <= x <= hi} | {lo, hi}):
            leaves_.append({"t": t, "v": str(v)})
    for t in ("bool", "npbool"):
        leaves_ += [{"t": t, "v": "0"}, {"t": t, "v": "1"}]
    for t in FLT_TYPES:
        for x in _float_values(t):
            leaves_.append({"t": t, "v": fstr(x)})
        leaves_ += [{"t": t, "v": s} for s in ("inf", "-inf", "nan")]
    leaves_ += [{"t": "str", "v": "abc"}, {"t": "str", "v": ""}, {"t": "npstr", "v": "q"}, {"t": "none"}]
    for lf in leaves_:
        yield lf
        yield {"t": "list", "items": [lf, {"t": "int", "v": "1"}]}
        yield {"t": "map", "items": [["k", {"t": "tuple", "items": [lf]}]]}
        if lf["t"] not in ("int", "bool", "float", "str", "none"):
            yield {"t": "arr0", "v": lf}
            yield {"t": "ndarray", "items": [lf, lf], "dtype": lf["t"], "shape": [2]}
            yield {"t": "ndarray", "items": [{"t": "ndarray", "items": [lf]}], "dtype": lf["t"], "shape": [1, 1]}
    for kind in ("proxy", "chain", "ordered"):
        yield {"t": "map", "as": kind, "items": [["k", {"t": "int", "v": str(2**60)}], ["s", {"t": "str", "v": "abc"}]]}
        yield {"t": "list", "items": [{"t": "map", "as": kind, "items": [["k", {"t": "float", "v": "inf"}]]}]}
    # empty containers
    yield {"t": "map", "items": []}
    yield {"t": "list", "items": []}
    yield {"t": "tuple", "items": []}
    yield {"t": "ndarray", "items": [], "dtype": "float64", "shape": [0]}


def malformed_stream():
    """Values OUTSIDE the property's domain (not modelled, no oracle): the implementation only has to come back.
    -> (kind, python object)"""
    import decimal
    import fractions

    np = _np()
    yield "bytes", b"ab"
    yield "set", {1, 2**60}
    yield "range", range(3)
    yield "generator", (i for i in (1, 2**60))
    yield "complex", complex(1, 2)
    yield "decimal", decimal.Decimal("1e400")
    yield "fraction", fractions.Fraction(2**60, 1)
    yield "longdouble", np.longdouble(2) ** 70
    yield "datetime64", np.datetime64("2020-01-01")
    yield "int-keys", {1: 2**60, (1, 2): [float("inf")]}
    yield "object-array", np.array([1, "a", None], dtype=object)
    yield "structured-0d", np.array((1, 2.0), dtype=[("a", "i8"), ("b", "f8")])


def _cases(ctx):
    corpus = C.VERIF / "corpus" / "C38"
    if corpus.exists():
        for f in sorted(corpus.glob("*.json")):
            yield json.loads(f.read_text())["case"]
    yield from exhaustive_cases()
    for _ in range(ctx.budget(2500, 60000)):
        yield gen_value(ctx.rng)


def _nontrivial(case, obs):
    if "error" in obs:
        return True
    return normalize(obs) != normalize(case)  # at least one leaf was truncated


def _check_case_wellformed(case):
    for _, lf in leaves(case):
        assert ieee_like(lf), f"generator produced a non-IEEE-like float {lf}"


def run(ctx, model=True):
    res = C.Result(
        rule="cases = corpus + every scalar type x boundary values (bare, in list/tuple/dict, 0-d, 1-d, 2-d arrays) + random "
        "nested dict/list/tuple/ndarray values over boundary-biased leaves; observation = type tag + exact value "
        "(integer string / fraction / inf / nan) of every output leaf and the container shape; non-trivial = at least one "
        "leaf truncated (JSON-level output differs from input) or an exception; plus a malformed stream (bytes, set, generator, "
        "complex, Decimal, Fraction, longdouble, datetime64, non-string keys, object / structured arrays) run through the "
        "implementation only (outcome recorded in the distribution, no oracle)"
    )
    cases, obss = [], []
    for case in _cases(ctx):
        _check_case_wellformed(case)
        obs = run_impl(case)
        cases.append(case)
        obss.append(obs)
        res.seen(case, _nontrivial(case, obs))
        for _, lf in leaves(case):
            res.count("leaf:" + leaf_class(lf))
        res.count("root:" + case["t"])
        for sig, what in oracle(case, obs):
            res.violations.append(C.Violation(sig, what, case))
    from bluesky.utils import truncate_json_overflow

    for kind, obj in malformed_stream():
        try:
            with warnings.catch_warnings():
                warnings.simplefilter("ignore")
                out = truncate_json_overflow(obj)
            res.count(f"malformed:{kind}:returns-{type(out).__name__}")
        except Exception as e:  # noqa: BLE001
            res.count(f"malformed:{kind}:raises-{type(e).__name__}")
    if model:
        replies = C.lean_batch(DRIVER, [json.dumps(c) for c in cases])
        for case, obs, rep in zip(cases, obss, replies):
            m = json.loads(rep)
            if m != obs:
                res.disagreements.append({"case": case, "model": m, "impl": obs})
        for i in (0, len(cases) // 2, len(cases) - 1):
            res.samples.append({"case": cases[i], "impl": obss[i], "model": json.loads(replies[i])})
    else:
        res.samples.append({"case": cases[-1], "impl": obss[-1]})
    return res


def run_impl_only(ctx):
    return run(ctx, model=False)


def replay(ctx, data):
    res = C.Result()
    case = data.get("case")
    if not case:
        return res
    obs = run_impl(case)
    for sig, what in oracle(case, obs):
        res.violations.append(C.Violation(sig, what, case))
    return res
