"""C32 -- the plan simulator replays plans faithfully.

Tie: (T) the syntactic facts of `RunEngineSimulator.simulate_plan`, `add_handler`,
`add_handler_for_callback_subscribes` and `check_limits_async` (default insertion index, END ->
append, direction of the handler lookup, reset of send_value, `self.return_value = e.value`, the
command / argument index inspected by check_limits) are re-read from the current simulators.py
into lean/BlueskyVerif/Pure/SimulatorGenerated.lean; the model and the theorems depend on them.
(C) the hand-written loops (Pure/Simulator.lean) are run against the real RunEngineSimulator /
check_limits on the same generated plans (real generators yielding real Msg objects, branching on
what they receive), handler sets and fake/ophyd devices.
"""
from __future__ import annotations

import ast
import asyncio
import itertools
import json
import warnings

import common as C

MANIFEST = {
    "text": "FULL on the stated domain (truthy messages; handlers that return normally and are functions of the "
    "message). Theorems (Props/C32.lean) for EVERY plan (any generator as a behaviour function: branching, "
    "non-terminating) and EVERY handler list: the returned list is exactly the plan's yields in order (soundness, "
    "completeness, every finite prefix of an unbounded plan); each yield receives the first matching handler's "
    "result / None; handlers registered with the default index override all older ones (one step and any number of "
    "registrations), END/subscribe handlers lose; return_value is the plan's return value (also when it returns on "
    "the first send); check_limits raises iff some `set` on a limit-checked device is out of limits, at the first "
    "such message. Outside the domain the model states what the code does (falsy message stops silently; a handler "
    "raising StopIteration is mistaken for the end of the plan).",
    "note": "Trusted: Lean kernel; the extractor below (strict AST shape match, raises when the shape changes); CPython "
    "generator send/StopIteration semantics; handlers are pure functions of the message in the model (stateful "
    "closures are not modelled); limits convention of the checked devices (low < high active, closed interval) is "
    "that of the harness fakes and ophyd.SoftPositioner, not of bluesky itself (bluesky only calls check_value).",
    "technique": "Lean 4 proof about a behaviour-function model of generators (translator for the syntactic facts) + "
    "correspondence run against the real RunEngineSimulator / check_limits",
}
LEAN_MODULES = ["BlueskyVerif.Props.C32"]
DRIVER_MODULES = ["BlueskyVerif.Pure.Simulator"]
DRIVER = "Drivers/C32.lean"
ASSUMPTIONS = [
    "domain: every yielded message is truthy (real Msg objects always are); simulate_plan stops silently at a falsy one",
    "handlers are functions of the message and return normally; a handler raising StopIteration is swallowed by "
    "simulate_plan's `except StopIteration` (modelled, stated as C32_handler_stopiteration, outside the property)",
    "check_limits: 'limit-checked device' = object with check_value (bluesky.protocols.Checkable); 'out of limits' = "
    "check_value raises; the fakes and ophyd.SoftPositioner use low < high and not (low <= v <= high)",
    "sent values, message arguments and limits are integers in the model",
]
TRUSTED = ["harness/props/C32.py::extract (AST shape match of simulate_plan / add_handler / check_limits_async)"]

GEN_PATH = C.LEAN / "BlueskyVerif" / "Pure" / "SimulatorGenerated.lean"


# ----------------------------------------------------------------------------- translator
class Unrecognised(Exception):
    pass


def _need(cond, what):
    if not cond:
        raise Unrecognised(what)


def _strip(body):
    """drop docstring, LOGGER.* calls and `if x: LOGGER...` (no effect on the result)"""
    out = []
    for st in body:
        if isinstance(st, ast.Expr) and isinstance(st.value, ast.Constant) and isinstance(st.value.value, str):
            continue
        if isinstance(st, ast.Expr) and ast.unparse(st).startswith("LOGGER."):
            continue
        if isinstance(st, ast.If) and not st.orelse and all(isinstance(s, ast.Expr) and ast.unparse(s).startswith("LOGGER.") for s in st.body):
            continue
        out.append(st)
    return out


def _method(tree, cls, name):
    for n in tree.body:
        if isinstance(n, ast.ClassDef) and n.name == cls:
            for m in n.body:
                if isinstance(m, (ast.FunctionDef, ast.AsyncFunctionDef)) and m.name == name:
                    return m
    raise Unrecognised(f"{cls}.{name} not found")


def _function(tree, name):
    for n in tree.body:
        if isinstance(n, (ast.FunctionDef, ast.AsyncFunctionDef)) and n.name == name:
            return n
    raise Unrecognised(f"{name} not found")


def extract(ctx):
    src = (C.SRC / "simulators.py").read_text()
    tree = ast.parse(src)
    facts = {}
    # ---- the END sentinel
    end_const = None
    for n in tree.body:
        if isinstance(n, ast.Assign) and ast.unparse(n.targets[0]) == "END" and isinstance(n.value, ast.Constant):
            end_const = n.value.value
    _need(isinstance(end_const, str), "module constant END")
    # ---- add_handler
    ah = _method(tree, "RunEngineSimulator", "add_handler")
    names = [a.arg for a in ah.args.args]
    _need(names == ["self", "commands", "handler", "msg_filter", "index"], f"add_handler signature {names}")
    dflt = ah.args.defaults[-1]
    if isinstance(dflt, ast.Constant) and isinstance(dflt.value, int) and not isinstance(dflt.value, bool):
        default_index = f"{dflt.value}"
        default_is_end = False
    elif (isinstance(dflt, ast.Name) and dflt.id == "END") or (isinstance(dflt, ast.Constant) and dflt.value == end_const):
        default_index, default_is_end = None, True
    else:
        raise Unrecognised("default of add_handler(index=...): " + ast.unparse(dflt))
    body = _strip(ah.body)
    _need(len(body) == 2, "add_handler body: 2 statements expected")
    _need(ast.unparse(body[0]) == "if isinstance(commands, str):\n    commands = [commands]", "add_handler: commands normalisation")
    call = body[1].value if isinstance(body[1], ast.Expr) else None
    _need(isinstance(call, ast.Call) and ast.unparse(call.func) == "self.message_handlers.insert" and len(call.args) == 2, "add_handler: self.message_handlers.insert(i, h)")
    idx = ast.unparse(call.args[0])
    if idx in ("cast(int, index if index != END else len(self.message_handlers))", "index if index != END else len(self.message_handlers)"):
        end_append = True
    elif idx in ("cast(int, index if index != END else 0)", "index if index != END else 0"):
        end_append = False
    else:
        raise Unrecognised("add_handler insert position: " + idx)
    h = call.args[1]
    _need(isinstance(h, ast.Call) and ast.unparse(h.func) == "_MessageHandler" and len(h.args) == 2, "add_handler: _MessageHandler(pred, handler)")
    want_pred = "lambda msg: msg.command in commands and (msg_filter is None or (callable(msg_filter) and msg_filter(msg)) or (msg.obj and msg.obj.name == msg_filter))"
    _need(ast.unparse(h.args[0]) == want_pred, "add_handler predicate: " + ast.unparse(h.args[0]))
    _need(ast.unparse(h.args[1]) == "handler", "add_handler runnable")
    facts["add_handler"] = {"default_index": "END" if default_is_end else default_index, "END_appends": end_append, "at": f"simulators.py:{ah.lineno}"}
    # ---- add_handler_for_callback_subscribes
    sh = _method(tree, "RunEngineSimulator", "add_handler_for_callback_subscribes")
    body = _strip(sh.body)
    _need(len(body) == 1 and isinstance(body[0], ast.Expr) and isinstance(body[0].value, ast.Call), "subscribe handler body")
    call = body[0].value
    f = ast.unparse(call.func)
    if f == "self.message_handlers.append":
        sub_append = True
        hh = call.args[0]
    elif f == "self.message_handlers.insert" and ast.unparse(call.args[0]) == "0":
        sub_append = False
        hh = call.args[1]
    else:
        raise Unrecognised("subscribe handler registration: " + f)
    _need(ast.unparse(hh) == "_MessageHandler(lambda msg: msg.command == 'subscribe', lambda msg: self._add_callback(msg.args))", "subscribe handler: " + ast.unparse(hh))
    ac = _strip(_method(tree, "RunEngineSimulator", "_add_callback").body)
    _need([ast.unparse(s) for s in ac] == ["self.callbacks[self.next_callback_token] = msg_args", "self.next_callback_token += 1"], "_add_callback body (returns None)")
    facts["subscribe_handler_appends"] = sub_append
    # ---- _MessageHandler
    mh = _strip(_method(tree, "_MessageHandler", "__init__").body)
    _need([ast.unparse(s) for s in mh] == ["self.predicate = p", "self.runnable = r"], "_MessageHandler.__init__")
    # ---- simulate_plan
    sp = _method(tree, "RunEngineSimulator", "simulate_plan")
    body = _strip(sp.body)
    _need(len(body) == 4, f"simulate_plan: 4 statements expected, got {len(body)}")
    _need(ast.unparse(body[0]) == "messages = []" and ast.unparse(body[1]) == "send_value = None", "simulate_plan: initialisation")
    _need(ast.unparse(body[3]) == "return messages", "simulate_plan: return messages")
    tr = body[2]
    _need(isinstance(tr, ast.Try) and not tr.orelse and not tr.finalbody and len(tr.handlers) == 1 and len(tr.body) == 1, "simulate_plan: try/except shape")
    wh = tr.body[0]
    _need(isinstance(wh, ast.While) and not wh.orelse and ast.unparse(wh.test) == "(msg := gen.send(send_value))", "simulate_plan: while msg := gen.send(send_value)")
    loop = [ast.unparse(s) for s in _strip(wh.body)]
    if loop and loop[0] == "send_value = None":
        reset = True
        loop = loop[1:]
    else:
        reset = False
    _need(len(loop) == 2 and loop[0] == "messages.append(msg)", f"simulate_plan loop body {loop}")
    pat = "if (handler := next((h for h in {it} if h.predicate(msg)), None)):\n    send_value = handler.runnable(msg)"
    if loop[1] == pat.format(it="self.message_handlers"):
        reversed_ = False
    elif loop[1] in (pat.format(it="reversed(self.message_handlers)"), pat.format(it="self.message_handlers[::-1]")):
        reversed_ = True
    else:
        raise Unrecognised("simulate_plan handler lookup: " + loop[1])
    eh = tr.handlers[0]
    _need(eh.type is not None and ast.unparse(eh.type) == "StopIteration", "simulate_plan: except StopIteration")
    ehb = [ast.unparse(s) for s in _strip(eh.body)]
    if ehb == [f"self.return_value = {eh.name}.value"]:
        records = True
    elif ehb in (["pass"], []):
        records = False
    else:
        raise Unrecognised(f"simulate_plan except body {ehb}")
    facts["simulate_plan"] = {"lookup_reversed": reversed_, "reset_send_value": reset, "records_return_value": records, "at": f"simulators.py:{sp.lineno}"}
    # ---- check_limits_async
    cl = _function(tree, "check_limits_async")
    body = _strip(cl.body)
    _need(len(body) == 2 and ast.unparse(body[0]) == "ignore = []" and isinstance(body[1], ast.For), "check_limits_async: ignore = []; for ...")
    fr = body[1]
    _need(ast.unparse(fr.target) == "msg" and ast.unparse(fr.iter) == "plan" and not fr.orelse, "check_limits_async: for msg in plan")
    fb = _strip(fr.body)
    _need(len(fb) == 2 and ast.unparse(fb[0]) == "obj = msg.obj" and isinstance(fb[1], ast.If) and not fb[1].orelse, "check_limits_async loop body")
    test = fb[1].test
    _need(isinstance(test, ast.BoolOp) and isinstance(test.op, ast.And) and len(test.values) == 2 and ast.unparse(test.values[1]) == "obj not in ignore", "check_limits_async: ... and obj not in ignore")
    cmp_ = test.values[0]
    _need(isinstance(cmp_, ast.Compare) and ast.unparse(cmp_.left) == "msg.command" and len(cmp_.ops) == 1 and isinstance(cmp_.ops[0], ast.Eq) and isinstance(cmp_.comparators[0], ast.Constant) and isinstance(cmp_.comparators[0].value, str), "check_limits_async: msg.command == <str>")
    command = cmp_.comparators[0].value
    inner = fb[1].body
    _need(len(inner) == 1 and isinstance(inner[0], ast.If) and ast.unparse(inner[0].test) == "isinstance(obj, Checkable)", "check_limits_async: isinstance(obj, Checkable)")
    yes, no = inner[0].body, inner[0].orelse
    _need(len(yes) == 1 and isinstance(yes[0], ast.Expr) and isinstance(yes[0].value, ast.Await), "check_limits_async: await maybe_await(obj.check_value(..))")
    aw = yes[0].value.value
    _need(isinstance(aw, ast.Call) and ast.unparse(aw.func) == "maybe_await" and len(aw.args) == 1, "check_limits_async: maybe_await(...)")
    cv = aw.args[0]
    _need(isinstance(cv, ast.Call) and ast.unparse(cv.func) == "obj.check_value" and len(cv.args) == 1 and not cv.keywords, "check_limits_async: obj.check_value(x)")
    sub = cv.args[0]
    _need(isinstance(sub, ast.Subscript) and ast.unparse(sub.value) == "msg.args" and isinstance(sub.slice, ast.Constant) and isinstance(sub.slice.value, int) and sub.slice.value >= 0, "check_limits_async: msg.args[<int>]")
    argi = sub.slice.value
    _need(len(no) == 2 and isinstance(no[0], ast.Expr) and ast.unparse(no[0].value.func) == "warn" and ast.unparse(no[1]) == "ignore.append(obj)", "check_limits_async: warn + ignore.append(obj)")
    wtxt = ast.unparse(no[0].value.args[0])
    _need("obj.name" in wtxt and f"msg.args[{argi}]" in wtxt, "check_limits_async: warning text mentions obj.name and msg.args[i]")
    facts["check_limits_async"] = {"command": command, "arg_index": argi, "at": f"simulators.py:{cl.lineno}"}

    b = lambda x: "true" if x else "false"  # noqa: E731
    out = [
        "-- GENERATED by harness/props/C32.py from src/bluesky/simulators.py -- do not edit.",
        "namespace BlueskyVerif.Simulator.Gen",
        "",
        "/-- default of the `index` parameter of `add_handler` -/",
        f"def addHandlerDefaultIndex : Int := {default_index if not default_is_end else '1000000000'}",
        "/-- `index if index != END else len(self.message_handlers)` -/",
        f"def endMeansAppend : Bool := {b(end_append)}",
        "/-- `add_handler_for_callback_subscribes` uses `.append` -/",
        f"def subscribeHandlerAppends : Bool := {b(sub_append)}",
        "/-- the handler lookup iterates `reversed(self.message_handlers)` -/",
        f"def lookupReversed : Bool := {b(reversed_)}",
        "/-- the loop body starts with `send_value = None` -/",
        f"def resetSendValue : Bool := {b(reset)}",
        "/-- `except StopIteration as e: self.return_value = e.value` -/",
        f"def recordsReturnValue : Bool := {b(records)}",
        "/-- `msg.command == <const>` in check_limits_async -/",
        f"def checkedCommand : String := {json.dumps(command)}",
        "/-- `msg.args[<const>]` in check_limits_async -/",
        f"def checkedArgIndex : Nat := {argi}",
        "",
        "end BlueskyVerif.Simulator.Gen",
        "",
    ]
    C.write_if_changed(GEN_PATH, "\n".join(out))
    return facts


# ----------------------------------------------------------------------------- plans (AST -> real generator)
NV = 3  # plan variables


class _Ret(Exception):
    def __init__(self, v):
        self.v = v


class LimitError(ValueError):
    pass


class FakeDev:
    def __init__(self, name, lo, hi):
        self.name, self.lo, self.hi = name, lo, hi

    def check_value(self, v):
        if self.lo < self.hi and not (self.lo <= v <= self.hi):
            raise LimitError(f"{v} outside {self.lo, self.hi}")


class AsyncFakeDev:
    def __init__(self, name, lo, hi):
        self.name, self.lo, self.hi = name, lo, hi

    async def check_value(self, v):
        await asyncio.sleep(0)
        if self.lo < self.hi and not (self.lo <= v <= self.hi):
            raise LimitError(f"{v} outside {self.lo, self.hi}")


class PlainDev:
    def __init__(self, name):
        self.name = name


def make_devices(specs):
    out = []
    for d in specs:
        k = d["kind"]
        if k == "fake":
            out.append(FakeDev(d["name"], *d["limits"]))
        elif k == "afake":
            out.append(AsyncFakeDev(d["name"], *d["limits"]))
        elif k == "soft":
            from ophyd.positioner import SoftPositioner

            out.append(SoftPositioner(name=d["name"], limits=tuple(d["limits"])))
        else:
            out.append(PlainDev(d["name"]))
    return out


def _ev(e, env):
    if e[0] == "c":
        return e[1]
    if e[0] == "v":
        return env[e[1]]
    if e[0] == "add":
        x = env[e[1]]
        return (0 if x is None else x) + e[2]
    raise AssertionError(e)


def _cond(c, env):
    x = env[c[1]]
    if c[0] == "eq":
        return x is not None and x == c[2]
    if c[0] == "lt":
        return x is not None and x < c[2]
    if c[0] == "none":
        return x is None
    raise AssertionError(c)


EXC = {"ValueError": ValueError, "KeyError": KeyError, "RuntimeError": RuntimeError, "ZeroDivisionError": ZeroDivisionError}


def _mk(ms, env, devs):
    from bluesky.utils import Msg

    args = []
    for e in ms["a"]:
        v = _ev(e, env)
        args.append(0 if v is None else v)
    kw = {"group": ms["g"]} if ms.get("g") is not None else {}
    return Msg(ms["c"], None if ms["o"] is None else devs[ms["o"]], *args, **kw)


def _interp(stmts, env, log, devs):
    for s in stmts:
        op = s[0]
        if op in ("y", "r"):
            m = _mk(s[-1], env, devs)
            log["yielded"].append(m)
            v = yield m
            log["received"].append(v)
            if op == "r":
                env[s[1]] = v
        elif op == "if":
            yield from _interp(s[2] if _cond(s[1], env) else s[3], env, log, devs)
        elif op == "rep":
            for _ in range(s[1]):
                yield from _interp(s[2], env, log, devs)
        elif op == "ret":
            raise _Ret(_ev(s[1], env))
        elif op == "raise":
            log["end"] = ["raised", s[1]]
            raise EXC[s[1]]("from the plan")
        elif op == "yraw":
            log["yielded"].append(None)
            log["falsy"] = True
            v = yield None
            log["received"].append(v)
        else:
            raise AssertionError(s)


def make_plan(stmts, devs, log):
    """A real generator (nested `yield from` frames) yielding real Msg objects."""

    def plan():
        env = [None] * NV
        try:
            yield from _interp(stmts, env, log, devs)
        except _Ret as r:
            log["end"] = ["returned", r.v]
            return r.v
        log["end"] = ["returned", None]
        return None

    return plan()


def canon_msg(m, devs):
    if m is None:
        return "falsy"
    o = None
    if m.obj is not None:
        o = next(i for i, d in enumerate(devs) if d is m.obj)
    return [m.command, o, list(m.args), m.kwargs.get("group")]


# ----------------------------------------------------------------------------- handlers
def _arg0(m):
    return m.args[0] if m.args else None


def make_pred(p, devs):
    k = p[0]
    if k == "always":
        return lambda m: p[1]
    if k == "arg0_eq":
        return lambda m: _arg0(m) is not None and _arg0(m) == p[1]
    if k == "arg0_lt":
        return lambda m: _arg0(m) is not None and _arg0(m) < p[1]
    if k == "obj":
        return lambda m: m.obj is not None and m.obj is devs[p[1]]
    if k == "group_eq":
        return lambda m: m.kwargs.get("group") == p[1]
    raise AssertionError(p)


def make_result(r, hlog, idx):
    k = r[0]

    def run(m):
        hlog.append(idx)
        if k == "const":
            return r[1]
        if k == "arg0_plus":
            a = _arg0(m)
            return (0 if a is None else a) + r[1]
        if k == "raise":
            hlog.append("raised")
            if r[1] == "StopIteration":
                raise StopIteration(r[2])
            raise EXC[r[1]]("from a handler")
        raise AssertionError(r)

    return run


def install_handlers(sim, specs, devs, hlog):
    from bluesky.simulators import END

    for i, h in enumerate(specs):
        if h["kind"] == "subscribe":
            sim.add_handler_for_callback_subscribes()
            continue
        f = h.get("filter")
        flt = None if f is None else (f["name"] if "name" in f else make_pred(f["fn"], devs))
        cmds = h["commands"] if not h.get("single") else h["commands"][0]
        kw = {}
        if h.get("index") is not None:
            kw["index"] = END if h["index"] == "end" else h["index"]
        sim.add_handler(cmds, make_result(h["result"], hlog, i), flt, **kw)


def spec_matches(h, cm, devs_spec):
    """the documented meaning of commands + msg_filter, on a canonical message"""
    if h["kind"] == "subscribe":
        return cm[0] == "subscribe"
    if cm[0] not in h["commands"]:
        return False
    f = h.get("filter")
    if f is None:
        return True
    if "name" in f:
        return cm[1] is not None and devs_spec[cm[1]]["name"] == f["name"]
    p = f["fn"]
    a0 = cm[2][0] if cm[2] else None
    return {
        "always": lambda: p[1],
        "arg0_eq": lambda: a0 is not None and a0 == p[1],
        "arg0_lt": lambda: a0 is not None and a0 < p[1],
        "obj": lambda: cm[1] is not None and cm[1] == p[1],
        "group_eq": lambda: cm[3] == p[1],
    }[p[0]]()


def spec_result(h, cm):
    if h["kind"] == "subscribe":
        return None
    r = h["result"]
    a0 = cm[2][0] if cm[2] else None
    if r[0] == "const":
        return r[1]
    if r[0] == "arg0_plus":
        return (0 if a0 is None else a0) + r[1]
    return ("raises", r[1])


def documented_order(specs):
    """Precedence promised by the docstrings: default-index handlers newest first; END / subscribe
    handlers after all of those, oldest first.  None when explicit integer indexes are used."""
    front, back = [], []
    for i, h in enumerate(specs):
        if h["kind"] == "subscribe" or h.get("index") == "end":
            back.append(i)
        elif h.get("index") is None:
            front.insert(0, i)
        else:
            return None
    return front + back


# ----------------------------------------------------------------------------- running the implementation
_SENTINEL = "<untouched>"


def run_sim(case):
    from bluesky.simulators import RunEngineSimulator

    devs = make_devices(case["devices"])
    log = {"yielded": [], "received": [], "end": None}
    hlog = []
    sim = RunEngineSimulator()
    install_handlers(sim, case["handlers"], devs, hlog)
    sim.return_value = _SENTINEL
    gen = make_plan(case["plan"], devs, log)
    side = {"yielded": None, "same_objects": None, "hlog": hlog, "end": None}
    try:
        msgs = sim.simulate_plan(gen)
    except Exception as e:  # noqa: BLE001
        obs = {"outcome": "raised:" + type(e).__name__}
    else:
        obs = {
            "outcome": "returned",
            "messages": [canon_msg(m, devs) for m in msgs],
            "rv": "unchanged" if sim.return_value is _SENTINEL else ["set", sim.return_value],
            "received": list(log["received"]),
        }
        side["same_objects"] = len(msgs) == len([m for m in log["yielded"] if m is not None]) and all(a is b for a, b in zip(msgs, log["yielded"]))
    side["yielded"] = [canon_msg(m, devs) for m in log["yielded"]]
    side["received"] = list(log["received"])
    side["end"] = log["end"]
    side["falsy"] = bool(log.get("falsy"))
    side["rv_now"] = "unchanged" if sim.return_value is _SENTINEL else ["set", sim.return_value]
    gen.close()
    return obs, side


_RE = None


def _loop_ready():
    """the real (synchronous) check_limits needs bluesky's event loop running in its thread"""
    global _RE
    if _RE is None:
        from bluesky import RunEngine

        _RE = RunEngine({}, context_managers=[])
    return _RE


def run_limits(case):
    from bluesky.simulators import check_limits, check_limits_async

    devs = make_devices(case["devices"])
    log = {"yielded": [], "received": [], "end": None}
    gen = make_plan(case["plan"], devs, log)
    with warnings.catch_warnings(record=True) as w:
        warnings.simplefilter("always")
        try:
            if case.get("via") == "sync":
                _loop_ready()
                check_limits(gen)
            else:
                asyncio.run(check_limits_async(gen))
        except Exception as e:  # noqa: BLE001
            n = type(e).__name__
            k = len(log["yielded"]) - 1
            if n in ("LimitError", "AttributeError", "IndexError") and log["end"] is None:
                obs = {"outcome": n, "k": k}
            else:
                obs = {"outcome": "raised:" + n}
        else:
            names = []
            for x in w:
                t = str(x.message)
                if " has no check_value() method" in t:
                    names.append(t.split(" has no check_value() method")[0])
            obs = {"outcome": "ok", "warned": names}
    side = {"yielded": [canon_msg(m, devs) for m in log["yielded"]], "end": log["end"], "received": list(log["received"])}
    gen.close()
    return obs, side


def run_impl(case):
    return run_limits(case) if case["kind"] == "limits" else run_sim(case)


# ----------------------------------------------------------------------------- the property, on the implementation's observation
def _handler_class(case):
    if any(isinstance(h.get("index"), int) for h in case["handlers"]):
        return "int-index"
    if any(h["kind"] == "subscribe" or h.get("index") == "end" for h in case["handlers"]):
        return "with-end"
    return "default-index"


def oracle_sim(case, obs, side):
    bad = []
    raised_in_handler = "raised" in side["hlog"]
    if side["falsy"] or raised_in_handler:
        return bad  # outside the property's domain (stated); only the correspondence is checked
    hcls = _handler_class(case)
    end = side["end"]
    ny = len(side["yielded"])
    # (1) the returned list is exactly what the plan yielded, in order (same objects)
    if end and end[0] == "returned":
        if obs["outcome"] != "returned":
            bad.append((f"messages:plan-returned-but-{obs['outcome']}:{'no' if ny == 0 else 'some'}-yields", f"the plan returned {end[1]!r} after {ny} yields but simulate_plan ended with {obs['outcome']}"))
            return bad
        if obs["messages"] != side["yielded"] or not side["same_objects"]:
            bad.append((f"messages:returned-list-differs:{'no' if ny == 0 else 'some'}-yields", f"plan yielded {side['yielded']} but simulate_plan returned {obs['messages']}"))
    elif end and end[0] == "raised":
        if obs["outcome"] != "raised:" + end[1]:
            bad.append(("messages:plan-exception-not-propagated", f"the plan raised {end[1]} but simulate_plan ended with {obs['outcome']}"))
        return bad
    else:
        bad.append(("messages:plan-not-run-to-completion", f"the plan was left suspended after {ny} yields; outcome {obs['outcome']}"))
        return bad
    # (2) each yield receives the result of the newest matching handler (None when none matches)
    order = documented_order(case["handlers"])
    for i, cm in enumerate(side["yielded"]):
        got = side["received"][i] if i < len(side["received"]) else "<nothing>"
        matching = [j for j, h in enumerate(case["handlers"]) if spec_matches(h, cm, case["devices"])]
        if order is not None:
            first = next((j for j in order if j in matching), None)
            want = None if first is None else spec_result(case["handlers"][first], cm)
            if got != want:
                kind = "no-handler-matches" if first is None else ("newest-of-several" if len(matching) > 1 else "single-match")
                bad.append((f"sent-value:{kind}:{hcls}", f"message #{i} {cm}: the plan received {got!r}, the newest matching handler (#{first}) gives {want!r}"))
                break
        else:
            allowed = [spec_result(case["handlers"][j], cm) for j in matching] if matching else [None]
            if got not in allowed:
                bad.append((f"sent-value:not-a-matching-handler-result:{hcls}", f"message #{i} {cm}: the plan received {got!r}, matching handlers give {allowed!r}"))
                break
    # (3) the return value is recorded
    if obs["rv"] != ["set", end[1]]:
        when = "on-first-send" if ny == 0 else ("after-one-yield" if ny == 1 else "after-several-yields")
        bad.append((f"return-value:{when}", f"the plan returned {end[1]!r} after {ny} yields but return_value is {obs['rv']}"))
    return bad


def _offending(cm, devs_spec):
    if cm == "falsy" or cm[0] != "set" or cm[1] is None or not cm[2]:
        return False
    d = devs_spec[cm[1]]
    if d["kind"] == "plain":
        return False
    lo, hi = d["limits"]
    return lo < hi and not (lo <= cm[2][0] <= hi)


def _malformed_set(cm):
    return cm == "falsy" or (cm[0] == "set" and (cm[1] is None or not cm[2]))


def expected_messages(case):
    """what the plan yields when every yield receives None (fresh copy, harness-side)"""
    devs = make_devices(case["devices"])
    log = {"yielded": [], "received": [], "end": None}
    g = make_plan(case["plan"], devs, log)
    try:
        for _ in g:
            pass
    except Exception:  # noqa: BLE001
        pass
    return [canon_msg(m, devs) for m in log["yielded"]], log["end"]


def oracle_limits(case, obs, side):
    bad = []
    msgs, end = expected_messages(case)
    if any(_malformed_set(m) for m in msgs) or (end and end[0] == "raised"):
        return bad  # malformed stream: only the correspondence is checked
    off = [i for i, m in enumerate(msgs) if _offending(m, case["devices"])]
    raised = obs["outcome"] == "LimitError"
    where = case.get("via", "async")
    if off and not raised:
        m = msgs[off[0]]
        d = case["devices"][m[1]]
        edge = "just-outside" if (m[2][0] in (d["limits"][0] - 1, d["limits"][1] + 1)) else "far-outside"
        bad.append((f"check-limits:missed:{edge}:{d['kind']}", f"set {m} is outside limits {d['limits']} but check_limits ({where}) ended with {obs['outcome']}"))
    elif raised and not off:
        bad.append(("check-limits:spurious", f"check_limits raised at message #{obs.get('k')} but no set is out of limits: {msgs}"))
    elif raised and obs.get("k") != off[0]:
        bad.append(("check-limits:wrong-message", f"first out-of-limits set is #{off[0]} but check_limits raised at #{obs.get('k')}"))
    elif not raised and obs["outcome"] != "ok":
        bad.append(("check-limits:unexpected-exception", f"well-formed plan, nothing out of limits, but {obs['outcome']}"))
    return bad


def oracle(case, obs, side):
    return oracle_limits(case, obs, side) if case["kind"] == "limits" else oracle_sim(case, obs, side)


# ----------------------------------------------------------------------------- case generation
CMDS = ["a", "b", "set", "read", "subscribe", "wait"]


def gen_devices(rng, limits_focus=False):
    n = rng.choice([1, 2, 2, 3])
    devs = []
    for i in range(n):
        kind = rng.choice(["fake", "fake", "afake", "soft", "plain"] if limits_focus else ["fake", "plain", "fake"])
        lo = rng.choice([-3, -1, 0, 0, 2])
        hi = lo + rng.choice([0, 0, 1, 3, 5, -2])
        devs.append({"name": rng.choice(["m", f"d{i}"]), "kind": kind, "limits": [lo, hi]})
    return devs


def gen_expr(rng):
    r = rng.random()
    if r < 0.5:
        return ["c", rng.choice([-4, -1, 0, 1, 2, 3, 5, 6, 7])]
    if r < 0.8:
        return ["v", rng.randrange(NV)]
    return ["add", rng.randrange(NV), rng.choice([-1, 1, 2])]


def gen_msg(rng, ndev, cmds):
    return {"c": rng.choice(cmds), "o": rng.choice([None] + list(range(ndev)) * 2), "a": [gen_expr(rng) for _ in range(rng.choice([0, 1, 1, 1, 2]))], "g": rng.choice([None, None, "g1", "g2"])}


def gen_stmts(rng, ndev, cmds, depth, budget, malformed):
    out = []
    n = rng.choice([0, 1, 1, 2, 2, 3, 4]) if depth else rng.choice([1, 2, 3, 4, 5])
    for _ in range(n):
        if budget[0] <= 0:
            break
        r = rng.random()
        if r < 0.3:
            budget[0] -= 1
            out.append(["y", gen_msg(rng, ndev, cmds)])
        elif r < 0.6:
            budget[0] -= 1
            out.append(["r", rng.randrange(NV), gen_msg(rng, ndev, cmds)])
        elif r < 0.78 and depth < 3:
            c = rng.choice([["eq", rng.randrange(NV), rng.choice([0, 1, 3, 7])], ["lt", rng.randrange(NV), rng.choice([1, 4])], ["none", rng.randrange(NV)]])
            out.append(["if", c, gen_stmts(rng, ndev, cmds, depth + 1, budget, malformed), gen_stmts(rng, ndev, cmds, depth + 1, budget, malformed)])
        elif r < 0.86 and depth < 2:
            k = rng.choice([0, 1, 2, 3])
            b = [max(1, budget[0] // max(k, 1) // 2)]
            body = gen_stmts(rng, ndev, cmds, depth + 1, b, malformed)
            budget[0] -= k * 4
            out.append(["rep", k, body])
        elif r < 0.93:
            out.append(["ret", rng.choice([["c", None], ["c", rng.choice([0, 1, 42])], ["v", rng.randrange(NV)], ["add", rng.randrange(NV), 1]])])
        elif malformed and r < 0.965:
            out.append(["raise", rng.choice(sorted(EXC))])
        elif malformed:
            budget[0] -= 1
            out.append(["yraw"])
    return out


def gen_handler(rng, ndev, cmds, devs, malformed):
    if rng.random() < 0.08:
        return {"kind": "subscribe"}
    k = min(rng.choice([1, 1, 1, 2]), len(cmds))
    commands = rng.sample(cmds, k)
    f = rng.random()
    if f < 0.4:
        flt = None
    elif f < 0.6:
        flt = {"name": rng.choice([d["name"] for d in devs] + ["zz"])}
    else:
        flt = {"fn": rng.choice([["always", True], ["always", False], ["arg0_eq", rng.choice([0, 1, 3])], ["arg0_lt", rng.choice([1, 3, 6])], ["obj", rng.randrange(ndev)], ["group_eq", rng.choice(["g1", "g2"])]])}
    r = rng.random()
    if r < 0.55:
        res = ["const", rng.choice([None, 0, 1, 3, 7, 7, 9])]
    elif r < 0.95 or not malformed:
        res = ["arg0_plus", rng.choice([0, 1, 6])]
    else:
        res = rng.choice([["raise", "StopIteration", rng.choice([None, 5])], ["raise", "KeyError"]])
    i = rng.random()
    idx = None if i < 0.7 else ("end" if i < 0.85 else rng.choice([0, 1, 2, -1, -2, 5]))
    return {"kind": "add", "commands": commands, "single": k == 1 and rng.random() < 0.5, "filter": flt, "result": res, "index": idx}


def gen_sim_case(rng, malformed=False):
    devs = gen_devices(rng)
    cmds = rng.sample(CMDS, rng.choice([1, 2, 3]))
    plan = gen_stmts(rng, len(devs), cmds, 0, [rng.choice([3, 6, 12, 25])], malformed)
    hs = [gen_handler(rng, len(devs), cmds, devs, malformed) for _ in range(rng.choice([0, 1, 2, 2, 3, 4, 6]))]
    return {"kind": "sim", "devices": devs, "plan": plan, "handlers": hs}


def gen_limits_case(rng, malformed=False):
    devs = gen_devices(rng, limits_focus=True)
    stmts = []

    def setmsg():
        i = rng.randrange(len(devs))
        lo, hi = devs[i]["limits"]
        v = rng.choice([lo - 1, lo, lo + 1, hi - 1, hi, hi + 1, lo - 5, hi + 5, 0])
        o = i
        a = [["c", v]] + ([["c", 0]] if rng.random() < 0.1 else [])
        if malformed and rng.random() < 0.15:
            o = None
        if malformed and rng.random() < 0.15:
            a = []
        return {"c": "set", "o": o, "a": a, "g": rng.choice([None, "g1"])}

    for _ in range(rng.choice([0, 1, 2, 3, 5, 8])):
        r = rng.random()
        if r < 0.6:
            stmts.append(["y", setmsg()])
        elif r < 0.8:
            stmts.append(["y", gen_msg(rng, len(devs), ["read", "a", "wait"])])
        elif r < 0.9:
            stmts.append(["rep", rng.choice([0, 2]), [["r", 0, setmsg()], ["if", ["none", 0], [["y", setmsg()]], [["ret", ["c", 1]]]]]])
        elif malformed:
            stmts.append(rng.choice([["raise", "ValueError"], ["ret", ["c", 3]]]))
    return {"kind": "limits", "devices": devs, "plan": stmts, "via": "sync" if rng.random() < 0.3 else "async"}


def exhaustive_cases(big):
    """all plans of a tiny grammar x all handler lists of length <= 2 (3 when deep) over a small alphabet"""
    devs = [{"name": "m", "kind": "fake", "limits": [0, 3]}]
    A = {"c": "a", "o": 0, "a": [["c", 1]], "g": None}
    B = {"c": "b", "o": None, "a": [["v", 0]], "g": None}
    plans = [
        [],
        [["ret", ["c", 5]]],
        [["y", A]],
        [["r", 0, A], ["ret", ["v", 0]]],
        [["r", 0, A], ["if", ["eq", 0, 7], [["y", B], ["ret", ["c", 1]]], [["ret", ["v", 0]]]]],
        [["r", 0, A], ["r", 1, B], ["ret", ["add", 1, 0]]],
        [["rep", 2, [["r", 0, A], ["if", ["none", 0], [["y", B]], []]]], ["ret", ["v", 0]]],
    ]
    alpha = [
        {"kind": "add", "commands": ["a"], "filter": None, "result": ["const", 3], "index": None},
        {"kind": "add", "commands": ["a"], "single": True, "filter": {"name": "m"}, "result": ["const", 7], "index": None},
        {"kind": "add", "commands": ["a", "b"], "filter": {"fn": ["arg0_eq", 7]}, "result": ["arg0_plus", 1], "index": None},
        {"kind": "add", "commands": ["b"], "filter": None, "result": ["const", None], "index": "end"},
        {"kind": "add", "commands": ["a"], "filter": None, "result": ["const", 9], "index": "end"},
    ]
    if big:
        alpha.append({"kind": "add", "commands": ["a", "b"], "filter": {"name": "zz"}, "result": ["const", 1], "index": 1})
    for p in plans:
        for n in range(0, 4 if big else 3):
            for hs in itertools.product(alpha, repeat=n):
                yield {"kind": "sim", "devices": devs, "plan": p, "handlers": [dict(h) for h in hs]}
    # limits: one device, every (low, high) and value in a small box, via both entry points
    rng = range(-1, 3)
    for kind in ("fake", "afake", "soft"):
        for lo in rng:
            for hi in rng:
                for v in range(-2, 4):
                    yield {"kind": "limits", "devices": [{"name": "m", "kind": kind, "limits": [lo, hi]}, {"name": "p", "kind": "plain", "limits": [0, 0]}], "plan": [["y", {"c": "set", "o": 1, "a": [["c", 99]], "g": None}], ["y", {"c": "set", "o": 0, "a": [["c", 0 if lo <= 0 <= hi else lo]], "g": None}], ["y", {"c": "set", "o": 0, "a": [["c", v]], "g": None}], ["y", {"c": "set", "o": 1, "a": [["c", 5]], "g": None}]], "via": "sync" if (kind == "fake" and big) else "async"}


def _cases(ctx):
    corpus = C.VERIF / "corpus" / "C32"
    if corpus.exists():
        for f in sorted(corpus.glob("*.json")):
            yield json.loads(f.read_text())["case"]
    yield from exhaustive_cases(ctx.tier == "thorough" or ctx.deep)
    for i in range(ctx.budget(2500, 80000)):
        mal = i % 6 == 5
        if i % 3 == 2:
            yield gen_limits_case(ctx.rng, mal)
        else:
            yield gen_sim_case(ctx.rng, mal)


def _nontrivial(case, obs, side):
    if case["kind"] == "limits":
        return obs["outcome"] != "ok" or bool(obs.get("warned"))
    multi = False
    for cm in side["yielded"]:
        if cm != "falsy" and sum(1 for h in case["handlers"] if spec_matches(h, cm, case["devices"])) > 1:
            multi = True
    return multi or obs["outcome"] != "returned" or any(v is not None for v in side["received"])


def run(ctx, model=True):
    res = C.Result(
        rule="cases = corpus + exhaustive (7 tiny plans x all handler lists of length <= 2 (3 in thorough) over a 5-6 letter "
        "alphabet; 1 limited device x all (low, high, value) in a small box x 3 device kinds) + random plan ASTs (yield / "
        "receive-and-branch / loops / return / raise / falsy yield) with random handler sets (commands, name / callable "
        "filters, default / END / integer index, subscribe handler, raising handlers in the malformed stream) and random "
        "set-plans over fake, async-fake, ophyd SoftPositioner and check_value-less devices; non-trivial = several "
        "handlers match one message, a non-None value is received, the call raises, or check_limits raises / warns"
    )
    cases, obss = [], []
    for case in _cases(ctx):
        obs, side = run_impl(case)
        cases.append(case)
        obss.append(obs)
        res.seen(case, _nontrivial(case, obs, side))
        res.count(case["kind"])
        res.count("outcome:" + obs["outcome"].split(":")[0])
        if case["kind"] == "sim":
            res.count("handlers:" + _handler_class(case))
        for sig, what in oracle(case, obs, side):
            res.violations.append(C.Violation(sig, what, case))
    if model:
        replies = C.lean_batch(DRIVER, [json.dumps(c) for c in cases])
        for case, obs, rep in zip(cases, obss, replies):
            m = json.loads(rep)
            if m != obs:
                res.disagreements.append({"case": case, "model": m, "impl": obs})
        for i in (0, len(cases) // 2, len(cases) - 1):
            res.samples.append({"case": cases[i], "impl": obss[i], "model": json.loads(replies[i])})
    else:
        res.samples.append({"case": cases[-1], "impl": obss[-1]})
    return res


def run_impl_only(ctx):
    return run(ctx, model=False)


def replay(ctx, data):
    res = C.Result()
    case = data.get("case")
    if not case:
        return res
    obs, side = run_impl(case)
    for sig, what in oracle(case, obs, side):
        res.violations.append(C.Violation(sig, what, case))
    return res
