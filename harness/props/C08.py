"""C08 -- RunEngineInterrupted means paused unless the plan was terminated."""
from __future__ import annotations

import copy

import common as C
import re_probes as RP
import fault_probes as FP
import engine_common as E
import engine_extract
from engine_common import M, seq
from engine_impl import run_scenario

MANIFEST = {
    "text": "PARTIAL (open finding F4). Lean (Props/C08.lean, over the shared program-counter model of RunEngine._run): "
    "C08_interrupted_partial -- for every plan, script and fuel, when RE(plan) (or resume(), or abort()/stop()/halt() from "
    "paused) hands control back with the blocking event set, either _run sits at its pause point, the state is 'paused' "
    "AND _interrupted is set (so the call raises RunEngineInterrupted and 'paused' -> 'running' is in the generated table: "
    "resumable), or the task has ended, the state is 'idle', and no run is left open; C08_idle_means_closed; "
    "C08_normal_return_partial -- a call that returns normally ended with the task over, state idle, nothing open, "
    "_interrupted unset, and the loop left through a swallowing handler (StopIteration => plan exhausted); "
    "C08_interrupt_sources -- _interrupted is set only by a non-deferred pause, an ACCEPTED abort/stop/halt (a refused one stores nothing since fix 7236275) and a "
    "suspension request in a non-resumable section, and among the command handlers only by `pause`; "
    "C08_interrupted_idle_explained (history invariant through every block, request and the scheduler) -- if a call ends "
    "with _interrupted set and the engine idle, then its own logs show a transition into aborting/stopping/halting, OR the "
    "transition pausing->idle (= F4), OR a refused request (only a suspension request in a non-resumable section still stores the flag before an "
    "assignment that can be refused, which happens in aborting/stopping/halting where the first disjunct holds too -- that last step is not proved); "
    "C08_partial = the documented statement under the two hypotheses excluding these. "
    "C08_full (RunEngineInterrupted with state idle only after an abort/stop/halt/FailedPause) is FALSE on the unchanged "
    "tree: Counterexamples/C08.lean evaluates the F4 scenario (pause request in the exit sleep(0)) on the model.",
    "note": "Trusted: Lean kernel; engine_extract.py; hand-written _run machine tied by correspondence runs under the "
    "deterministic loop (harness/simloop.py). Threads/_state_lock, SIGINT and the panic path are not modelled.",
    "technique": "Lean 4 proof over a program-counter model of RunEngine._run with source-extracted tables + differential runs against the real RunEngine",
}
LEAN_MODULES = ["BlueskyVerif.Props.C08"]
DRIVER_MODULES = E.DRIVER_MODULES
DRIVER = E.DRIVER
ASSUMPTIONS = [
    "requests from other threads act atomically while _run is suspended at an await",
    "synchronous fake devices; statuses complete only when the script says so",
]

TERMINAL = ("aborting", "halting", "stopping")


def extract(ctx):
    return engine_extract.extract()


# ----------------------------------------------------------------------------- oracle
def segments(o):
    tk = o["ticks"]
    segs, lo = [], 0
    for i, hi in enumerate(tk["returns"]):
        segs.append({
            "ret": o["returns"][i],
            "text": o["return_texts"][i],
            "trans": [x for x, t in zip(o["trans"], tk["trans"]) if lo < t <= hi],
            "arr": [(k, kind) for k, (kind, t) in enumerate(zip(o["arrivals"], tk["arrivals"])) if lo < t <= hi],
            # runs that have a RunStart but no RunStop when the call hands control back
            "unclosed": sorted({d["run"] for d, t in zip(o["docs"], tk["docs"]) if t <= hi and d["k"] == "start"}
                               - {d["run"] for d, t in zip(o["docs"], tk["docs"]) if t <= hi and d["k"] == "stop"}),
        })
        lo = hi
    return segs


def requests_at(sc, idx):
    acts = sc.get("script", {}).get(str(idx), [])
    return [a["a"] + ("-deferred" if a.get("defer") else "") for a in acts if a["a"] in ("pause", "suspend", "abort", "stop", "halt")]


def oracle(sc, o):
    bad = []
    segs = segments(o)
    for i, g in enumerate(segs):
        op, result, state, interrupted, _defer, open_runs = g["ret"]
        if op not in ("call", "resume") or result == "hang":
            continue
        terminated = [b for a, b in g["trans"] if b in TERMINAL]
        s4 = [k for k, kind in g["arr"] if kind == "S4"]
        s4_reqs = requests_at(sc, s4[-1]) if s4 else []
        if result == "raise:RunEngineInterrupted":
            if state == "paused":
                # resumable: whatever the main thread decides next must be accepted
                if i + 1 < len(segs) and segs[i + 1]["ret"][1] == "raise:TransitionError":
                    nxt = segs[i + 1]["ret"]
                    bad.append((f"paused-but-not-resumable:{nxt[0]}", f"{op} raised RunEngineInterrupted in state paused but the following {nxt[0]}() raised TransitionError: {segs[i + 1]['text'][:80]}"))
            elif state == "idle":
                if not terminated:
                    refused = sorted({r for r in o["refused"] if r in ("abort", "stop", "halt")})
                    if o["plan_finished"] and "pause" in s4_reqs:
                        sig = "interrupted-but-idle-and-plan-complete:pause-request-at-S4"
                    elif refused:
                        # the request coroutines set _interrupted before the state assignment that raises TransitionError
                        sig = "interrupted-but-idle-without-termination:refused-" + "+".join(refused) + "-request"
                    elif o["plan_finished"] and s4_reqs:
                        sig = "interrupted-but-idle-and-plan-complete:" + "+".join(s4_reqs) + "-request-at-S4"
                    else:
                        reqs = sorted({r for k, _ in g["arr"] for r in requests_at(sc, k)})
                        sig = "interrupted-but-idle-without-termination:" + ("plan-complete:" if o["plan_finished"] else "") + "+".join(reqs or ["no-request"])
                    bad.append((sig, f"{op} raised RunEngineInterrupted, the engine is idle, but no abort/stop/halt/FailedPause happened in this call (transitions {g['trans']}, plan_finished={o['plan_finished']}, requests in the exit sleep: {s4_reqs}, refused: {o['refused']})"))
                if open_runs != 0 or g["unclosed"]:
                    bad.append((f"idle-with-open-runs:{op}", f"{op} raised RunEngineInterrupted, state idle, but {open_runs} run bundler(s) are left and runs {g['unclosed']} have no RunStop"))
            else:
                bad.append((f"interrupted-in-state:{state}", f"{op} raised RunEngineInterrupted and left the engine in state {state!r}"))
        elif result == "return":
            if state != "idle":
                bad.append((f"returned-but-not-idle:{state}", f"{op} returned normally but the engine is in state {state!r}"))
            if not o["plan_finished"]:
                bad.append((f"returned-but-plan-not-complete:{op}", f"{op} returned normally but the plan did not run to completion (transitions {g['trans']})"))
            if open_runs != 0 or g["unclosed"]:
                bad.append((f"returned-with-open-runs:{op}", f"{op} returned normally, state {state}, but {open_runs} run bundler(s) are left and runs {g['unclosed']} have no RunStop"))
    return bad


# ----------------------------------------------------------------------------- targeted generator
REQS = ["pause", "pause-deferred", "suspend", "abort", "stop", "halt"]


def make_action(kind, fut=0):
    if kind == "pause":
        return {"a": "pause", "defer": False}
    if kind == "pause-deferred":
        return {"a": "pause", "defer": True}
    if kind == "suspend":
        return {"a": "suspend", "fut": fut, "pre": None, "post": None, "just": None}
    return {"a": kind}


def base_plans():
    pt = [M("create", None, name="primary"), M("read", "d1"), M("save")]
    return {
        "ckpt": seq(M("open_run"), M("checkpoint"), *pt, M("checkpoint"), *pt, M("close_run")),
        "no-ckpt": seq(M("open_run"), *pt, M("close_run")),
        "clear": seq(M("open_run"), M("checkpoint"), *pt, M("clear_checkpoint"), *pt, M("close_run")),
        "open-left": seq(M("open_run"), M("checkpoint"), *pt),
        "ckpt-last": seq(M("open_run"), M("checkpoint"), *pt, M("close_run"), M("checkpoint")),
        "wait": seq(M("open_run"), M("checkpoint"), M("set", "m1", 1, group="g"), M("wait", None, group="g"), M("close_run")),
        "try": {"k": "try", "body": seq(M("open_run"), M("checkpoint"), *pt, M("close_run")), "handler": None, "fin": seq(M("null"))},
        "swallow": {"k": "try", "body": seq(M("open_run"), M("checkpoint"), *pt), "handler": seq(M("close_run")), "fin": None},
        "unrewindable": seq(M("open_run"), M("rewindable", None, False), M("checkpoint"), *pt, M("close_run")),
    }


DEVICES = {"m1": {"kind": "motor", "modes": {}}, "d1": {"kind": "det", "modes": {}, "offset": 1}}


def enumerate_all():
    """every arrival index x every request kind x every first decision, for each base plan"""
    out = []
    for name, plan in base_plans().items():
        sc0 = {"record_interruptions": name == "ckpt", "devices": copy.deepcopy(DEVICES), "plan": plan, "script": {}, "decisions": [], "max_arrivals": 120}
        if name == "wait":
            sc0["devices"]["m1"]["modes"] = {"set": ["pending"]}
        n = len(run_scenario(E.number(copy.deepcopy(sc0)))["arrivals"])
        for at in range(n):
            for kind in REQS:
                for dec in ("resume", "abort", "stop", "halt"):
                    if dec != "resume" and kind not in ("pause", "pause-deferred"):
                        continue
                    sc = copy.deepcopy(sc0)
                    sc["script"] = {str(at): [make_action(kind)]}
                    if kind == "suspend":
                        sc["script"].setdefault(str(at + 3), []).append({"a": "release", "fut": 0})
                    sc["decisions"] = [dec, "resume"]
                    sc["tag"] = f"{name}@{at}/{n}:{kind}:{dec}"
                    out.append(E.number(sc))
    return out


def gen(rng):
    r = rng.random()
    if r < 0.25:
        return E.gen_scenario(rng, dense=rng.random() < 0.5)
    plans = base_plans()
    name = rng.choice(sorted(plans))
    plan = plans[name] if rng.random() < 0.6 else E.gen_plan(rng, size=rng.choice([1, 2]))
    sc = {"record_interruptions": rng.random() < 0.3, "devices": E.gen_devices(rng) if rng.random() < 0.4 else copy.deepcopy({**DEVICES, "m2": {"kind": "motor", "modes": {}}, "d2": {"kind": "det", "modes": {}, "offset": 2}, "s1": {"kind": "sig"}}),
          "plan": plan, "script": {}, "decisions": [rng.choice(["resume", "resume", "abort", "stop", "halt"]) for _ in range(5)], "max_arrivals": 200}
    n = len(run_scenario(E.number(copy.deepcopy(sc)))["arrivals"])
    script, fut = {}, 0
    for _ in range(rng.choice([1, 1, 2, 2, 3])):
        r = rng.random()
        at = n - 1 if r < 0.35 else max(0, n - 2) if r < 0.5 else max(0, n - 3) if r < 0.6 else rng.randrange(0, n + 1)
        kind = rng.choice(REQS)
        act = make_action(kind, fut)
        if kind == "suspend":
            if rng.random() < 0.3:
                act["pre"] = E.small_plan(rng)
            if rng.random() < 0.3:
                act["post"] = E.small_plan(rng)
            if rng.random() < 0.7:
                script.setdefault(str(at + rng.randrange(1, 5)), []).append({"a": "release", "fut": fut})
            fut += 1
        script.setdefault(str(at), []).append(act)
    sc["script"] = script
    return E.number(sc)


_ENUM = None


def _probe_c08(sc, o):
    """RunEngineInterrupted <=> the engine is paused (resumable) or the plan was terminated; judged on each blocking call"""
    bad = []
    for r in o["returns"]:
        if r[1] == "raise:RunEngineInterrupted" and r[2] not in ("paused", "idle"):
            bad.append((f"interrupted-but-{r[2]}", f"{r[0]} raised RunEngineInterrupted while the engine was in state {r[2]!r} (neither paused nor idle)"))
    return bad


PROBE_JUDGES = [FP.ends_usable, _probe_c08, FP.every_run_closed_once]


def run(ctx, model=True):
    global _ENUM
    if _ENUM is None:
        _ENUM = enumerate_all()
    extra = _ENUM if (ctx.tier == "thorough" or ctx.deep) else ctx.rng.sample(_ENUM, 50)
    res = E.run_property(ctx, "C08", oracle, gen=gen, quick=60, thorough=2000, model=model, extra_scenarios=extra)
    FP.run_probes(ctx, res, PROBE_JUDGES, ["pause-hook", "teardown-request"], 10, 150)
    FP.run_probes(ctx, res, [FP.ends_usable, FP.every_run_closed_once], ["close"], 15, 300)
    RP.add_to(res, ["second-call"])
    return res


def run_impl_only(ctx):
    return run(ctx, model=False)


def replay(ctx, data):
    r = RP.replay(data)
    if r is not None:
        return r
    if FP.is_probe(data):
        return FP.replay_probe(ctx, data, PROBE_JUDGES)
    return E.replay_property(ctx, data, oracle)
