"""C11 -- suspension holds the plan until release, then runs the post-plan and rewinds.

Tie: (T) `extract` regenerates Engine/Generated.lean (shared engine facts) and
lean/BlueskyVerif/Suspender/StartGenerated.lean: the statement order of `RunEngine._start_suspender`, the
yield order of its helper plan and the default justification, read off the CURRENT source with `ast`
(Props/C11.lean states the helper order against that generated shape).  (C) the hand-written engine model
(Engine/Model.lean, Sim.lean) and the real RunEngine are run on the same targeted scenarios: suspensions
at every arrival index of `_run`, with/without pre/post plans, release early / late / by default,
sequential and overlapping suspensions, pause interplay, unresumable sections.
The oracle below is the property stated on the IMPLEMENTATION's observation.
"""
from __future__ import annotations

import ast
import copy
import json

import common as C
import re_probes as RP
import engine_common as E
import engine_extract
import engine_impl

MANIFEST = {
    "text": "PARTIAL (one open finding, F5: overlapping suspensions with distinct futures). Lean (Props/C11.lean) over the "
    "engine model: the helper generator pushed by `_start_suspender` yields exactly rewindable(False), pre-plan, wait_for, "
    "_resume_from_suspender, post-plan, rewindable(was), replay -- in the order GENERATED from the source -- for all "
    "list-like pre/post plans and caches; `_start_suspender` stops every moved device, records the interruption per run, "
    "empties the cache, rewinds the bundlers and pushes helper + None; a `wait_for` on an unreleased future blocks and stays "
    "blocked (state and message log unchanged) through ANY number of environment rounds that neither release it nor "
    "cancel the task; none of request / start / wait / release sets the blocking event; a re-trip with the SAME future "
    "blocks again on that future without touching the plans below (all states, by symbolic execution of 4 rounds). "
    "C11_overlapping_full is stated and refuted in the model (Counterexamples/C11.lean).",
    "note": "Trusted: Lean kernel; engine_extract.py + the `_start_suspender` extractor in this file; the hand-written `_run` "
    "machine is tied by differential runs under harness/simloop.py; threads/SIGINT not modelled; installed suspender "
    "objects are covered by C31.  A pause + resume during a suspension is manual control (docs/state-machine.rst) and "
    "ends the obligation.",
    "technique": "Lean 4 proof over a program-counter model of RunEngine._run with source-extracted tables + differential runs against the real RunEngine",
}
LEAN_MODULES = ["BlueskyVerif.Props.C11"]
DRIVER_MODULES = E.DRIVER_MODULES
DRIVER = E.DRIVER
ASSUMPTIONS = [
    "requests from other threads act atomically while _run is suspended at an await",
    "synchronous fake devices; statuses complete only when the script says so",
    "a suspension future is an asyncio.Event released by the script (or by the harness at quiescence when nothing is scripted)",
]
F5_SIG = "plan-resumed-while-first-suspension-still-held:overlapping-suspensions"


# ----------------------------------------------------------------------------- (T) extractor
class Unextractable(Exception):
    pass


def _is_msg_yield(st, cmd):
    """`yield Msg("<cmd>", None, ...)` -> the Call node, else None"""
    if isinstance(st, ast.Expr) and isinstance(st.value, ast.Yield) and isinstance(st.value.value, ast.Call):
        c = st.value.value
        if isinstance(c.func, ast.Name) and c.func.id == "Msg" and c.args and isinstance(c.args[0], ast.Constant) and c.args[0].value == cmd:
            return c
    return None


def _yield_from_of(st):
    if isinstance(st, ast.Expr) and isinstance(st.value, ast.YieldFrom):
        v = st.value.value
        if isinstance(v, ast.Call) and isinstance(v.func, ast.Name) and v.func.id == "ensure_generator" and len(v.args) == 1 and isinstance(v.args[0], ast.Name):
            return v.args[0].id
        if isinstance(v, ast.Name):
            return v.id
    return None


def _helper_shape(fn):
    shape = []
    for st in fn.body:
        if isinstance(st, ast.Expr) and isinstance(st.value, ast.Constant):
            continue  # docstring
        c = _is_msg_yield(st, "rewindable")
        if c is not None:
            if len(c.args) != 3:
                raise Unextractable("rewindable message shape")
            a = c.args[2]
            if isinstance(a, ast.Constant) and a.value is False:
                shape.append("rewindable:false")
            elif isinstance(a, ast.Constant) and a.value is True:
                shape.append("rewindable:true")
            elif isinstance(a, ast.Name) and a.id == "was_rewindable":
                shape.append("rewindable:was")
            else:
                raise Unextractable("rewindable argument " + ast.dump(a))
            continue
        if _is_msg_yield(st, "wait_for") is not None:
            c = _is_msg_yield(st, "wait_for")
            ok = len(c.args) == 3 and isinstance(c.args[2], ast.List) and len(c.args[2].elts) == 1 and isinstance(c.args[2].elts[0], ast.Name) and c.args[2].elts[0].id == "fut" and not c.keywords
            if not ok:
                raise Unextractable("wait_for message shape")
            shape.append("wait_for")
            continue
        if _is_msg_yield(st, "_resume_from_suspender") is not None:
            shape.append("_resume_from_suspender")
            continue
        if isinstance(st, ast.If) and isinstance(st.test, ast.Compare) and isinstance(st.test.left, ast.Name) and isinstance(st.test.ops[0], ast.IsNot) and not st.orelse and len(st.body) == 1:
            nm = _yield_from_of(st.body[0])
            if nm == st.test.left.id and nm in ("pre_plan", "post_plan"):
                shape.append("pre" if nm == "pre_plan" else "post")
                continue
        nm = _yield_from_of(st)
        if nm == "rewind_plan":
            shape.append("rewind")
            continue
        raise Unextractable("helper statement not recognised: " + ast.unparse(st)[:80])
    return shape


def extract_start(write=True):
    """statement order of `_start_suspender`, yield order of its helper, default justification"""
    tree = ast.parse((C.SRC / "run_engine.py").read_text())
    re_cls = next(n for n in tree.body if isinstance(n, ast.ClassDef) and n.name == "RunEngine")
    fn = next(n for n in re_cls.body if isinstance(n, ast.AsyncFunctionDef) and n.name == "_start_suspender")
    steps, shape, default = [], None, None
    for st in fn.body:
        src = ast.unparse(st)
        if isinstance(st, ast.Expr) and isinstance(st.value, ast.Constant):
            continue
        if isinstance(st, ast.Assign) and isinstance(st.value, ast.Attribute) and st.value.attr == "args":
            if ast.unparse(st.targets[0]).replace(" ", "") != "(pre_plan,post_plan,justification,fut)":
                raise Unextractable("argument unpacking of _start_suspender changed: " + src)
            continue
        if isinstance(st, ast.For) and "record_interruption" in src and "_run_bundlers" in ast.unparse(st.iter):
            call = next(n for n in ast.walk(st) if isinstance(n, ast.Call) and isinstance(n.func, ast.Attribute) and n.func.attr == "record_interruption")
            a = call.args[0]
            if isinstance(a, ast.IfExp) and isinstance(a.orelse, ast.Constant) and ast.unparse(a.test) == "justification is not None" and ast.unparse(a.body) == "justification":
                default = a.orelse.value
            else:
                raise Unextractable("record_interruption argument: " + ast.unparse(a))
            steps.append("record_interruption")
            continue
        if isinstance(st, ast.Expr) and isinstance(st.value, ast.Await) and "_stop_movable_objects" in src:
            steps.append("stop_movables")
            continue
        if isinstance(st, ast.For) and "_objs_seen" in ast.unparse(st.iter) and "pause()" in src:
            steps.append("pause_hooks" + (":noreplay-resets" if "_reset_checkpoint_state_meth" in src and "NoReplayAllowed" in src else ""))
            continue
        if isinstance(st, ast.Assign) and ast.unparse(st.value) == "self._rewind()":
            steps.append("rewind")
            continue
        if isinstance(st, ast.Assign) and ast.unparse(st.value) == "self.rewindable" and ast.unparse(st.targets[0]) == "was_rewindable":
            steps.append("was")
            continue
        if isinstance(st, ast.If) and ast.unparse(st.test) in ("callable(pre_plan)", "callable(post_plan)"):
            continue
        if isinstance(st, ast.FunctionDef) and st.name == "suspender_helper_inner_plan":
            shape = _helper_shape(st)
            continue
        if src == "self._plan_stack.append(suspender_helper_inner_plan())":
            steps.append("push_helper")
            continue
        if src == "self._response_stack.append(None)":
            steps.append("push_none")
            continue
        raise Unextractable("_start_suspender statement not recognised: " + src[:100])
    if shape is None or default is None:
        raise Unextractable("helper plan / default justification not found")
    # the request coroutine: states assigned and whether the task is cancelled
    rs = next(n for n in re_cls.body if isinstance(n, ast.FunctionDef) and n.name == "request_suspend")
    inner = next(n for n in rs.body if isinstance(n, ast.AsyncFunctionDef) and n.name == "_request_suspend")
    states = [n.value.value for n in ast.walk(inner) if isinstance(n, ast.Assign) and any(isinstance(t, ast.Attribute) and t.attr == "_state" for t in n.targets) and isinstance(n.value, ast.Constant)]
    pushes = [ast.unparse(n) for n in ast.walk(inner) if isinstance(n, ast.Call) and isinstance(n.func, ast.Attribute) and n.func.attr == "append"]
    cancels = sum(1 for n in ast.walk(inner) if isinstance(n, ast.Call) and isinstance(n.func, ast.Attribute) and n.func.attr == "cancel")
    if not any("_start_suspender" in p for p in pushes):
        raise Unextractable("_request_suspend no longer pushes the _start_suspender message")
    facts = {"start_suspender_steps": steps, "helper_shape": shape, "default_justification": default, "request_states": states, "request_cancels": cancels,
             "where": f"run_engine.py:{fn.lineno} (_start_suspender), :{rs.lineno} (request_suspend)"}
    if write:
        L = ["-- GENERATED by harness/props/C11.py from src/bluesky/run_engine.py (_start_suspender, request_suspend) -- do not edit.",
             "namespace BlueskyVerif.Suspender.SrcStart", "",
             "/-- statement order of `RunEngine._start_suspender` -/",
             f"def steps : List String := {engine_extract.lean_str_list(steps)}", "",
             "/-- yield order of `suspender_helper_inner_plan` -/",
             f"def helperShape : List String := {engine_extract.lean_str_list(shape)}", "",
             f'def defaultJustification : String := "{default}"', "",
             "/-- states assigned by `_request_suspend`, and how many `self._task.cancel()` calls it has -/",
             f"def requestStates : List String := {engine_extract.lean_str_list(states)}",
             f"def requestCancels : Nat := {cancels}", "",
             "end BlueskyVerif.Suspender.SrcStart", ""]
        C.write_if_changed(C.LEAN / "BlueskyVerif" / "Suspender" / "StartGenerated.lean", "\n".join(L))
    return facts


def extract(ctx):
    facts = engine_extract.extract()
    facts["C11"] = extract_start()
    return facts


# ----------------------------------------------------------------------------- attribution of helper messages
class _Fac:
    """awaitable factory carrying the id of its future (so that `_start_suspender` / `wait_for` messages can be
    attributed to the suspension they belong to)"""

    def __init__(self, H, fid):
        self.H, self.fid = H, fid

    def __call__(self):
        import asyncio

        ev = self.H.futs.get(self.fid)
        if ev is None:
            ev = self.H.futs[self.fid] = asyncio.Event()
        return ev.wait()


def _closure_act(fn):
    for c in getattr(fn, "__closure__", None) or ():
        v = c.cell_contents
        if isinstance(v, dict) and v.get("a") == "suspend":
            return v
    return None


class Harness11(engine_impl.Harness):
    def fut_factory(self, fid):
        return _Fac(self, fid)

    def msg_hook(self, msg):
        super().msg_hook(msg)
        i = len(self.msgs) - 1
        try:
            if msg.command == "_start_suspender":
                pre, post, just, fut = msg.args
                act = _closure_act(pre) or _closure_act(post) or {}
                self.notes.append("c11:" + json.dumps({"i": i, "k": "start", "fut": getattr(fut, "fid", None), "just": just,
                                                       "pre": _mids(act.get("pre")), "post": _mids(act.get("post"))}))
            elif msg.command == "wait_for" and self.msg_ids.get(id(msg)) is None:
                self.notes.append("c11:" + json.dumps({"i": i, "k": "wait", "futs": [getattr(f, "fid", None) for f in msg.args[0]]}))
        except Exception as e:  # noqa
            self.notes.append("c11-error:" + repr(e))


def _install():
    """use the attributing harness (only once this module actually runs scenarios; forked workers inherit it)"""
    engine_impl.Harness = Harness11


def _mids(st):
    out = []

    def walk(s):
        if s is None:
            return
        if s["k"] == "msg":
            out.append(s.get("id"))
        elif s["k"] == "seq":
            for x in s["body"]:
                walk(x)
        elif s["k"] == "try":
            walk(s["body"])
            walk(s.get("handler"))
            walk(s.get("fin"))

    walk(st)
    return out


def _stmts(st, acc):
    if st is None:
        return acc
    if st["k"] == "msg":
        acc[st.get("id")] = st
    elif st["k"] == "seq":
        for x in st["body"]:
            _stmts(x, acc)
    elif st["k"] == "try":
        _stmts(st["body"], acc)
        _stmts(st.get("handler"), acc)
        _stmts(st.get("fin"), acc)
    return acc


# ----------------------------------------------------------------------------- the oracle
INTERFERING = ("abort", "stop", "halt")
_FACTS = {}


def _facts():
    if not _FACTS:
        f = engine_extract.extract()
        _FACTS["uncacheable"] = set(f["uncacheable"])
        _FACTS["resets"] = set(f["resets_checkpoint"])
        _FACTS["toggle"] = bool(f["rewindable_toggle_resets"])
    return _FACTS


def release_ticks(sc, o, waits):
    """first tick at which each future is released: a scripted `release` at an arrival, or the harness default at a
    quiescence arrival that has nothing scripted (every future known by then)."""
    script = {int(k): v for k, v in sc.get("script", {}).items()}
    rel = {}
    known_at = {}  # fut -> tick at which the harness got to know it (first wait_for on it)
    for w in waits:
        for f in w["futs"]:
            known_at.setdefault(f, w["tick"])
    for n, (kind, t) in enumerate(zip(o["arrivals"], o["ticks"]["arrivals"])):
        if n >= sc.get("max_arrivals", 400):
            break
        acts = script.get(n, [])
        if acts:
            for a in acts:
                if a["a"] == "release":
                    rel.setdefault(a["fut"], t)
                    known_at.setdefault(a["fut"], t)
        elif kind == "quiesce":
            for f, kt in known_at.items():
                if kt < t:
                    rel.setdefault(f, t)
    return rel


UNRESUMABLE = "unresumable"


def expected_cache(sc, o, upto, stmts):
    """C04's rule, replayed over the executed messages before index `upto` (only used when no exception was ever
    delivered to a generator, so every command succeeded): the message indices that a rewind would replay."""
    F = _facts()
    cache, rew = [], True
    was_stack = []
    phase = []  # per open helper: number of engine `rewindable` messages seen
    events = [(t, "m", k) for k, t in enumerate(o["ticks"]["msgs"][:upto])]
    t_upto = o["ticks"]["msgs"][upto]
    events += [(t, "r", k) for k, t in enumerate(o["ticks"]["returns"]) if t < t_upto]
    for t, kind, k in sorted(events):
        if kind == "r":
            if o["returns"][k][2] == "paused" and cache is not None:
                cache = []  # resume()/abort() follow at once: _rewind
            continue
        cmd, _obj, _run, mid = o["msgs"][k]
        if cache is not None and rew and cmd not in F["uncacheable"]:
            cache.append(k)
        if cmd in F["resets"]:
            if cache is not None:
                cache = []
        elif cmd == "clear_checkpoint":
            cache = None
        elif cmd == "_start_suspender":
            if cache is not None:
                cache = []
            was_stack.append(rew)
            phase.append(0)
        elif cmd == "rewindable":
            if mid is not None:
                args = stmts.get(mid, {}).get("args", [])
                if not args:
                    continue
                v = bool(args[0])
            elif phase:
                phase[-1] += 1
                if phase[-1] == 1:
                    v = False
                else:
                    v = was_stack.pop()
                    phase.pop()
            else:
                return None
            if v != rew and cache is not None and F["toggle"]:
                cache = []
            rew = v
    return UNRESUMABLE if cache is None else cache


def oracle(sc, o):
    bad = []
    notes = [json.loads(n[4:]) for n in o.get("notes", []) if n.startswith("c11:")]
    if any(n.startswith("c11-error") for n in o.get("notes", [])):
        bad.append(("harness-attribution-error", str([n for n in o["notes"] if n.startswith("c11-error")][:1])))
    if any("max_arrivals" in n or "deadlock" in n or "hang" in n for n in o.get("notes", [])):
        return bad
    msgs, T = o["msgs"], o["ticks"]
    tm = T["msgs"]
    INF = 10**12
    stmts = _stmts(sc["plan"], {})
    plan_mids = set(stmts)
    stmts_all = dict(stmts)
    for acts in sc.get("script", {}).values():
        for a in acts:
            if a["a"] == "suspend":
                _stmts(a.get("pre"), stmts_all)
                _stmts(a.get("post"), stmts_all)
    starts = [dict(n, tick=tm[n["i"]]) for n in notes if n["k"] == "start"]
    waits = [dict(n, tick=tm[n["i"]]) for n in notes if n["k"] == "wait"]
    if not starts:
        return bad
    rel = release_ticks(sc, o, waits)
    script = {int(k): v for k, v in sc.get("script", {}).items()}
    # ticks of interfering requests (manual control / termination) and of exceptions delivered to a plan
    interf = []
    for n, t in enumerate(T["arrivals"]):
        for a in script.get(n, []):
            if a["a"] in INTERFERING or (a["a"] == "pause" and not a.get("defer")):
                interf.append(t)
    for k, m in enumerate(msgs):
        if m[0] == "pause" and not stmts_all.get(m[3], {}).get("kw", {}).get("defer"):
            interf.append(tm[k])
    throws = [t for y, t in zip(o["yields"], T["yields"]) if y[1] in ("throw", "caught") or (y[1] == "send" and isinstance(y[2], str) and y[2].startswith("exc:"))]
    rets = T["returns"]
    first_seen = {}
    for k, m in enumerate(msgs):
        if m[3] is not None:
            first_seen.setdefault(m[3], k)
    noreplay = any("noreplay" in (d.get("modes", {}).get("pause", [])) for d in sc.get("devices", {}).values())
    for si, S in enumerate(starts):
        i, t0, f = S["i"], S["tick"], S["fut"]
        # `_start_suspender` runs synchronously: its effects lie between its msg_hook call and _run's next suspension point
        t_next = min([tm[i + 1] if i + 1 < len(msgs) else INF] + [t for t in T["arrivals"] if t > t0][:1])
        just = S["just"] if S["just"] is not None else "suspended"
        # ---- (b) every device that was set is told to stop, right at _start_suspender
        moved = sorted({e[0] for e, t in zip(o["ledger"], T["ledger"]) if e[1] == "set" and t < t0})
        stopped = [e[0] for e, t in zip(o["ledger"], T["ledger"]) if e[1] == "stop" and t0 < t < t_next]
        for d in moved:
            if d not in stopped:
                bad.append(("moved-device-not-stopped-at-suspension", f"{d} was set before the suspension (message #{i}) but got no stop() when it started; stops: {stopped}"))
        # ---- (f) the interruption is recorded for every open run when requested
        open_runs = []
        for d, t in zip(o["docs"], T["docs"]):
            if t < t0 and d["k"] == "start":
                open_runs.append(d["run"])
            if t < t0 and d["k"] == "stop" and d["run"] in open_runs:
                open_runs.remove(d["run"])
        ints = [d for d, t in zip(o["docs"], T["docs"]) if t0 < t < t_next and d["k"] == "event" and d.get("stream") == "interruptions"]
        if sc.get("record_interruptions"):
            got = sorted((d["run"], d["data"].get("interruption")) for d in ints)
            want = sorted((r, just) for r in open_runs)
            if got != want:
                bad.append(("interruption-not-recorded", f"suspension at message #{i} (justification {just!r}): interruption events {got}, expected {want}"))
        elif ints:
            bad.append(("interruption-recorded-although-off", f"record_interruptions is off but {len(ints)} interruption events appeared"))
        # ---- window of this suspension
        t_rel = rel.get(f, INF)
        t_int = min([t for t in interf if t > t0] + [INF])
        t_thr = min([t for t in throws if t > t0] + [INF])
        t_cut = min(t_rel, t_int, t_thr)
        others = [S2 for S2 in starts if S2["i"] > i]
        # ---- (c) no plan message while the future is unreleased
        for k in range(i + 1, len(msgs)):
            if tm[k] >= t_cut:
                break
            if msgs[k][3] in plan_mids:
                between = [S2 for S2 in others if S2["i"] < k]
                if any(S2["fut"] != f for S2 in between):
                    sig = F5_SIG
                elif between:
                    sig = "plan-message-while-suspended:same-future-retrip"
                else:
                    sig = "plan-message-while-suspended:single-suspension"
                bad.append((sig, f"suspension #{si} (future {f}) started at message #{i}; plan message {msgs[k][:2]} (id {msgs[k][3]}) ran as message #{k} although future {f} "
                            f"was {'never released' if t_rel == INF else 'released only later'}" + (f"; {len(between)} later suspension(s) with futures {[s['fut'] for s in between]} started in between" if between else "")))
                break
        # ---- (a)+(d) order of the helper's own messages, up to the point where something else interferes
        seq_end = len(msgs)  # the first NEW plan message after the suspension started
        for k in range(i + 1, len(msgs)):
            if msgs[k][3] in plan_mids and first_seen.get(msgs[k][3]) == k:
                seq_end = k
                break
        t_seq_end = tm[seq_end] if seq_end < len(msgs) else INF
        cut = min(t_int, t_thr, min([S2["tick"] for S2 in others] + [INF]))
        fixed = [["_start_suspender", None], ["rewindable", None]] + [["*", m] for m in S["pre"]] + [["wait_for", None], ["_resume_from_suspender", None]] + [["*", m] for m in S["post"]] + [["rewindable", None]]
        order_txt = f"expected order: _start_suspender, rewindable, pre-plan {S['pre']}, wait_for, _resume_from_suspender, post-plan {S['post']}, rewindable, replay, next plan message"
        obs = [[m[0], m[3]] for m, t in zip(msgs[i:seq_end], tm[i:seq_end]) if t < cut]
        ok_order = True
        for k in range(min(len(fixed), len(obs))):
            e, g = fixed[k], obs[k]
            if (e[0] != "*" and e[0] != g[0]) or e[1] != g[1]:
                bad.append(("helper-order", f"suspension #{si} at message #{i}: helper message {k} is {g}, expected {e} ({order_txt})"))
                ok_order = False
                break
        if ok_order and len(obs) < len(fixed) and t_seq_end < cut:
            bad.append(("helper-order", f"suspension #{si} at message #{i}: the plan went on with message #{seq_end} after only {obs}; {order_txt}"))
            ok_order = False
        if ok_order and len(obs) >= len(fixed):
            # ---- the replay (C04's rule), when every command so far is known to have succeeded
            rep = []
            for g in obs[len(fixed):]:
                if g[1] in plan_mids:
                    rep.append(g[1])
                else:
                    break
            complete = len(fixed) + len(rep) < len(obs) or t_seq_end < cut or (seq_end == len(msgs) and cut == INF)
            cache = None
            # a command that failed just before the suspension shows only when its exception is delivered to the plan,
            # i.e. at the first thing the plan receives after the helper
            nxt = next(((y, t) for y, t in zip(o["yields"], T["yields"]) if t > t0 and y[0] in plan_mids), None)
            failed_before = nxt is not None and (nxt[0][1] in ("throw", "caught") or (isinstance(nxt[0][2], str) and nxt[0][2].startswith("exc:")))
            if not [t for t in throws if t < min(t_seq_end, cut)] and not noreplay and not failed_before:
                cache = expected_cache(sc, o, i, stmts)
            if cache == UNRESUMABLE:
                # cross-check with C10: after clear_checkpoint a suspension request must end in FailedPause, not in a helper
                bad.append(("suspension-started-in-unresumable-section", f"suspension #{si} at message #{i} started although the plan had cleared its checkpoint"))
                cache = None
            if cache is not None:
                want = [msgs[k][3] for k in cache]
                # a suspension that started before an earlier helper was through (no new plan message since) is followed
                # by the rest of that helper (its own replay): only the beginning of `rep` is this helper's replay
                rewinds = [P0["i"] for P0 in starts if P0["i"] < i]
                for rr, rt in zip(o["returns"], rets):
                    if rr[2] == "paused" and rt < t0:  # a resume() followed: its replay list sits below this helper
                        rewinds.append(next((k for k in range(len(msgs)) if tm[k] > rt), i))
                nested_in = any(not any(msgs[k][3] in plan_mids and first_seen.get(msgs[k][3]) == k for k in range(r0, i)) for r0 in rewinds)
                if nested_in:
                    k0 = min(len(rep), len(want))
                    good = rep[:k0] == want[:k0] and (len(rep) >= len(want) or not complete)
                elif complete:
                    good = rep == want
                else:
                    good = rep == want[: len(rep)]
                if not good:
                    bad.append(("replay-differs-from-cache", f"suspension #{si} at message #{i}: replayed message ids {rep}, the messages cached since the last checkpoint are {want}"))
            elif any(first_seen.get(m, INF) >= i for m in rep):
                bad.append(("replay-differs-from-cache", f"suspension #{si}: replay {rep} contains messages that never ran before"))
        # ---- (c') the helper itself goes on only after the release
        w = next((x for x in waits if x["i"] > i and x["futs"] == [f]), None)
        if w is not None and not any(S2["i"] < w["i"] for S2 in others):
            depth = 0
            for k in range(w["i"] + 1, len(msgs)):
                if tm[k] >= t_cut:
                    break
                if msgs[k][0] == "_start_suspender":
                    depth += 1
                elif msgs[k][0] == "_resume_from_suspender":
                    if depth == 0:
                        between = [S2 for S2 in others if S2["i"] < k]
                        sig = F5_SIG if any(S2["fut"] != f for S2 in between) else "resumed-before-release:" + ("same-future-retrip" if between else "single-suspension")
                        bad.append((sig, f"suspension #{si} (future {f}): _resume_from_suspender ran as message #{k} although future {f} was "
                                    f"{'never released' if t_rel == INF else 'released only later'}" + (f"; later suspension(s) on futures {[s['fut'] for s in between]} started in between" if between else "")))
                        break
                    depth -= 1
        # ---- (e) control does not go back to the caller during the suspension
        hi = min(t_seq_end if seq_end < len(msgs) else tm[-1], t_int, t_thr)
        if any(t0 < r < hi for r in rets):
            bad.append(("returned-to-caller-during-suspension", f"suspension #{si} at message #{i}: a blocking call returned (returns {o['returns']}) before the suspension was over"))
    # de-duplicate signatures (one report per class and scenario)
    seen, out = set(), []
    for sig, what in bad:
        if sig not in seen:
            seen.add(sig)
            out.append((sig, what))
    return out


# ----------------------------------------------------------------------------- targeted generator
M, seq = E.M, E.seq
NOOP = {"a": "status", "id": 97, "ok": True}  # keeps a quiescence round busy without doing anything


def clean_plan(rng):
    """a well-formed plan: one or two runs of checkpointed points, with moves, waits, sleeps, bundles"""
    body = []
    staged = [d for d in ("m1", "d1") if rng.random() < 0.3]
    body += [M("stage", d) for d in staged]
    for r in range(rng.choice([1, 1, 2])):
        body.append(M("open_run"))
        if rng.random() < 0.2:
            body.append(M("monitor", "s1", name="s1_monitor"))
            mon = True
        else:
            mon = False
        for p in range(rng.choice([1, 2, 2, 3])):
            if rng.random() < 0.9:
                body.append(M("checkpoint"))
            g = rng.choice([None, "g"])
            for m in ("m1", "m2"):
                if rng.random() < 0.6:
                    body.append(M("set", m, rng.choice([1, 2, 3]), **({"group": g} if g else {})))
            if rng.random() < 0.7:
                body.append(M("wait", None, group=g))
            if rng.random() < 0.3:
                body.append(M("sleep", None, rng.choice([0, 1, 3])))
            if rng.random() < 0.3:
                body += [M("trigger", "d1", group="t"), M("wait", None, group="t")]
            body += [M("create", None, name="primary"), M("read", "d1"), M("save")]
            r2 = rng.random()
            if r2 < 0.08:
                body.append(M("clear_checkpoint"))
            elif r2 < 0.16:
                body.append(M("rewindable", None, rng.random() < 0.5))
            elif r2 < 0.24:
                body.append(M("null"))
        if mon and rng.random() < 0.6:
            body.append(M("unmonitor", "s1"))
        body.append(M("close_run"))
    body += [M("unstage", d) for d in reversed(staged)]
    if staged and rng.random() < 0.5:
        n = len(staged)
        return {"k": "try", "body": seq(*body[:-n]), "handler": None, "fin": seq(*body[-n:])}
    return seq(*body)


def clean_devices(rng):
    pend = rng.random() < 0.35
    devs = {
        "m1": {"kind": "motor", "modes": {"set": ["pending"] * 2} if pend else {}, "pausable": rng.random() < 0.25},
        "m2": {"kind": "motor", "modes": {}},
        "d1": {"kind": "det", "modes": {"trigger": ["pending"]} if rng.random() < 0.3 else {}, "offset": 1},
        "d2": {"kind": "det", "modes": {}, "offset": 2},
        "s1": {"kind": "sig"},
    }
    if devs["m1"]["pausable"] and rng.random() < 0.3:
        devs["m1"]["modes"]["pause"] = [rng.choice(["done", "noreplay"])]
    if rng.random() < 0.1:
        devs["m1"]["modes"]["stop"] = ["raise"]
    return devs


def helper_plan(rng):
    k = rng.choice([0, 0, 1, 2])
    if k == 0:
        return None
    pool = [lambda: M("null"), lambda: M("null"), lambda: M("sleep", None, rng.choice([0, 2])), lambda: M("set", "m2", rng.choice([7, 8]))]
    return seq(*[rng.choice(pool)() for _ in range(k)])


def _probe(sc):
    return run_probe(E.number(copy.deepcopy(sc)))


def run_probe(sc):
    _install()
    return engine_impl.run_scenario(sc)


def _own_quiesce(o, fut):
    """arrival indices at which _run sat in the wait_for of a suspension on `fut` (quiescence arrivals after that wait_for
    was executed and before the next message)"""
    notes = [json.loads(n[4:]) for n in o["notes"] if n.startswith("c11:")]
    tm, ta = o["ticks"]["msgs"], o["ticks"]["arrivals"]
    out = []
    for n in notes:
        if n["k"] == "wait" and n["futs"] == [fut]:
            t0 = tm[n["i"]]
            t1 = tm[n["i"] + 1] if n["i"] + 1 < len(tm) else 10**12
            out += [k for k, (a, t) in enumerate(zip(o["arrivals"], ta)) if a == "quiesce" and t0 < t < t1]
    return out


def add(script, at, act):
    script.setdefault(str(at), []).append(act)


def gen_targeted(rng, at=None, base=None, n_arr=None):
    """one suspension placed at arrival `at` (random when None) of a clean plan, then -- adaptively, by probing the real
    engine -- a hold of some quiescence rounds, a release mode, and optionally a second suspension / a pause"""
    if base is None:
        base = {"record_interruptions": rng.random() < 0.6, "devices": clean_devices(rng), "plan": clean_plan(rng) if rng.random() < 0.8 else E.gen_plan(rng),
                "script": {}, "decisions": [rng.choice(["resume", "resume", "resume", "abort", "stop", "halt"]) for _ in range(4)], "max_arrivals": 300}
    sc = copy.deepcopy(base)
    if n_arr is None:
        n_arr = len(_probe(sc)["arrivals"])
    if at is None:
        at = rng.randrange(0, n_arr) if rng.random() < 0.9 else n_arr - 1
    S0 = {"a": "suspend", "fut": 0, "pre": helper_plan(rng), "post": helper_plan(rng), "just": rng.choice([None, "beam"])}
    add(sc["script"], at, S0)
    mode = rng.choice(["default", "default", "hold", "hold", "early", "overlap-distinct", "overlap-same", "sequential", "pause-during", "nested-pre", "abort-during"])
    sc["_mode"] = mode
    if mode == "default":
        return E.number(sc)
    if mode == "early":
        add(sc["script"], at + rng.randrange(0, 3), {"a": "release", "fut": 0})
        return E.number(sc)
    if mode == "nested-pre":
        # a second suspension (other future) lands right after the first, i.e. before the first helper waits
        add(sc["script"], at + rng.randrange(1, 3), {"a": "suspend", "fut": 1, "pre": helper_plan(rng), "post": helper_plan(rng), "just": "second"})
        if rng.random() < 0.5:
            add(sc["script"], at + rng.randrange(2, 8), {"a": "release", "fut": rng.choice([0, 1])})
        return E.number(sc)
    o = _probe(sc)
    qs = _own_quiesce(o, 0)
    if not qs:
        return E.number(sc)  # the suspension never got to wait (S4, unresumable, refused ...)
    q = qs[0]
    hold = rng.choice([1, 2, 3])
    for k in range(hold):
        add(sc["script"], q + k, dict(NOOP))
    nxt = q + hold
    if mode == "hold":
        if rng.random() < 0.3:
            sc["script"][str(q)] = [{"a": "monitor", "sig": "s1", "v": 4}]
        if rng.random() < 0.25:
            add(sc["script"], q, {"a": "pause", "defer": True})
        add(sc["script"], nxt, {"a": "release", "fut": 0})
    elif mode in ("overlap-distinct", "overlap-same"):
        f2 = 1 if mode == "overlap-distinct" else 0
        S1 = {"a": "suspend", "fut": f2, "pre": helper_plan(rng) if f2 else copy.deepcopy(S0["pre"]), "post": helper_plan(rng) if f2 else copy.deepcopy(S0["post"]), "just": "second" if f2 else S0["just"]}
        add(sc["script"], nxt, S1)
        o2 = _probe(sc)
        q2 = [k for k in _own_quiesce(o2, f2) if k > nxt]
        if q2:
            order = rng.choice(["second-only", "second-first", "first-first", "both", "default"])
            sc["_order"] = order
            if order == "second-only":
                add(sc["script"], q2[0], {"a": "release", "fut": f2})
            elif order == "second-first":
                add(sc["script"], q2[0], {"a": "release", "fut": f2})
                # the first future is released some arrivals later (if the engine ever blocks again it is released then)
                add(sc["script"], q2[0] + rng.randrange(2, 9), {"a": "release", "fut": 0})
            elif order == "first-first":
                add(sc["script"], q2[0], {"a": "release", "fut": 0})
                add(sc["script"], q2[0] + 1, {"a": "release", "fut": f2})
            elif order == "both":
                add(sc["script"], q2[0], {"a": "release", "fut": 0})
                add(sc["script"], q2[0], {"a": "release", "fut": f2})
    elif mode == "sequential":
        add(sc["script"], nxt, {"a": "release", "fut": 0})
        o2 = _probe(sc)
        later = [k for k in range(nxt + 2, len(o2["arrivals"]))]
        if later:
            add(sc["script"], rng.choice(later), {"a": "suspend", "fut": rng.choice([0, 1, 1]), "pre": helper_plan(rng), "post": helper_plan(rng), "just": "again"})
    elif mode == "pause-during":
        add(sc["script"], nxt, {"a": "pause", "defer": rng.random() < 0.2})
        add(sc["script"], nxt + 1, {"a": "release", "fut": 0})
    elif mode == "abort-during":
        add(sc["script"], nxt, {"a": rng.choice(["abort", "stop", "halt"])})
    return E.number(sc)


def gen_norewind(rng):
    """two suspensions, one after the other, in a section the plan declared non-rewindable: nothing may be replayed, and
    the helper must put `rewindable` back to False (otherwise the second suspension replays what ran in between)"""
    body = [M("open_run"), M("checkpoint"), M("set", "m1", 1, group="g"), M("wait", None, group="g"), M("rewindable", None, False)]
    for _ in range(rng.choice([3, 4, 6])):
        body.append(rng.choice([M("null"), M("set", "m2", rng.choice([1, 2])), M("sleep", None, 1), M("trigger", "d1", group="t")]))
    if rng.random() < 0.5:
        body += [M("rewindable", None, True), M("null")]
    body.append(M("close_run"))
    sc = {"record_interruptions": rng.random() < 0.5, "devices": {"m1": {"kind": "motor", "modes": {}}, "m2": {"kind": "motor", "modes": {}}, "d1": {"kind": "det", "modes": {}, "offset": 1}},
          "plan": seq(*body), "script": {}, "decisions": ["resume"] * 3, "max_arrivals": 300, "_mode": "norewind"}
    n = len(_probe(sc)["arrivals"])
    a1 = rng.randrange(5, max(6, n - 4))
    add(sc["script"], a1, {"a": "suspend", "fut": 0, "pre": helper_plan(rng), "post": helper_plan(rng), "just": None})
    o = _probe(sc)
    qs = _own_quiesce(o, 0)
    if qs:
        later = list(range(qs[0] + 6, len(o["arrivals"]) - 1))
        if later:
            add(sc["script"], rng.choice(later), {"a": rng.choice(["suspend", "suspend", "pause"]), "fut": 1, "pre": None, "post": None, "just": "again", "defer": False})
    return E.number(sc)


def minimal_f5():
    """two suspensions with distinct futures, only the second is released (finding F5)"""
    sc = {"record_interruptions": False, "devices": {"m1": {"kind": "motor", "modes": {}}},
          "plan": seq(M("open_run"), M("checkpoint"), M("null"), M("null"), M("close_run")),
          "script": {}, "decisions": [], "max_arrivals": 100}
    add(sc["script"], 2, {"a": "suspend", "fut": 0, "pre": None, "post": None, "just": None})
    q = _own_quiesce(_probe(sc), 0)[0]
    add(sc["script"], q, {"a": "suspend", "fut": 1, "pre": None, "post": None, "just": None})
    q2 = _own_quiesce(_probe(sc), 1)[0]
    add(sc["script"], q2, {"a": "release", "fut": 1})
    return E.number(sc)


def sweep(rng):
    """the same plan with a suspension at EVERY arrival index (incl. sleeps, waits on pending statuses, S4)"""
    base = {"record_interruptions": True, "devices": clean_devices(rng), "plan": clean_plan(rng), "script": {}, "decisions": ["resume"] * 3, "max_arrivals": 300}
    n = len(_probe(base)["arrivals"])
    out = []
    for at in range(n):
        sc = copy.deepcopy(base)
        add(sc["script"], at, {"a": "suspend", "fut": 0, "pre": helper_plan(rng), "post": helper_plan(rng), "just": rng.choice([None, "beam"])})
        out.append(E.number(sc))
    return out


def _extras(ctx):
    out = [minimal_f5()]
    for _ in range(ctx.budget(1, 10)):
        out += sweep(ctx.rng)
    return out


class _Gen:
    """targeted scenarios, four per probed base (plan x devices); every seventh scenario comes from the generic generator"""

    def __init__(self):
        self.base, self.left, self.n = None, 0, 0

    def __call__(self, rng):
        self.n += 1
        if self.n % 7 == 0:
            return E.gen_scenario(rng, dense=True)
        if self.n % 7 == 3:
            return gen_norewind(rng)
        if self.left == 0:
            self.base = {"record_interruptions": rng.random() < 0.6, "devices": clean_devices(rng), "plan": clean_plan(rng) if rng.random() < 0.85 else E.gen_plan(rng),
                         "script": {}, "decisions": [rng.choice(["resume", "resume", "resume", "abort", "stop", "halt"]) for _ in range(4)], "max_arrivals": 300}
            self.n_arr = len(_probe(self.base)["arrivals"])
            self.left = 4
        self.left -= 1
        return gen_targeted(rng, base=self.base, n_arr=self.n_arr)


def real_suspender_probes(rng, n):
    """Implementation-only probes with REAL suspender objects (bluesky.suspenders) installed on the real RunEngine,
    reusing C31's harness and oracle: the suspender trips in the middle of a plan; for suspenders with hysteresis
    (SuspendFloor / SuspendCeil with a separate resume threshold) a reading in the dead band arrives while the plan is
    suspended and every gate of the plan is opened -- nothing may run until the condition is really released."""
    import props.C31 as C31

    out = []
    tries = 0
    while len(out) < n and tries < 20 * n:
        tries += 1
        case = C31.gen_case(rng, mode="mid-trip")
        i = case["ops"][0][1]
        sp = case["susp"][i]
        dead = 3 if (sp["cls"] == "SuspendFloor" and sp.get("resume") == 5) else 1 if (sp["cls"] == "SuspendCeil" and sp.get("resume") == 0) else None
        if dead is None and len(out) % 2 == 0:
            continue      # every second probe has hysteresis
        if dead is not None:
            k = next(j for j, op in enumerate(case["ops"]) if op[0] == "put")
            ins = [["put", i, dead]] + [["open", g] for g in range(case["nplan"])] + [["put", i, dead]]
            case["ops"][k + 1:k + 1] = ins
            case["_mode"] = "mid-trip-dead-band"
            case["held_window"] = [k, k + len(ins)]     # ops k (the trip) .. k+len(ins): the condition is NOT released
        case["probe"] = "real-suspender"
        out.append(case)
    return out


def judge_real_suspender(case):
    import props.C31 as C31

    o = C31.run_impl(case)
    bad = [("real-suspender:" + sig, what) for sig, what in C31.oracle(case, o)]
    if case.get("held_window"):
        lo, hi = case["held_window"]
        cur = -1
        tripped_seen = False
        for e in o["log"]:
            if e[0] == "op":
                cur = e[1]
            elif e[0] == "msg" and lo <= cur <= hi:
                if e[1] == "_start_suspender":
                    tripped_seen = True
                elif e[1] == "_resume_from_suspender" or e[2] is not None:
                    bad.append(("real-suspender:plan-resumed-while-condition-not-released",
                                f"{case['susp'][case['ops'][0][1]]['cls']} tripped at op {lo}; at op {cur} ({case['ops'][cur]}, a reading in the dead band / an opened gate) "
                                f"the engine executed {e[1]!r} although the suspender's resume condition had not been met"))
                    break
        if not tripped_seen and not bad:
            bad.append(("real-suspender:did-not-trip", f"the suspender did not start a suspension at op {lo} ({case['ops'][lo]})"))
    return bad


def run(ctx, model=True):
    _install()
    extra = _extras(ctx)
    modes = {}

    def counted_oracle(sc, o):
        k = "mode:" + str(sc.get("_mode", "generic")) + (":" + sc["_order"] if sc.get("_order") else "")
        modes[k] = modes.get(k, 0) + 1
        n = sum(1 for x in o.get("notes", []) if x.startswith("c11:") and '"k": "start"' in x)
        modes[f"suspensions-executed:{min(n, 3)}"] = modes.get(f"suspensions-executed:{min(n, 3)}", 0) + 1
        return oracle(sc, o)

    res = E.run_property(ctx, "C11", counted_oracle, gen=_Gen(), quick=50, thorough=2500, model=model, extra_scenarios=extra)
    for k, v in modes.items():
        res.count(k, v)
    for case in real_suspender_probes(ctx.rng, ctx.budget(16, 300)):
        res.seen(case, True)
        res.count("impl-only-probe:real-suspender:" + case["_mode"])
        for sig, what in judge_real_suspender(case):
            res.violations.append(C.Violation(sig, "implementation-only probe (real suspender object, C31's harness): " + what, case))
    res.notes.append("real suspender objects (incl. hysteresis / dead-band readings while suspended) are probed on the implementation with C31's harness and oracle")
    res.rule = ("scenario = clean or generic generated plan x fake-device modes x script with a suspension at an arrival index of _run (sweeps cover EVERY index of a plan), "
                "pre/post plans, justification, release early / after held quiescence rounds / by default, second suspension sequential / nested / overlapping with the same "
                "or another future, pause / abort during the suspension; placement is adaptive (the real engine is probed for the arrival index of the helper's wait_for); "
                "non-trivial as in run_property (some request, refusal, failure or non-success exit)")
    RP.add_to(res, ["settle-time"])
    return res


def run_impl_only(ctx):
    return run(ctx, model=False)


def replay(ctx, data):
    r = RP.replay(data)
    if r is not None:
        return r
    _install()
    case = data.get("case") or {}
    if case.get("probe") == "real-suspender":
        res = C.Result()
        res.seen(case, True)
        for sig, what in judge_real_suspender(case):
            res.violations.append(C.Violation(sig, what, case))
        return res
    return E.replay_property(ctx, data, oracle)
