"""C05 -- seq_num and num_events account for every event exactly.

Tie: (T) Bundler/Generated.lean: which emitters call `_commit_sequence_counter` (monitor closure,
record_interruption, the `finally` of collect), that `rewind` restores from the copy / re-adds
descriptor streams, what `reset_checkpoint_state` / `clear_checkpoint` do, event_model's `+1`, `-1`, `=1`
-- the refinement proof (generated frame BundlerKeepsCtrRef) and hence every C05 theorem depends on them;
(C) generated sequences with monitors, interruption records, collects, pauses/resumes with and without
intervening checkpoints are run on the real RunEngine and on the model; every bundler-call history the
real engine issues is checked to be engine-admissible.
"""
from __future__ import annotations

import bundler_props as P
import re_probes as RP
import fault_probes as FP

MANIFEST = {
    "text": "FULL for engine-admissible histories (every rewind issued with an uncleared checkpoint copy and without losing a "
    "counter -- the engine's discipline, checked on every observed history). Invariant C05_SeqInv over ALL such histories of "
    "bundler operations (rewind / reset_checkpoint_state / clear_checkpoint / monitor updates / interruption records / collects at "
    "arbitrary points): the ghost log is a valid run of the abstract counter machine ending in the two counter dicts, and the event "
    "documents are exactly the logged emits. From it: C05_fresh_for_unreplayed (after a monitor/interruption event numbered k every "
    "later event of the stream has a larger seq_num, rewinds included -- breaks if a commit call is removed), "
    "C05_repeat_only_after_rewind (+ strictly increasing without rewind), C05_contiguous (1 <= seq_num <= 1 + highest handed out "
    "before: no gaps, first occurrences in order), C05_num_events (stop.num_events = counter-1 <= highest handed out, >= every "
    "never-replayed number, and = highest handed out once every rolled-back data point has been re-taken), "
    "C05_stream_datum_contiguous (a successful collect's datums all carry [counter, counter+width) and advance the counter by it).",
    "note": "Trusted: Lean kernel; bundler_extract.py; the transcription of RunBundler/event_model counters tied by the correspondence "
    "run. 'Settled' (all rolled-back points re-taken) is a hypothesis of the equality N = highest number: a replay that fails "
    "midway legitimately leaves N smaller. Event(Page)Collectable flyers are not modelled (stream-datum collects are).",
    "technique": "Lean 4 proof: refinement of an abstract counter machine by a ghost log (generated per-operation frames) + monotonicity lemmas + correspondence run",
}
LEAN_MODULES = ["BlueskyVerif.Props.C05"]
DRIVER_MODULES = P.DRIVER_MODULES
DRIVER = "Drivers/C05.lean"
ASSUMPTIONS = P.ASSUMPTIONS + ["engine-admissible histories: rewind only with an uncleared checkpoint copy and no counter lost (verified on every observed history)"]
TRUSTED = P.TRUSTED
RULE = "cases = corpus + random structured sequences weighted towards pauses/resumes (with and without checkpoints, inside and outside bundles), monitors with updates (also while paused), record_interruptions on/off, clear_checkpoint, detector collects; non-trivial = some message raised, or the sequence contains pause/resume/configure/monitor update/collect"

extract = P.extract


def run(ctx, model=True):
    res = P.run(ctx, "C05", "C05", 1100, 25000, model=model, rule=RULE)
    FP.run_probes(ctx, res, [FP.no_document_after_stop, FP.num_events_true], ["stop-dispatch"], 12, 200)
    RP.add_to(res, ["classic-flyer", "nonrewindable-region", "noreplay-pause"])
    return res


def run_impl_only(ctx):
    return run(ctx, model=False)


def replay(ctx, data):
    r = RP.replay(data)
    if r is not None:
        return r
    if FP.is_probe(data):
        return FP.replay_probe(ctx, data, [FP.no_document_after_stop, FP.num_events_true])
    return P.replay(ctx, "C05", data)
