"""C42 -- each run's trace span ends once with that run's outcome.

Tie: (T) the load-bearing facts of the span bookkeeping are re-extracted from the current
run_engine.py / bundlers.py into lean/BlueskyVerif/Engine/TracingGenerated.lean (where the span is
appended relative to the duplicate-key check and the metadata validation, `.pop()` without key,
which expression feeds the span's / RunStop's exit_status, `while` in
`_destroy_open_run_tracing_spans` and its literal, who calls it, that the `finally` block of `_run`
and `_clear_call_cache` leave the span list alone, and that no other method touches it).  The
theorems in Props/C42.lean are about `Engine/Tracing.lean` instantiated with those facts.
(C) the real RunEngine is driven with a recording tracer (harness/fake_tracer.py); the engine-level
history it went through (open_run/close_run messages with their keywords, abort/halt requests, call
boundaries) is replayed by the Lean model and the span/RunStop logs are compared.
"""
from __future__ import annotations

import ast
import contextlib
import io
import itertools
import json
import logging

import common as C
import fake_tracer as FT

FT.install()  # before bluesky.run_engine is imported: the module-level ProxyTracer resolves to it

MANIFEST = {
    "text": "PARTIAL. Full statement C42_full (every history: each opened run has exactly one span, ended exactly once "
    "when the run is closed, carrying the run's RunStop exit_status; no span without a run) is FALSE on the current "
    "code (F18; Counterexamples/C42.lean, decide-proved). Proved for ALL histories of any length that are "
    "'disciplined' (Engine/Tracing.lean `okOp`): open_run accepted; close_run names a non-open key or the most "
    "recently opened open run (LIFO; includes the single-run-key case) and states a truthy exit_status (or omits "
    "the keyword while the engine status is 'success'); runs open at an abort/halt are later closed as 'abort' "
    "(by the plan or by the engine); the engine closes no run whose span is still open. abort/halt/call boundaries "
    "unrestricted. Theorems: C42_one_span_each_ended_once_partial, C42_own_status_partial, C42_open_runs_partial, "
    "C42_good_partial, C42_complete_history_partial (+ glue good_of_inv); invariant proof in Lemmas/C42.lean.",
    "note": "Trusted: Lean kernel; the extractor in harness/props/C42.py (strict AST shape recognition, raises when "
    "the shape is not recognised); harness/fake_tracer.py (records start/set_attribute/end); 'aborted' (span) and "
    "'abort' (RunStop) are read as the same outcome; the n-th open_run message is identified with the n-th run "
    "span (checked on every case); failures of open_run other than duplicate key / metadata validation are not "
    "modelled; RE._exit_status is read after each call as model input.",
    "technique": "Lean 4 invariant proof over an executable span-stack model parameterised by source-extracted facts "
    "(translator) + trace-validation correspondence run of the real RunEngine with a recording tracer",
}
LEAN_MODULES = ["BlueskyVerif.Props.C42"]
DRIVER_MODULES = ["BlueskyVerif.Engine.TracingGenerated"]
DRIVER = "Drivers/C42.lean"
ASSUMPTIONS = [
    "the n-th open_run message processed by an engine starts the n-th 'run' span (checked on every case)",
    "span exit_status 'aborted' and RunStop exit_status 'abort' denote the same outcome",
    "open_run fails only by duplicate run key or metadata validation (scan_id_source / callbacks raising are not modelled)",
    "one RunEngine, messages processed sequentially on its loop; exit_status values are strings or None",
]
TRUSTED = ["harness/props/C42.py::extract (AST shape recognition of the span bookkeeping)", "harness/fake_tracer.py"]

GEN_PATH = C.LEAN / "BlueskyVerif" / "Engine" / "TracingGenerated.lean"


# ============================================================================= extractor


class Unrecognised(Exception):
    pass


def _dotted(n):
    if isinstance(n, ast.Name):
        return n.id
    if isinstance(n, ast.Attribute):
        b = _dotted(n.value)
        return None if b is None else b + "." + n.attr
    return None


def _cls(tree, name):
    for n in tree.body:
        if isinstance(n, ast.ClassDef) and n.name == name:
            return n
    raise Unrecognised(f"class {name} not found")


def _meth(cls, name):
    for n in cls.body:
        if isinstance(n, (ast.FunctionDef, ast.AsyncFunctionDef)) and n.name == name:
            return n
    raise Unrecognised(f"method {cls.name}.{name} not found")


def _body(fn):
    b = list(fn.body)
    if b and isinstance(b[0], ast.Expr) and isinstance(b[0].value, ast.Constant) and isinstance(b[0].value.value, str):
        b = b[1:]
    return b


def _is_call(n, dotted_name, nargs=None):
    """Expr/Await-wrapped or bare Call of `dotted_name`."""
    if isinstance(n, ast.Expr):
        n = n.value
    if isinstance(n, ast.Await):
        n = n.value
    if isinstance(n, ast.Call) and _dotted(n.func) == dotted_name:
        return nargs is None or len(n.args) == nargs
    return False


def _mentions(node, attr):
    return any(isinstance(x, ast.Attribute) and x.attr == attr for x in ast.walk(node))


def _calls(node, attr):
    return [x for x in ast.walk(node) if isinstance(x, ast.Call) and isinstance(x.func, ast.Attribute) and x.func.attr == attr]


def _status_expr(e) -> str:
    """classify the expression that yields an exit status -> constructor name of Tracing.StatusExpr"""

    def kwget(x):
        # msg.kwargs.get("exit_status", DEFAULT) -> DEFAULT node
        if isinstance(x, ast.Call) and _dotted(x.func) == "msg.kwargs.get" and len(x.args) == 2 and not x.keywords:
            if isinstance(x.args[0], ast.Constant) and x.args[0].value == "exit_status":
                return x.args[1]
        return None

    d = kwget(e)
    if d is not None:
        if _dotted(d) == "self._exit_status":
            return "kwElseEngine"
        if isinstance(d, ast.Constant) and d.value == "success":
            return "kwElseSuccess"
    if isinstance(e, ast.BoolOp) and isinstance(e.op, ast.Or) and len(e.values) == 2:
        d = kwget(e.values[0])
        if d is not None and isinstance(d, ast.Constant) and d.value == "success" and isinstance(e.values[1], ast.Constant) and e.values[1].value == "success":
            return "kwElseSuccessOrSuccess"
    if _dotted(e) == "self._exit_status":
        return "engine"
    raise Unrecognised("exit-status expression not recognised: " + ast.unparse(e))


_STATUS_LEAN = {"success": ".success", "abort": ".abort", "fail": ".fail", "aborted": ".aborted", None: ".pyNone", "": ".empty"}


def _status_lit(node) -> str:
    if isinstance(node, ast.Constant) and (node.value is None or isinstance(node.value, str)):
        if node.value in _STATUS_LEAN:
            return _STATUS_LEAN[node.value]
        return ".other 0"
    raise Unrecognised("exit-status literal expected: " + ast.unparse(node))


def _assigned(stmt, target):
    """value of `target = value` / `target: T = value`, else None"""
    if isinstance(stmt, ast.Assign) and len(stmt.targets) == 1 and _dotted(stmt.targets[0]) == target:
        return stmt.value
    if isinstance(stmt, ast.AnnAssign) and _dotted(stmt.target) == target and stmt.value is not None:
        return stmt.value
    return None


def _pop_set_end(stmts, where, status_of):
    """[_span = self._run_tracing_spans.pop(ARGS); _span.set_attribute("exit_status", X); (reason)?; _span.end()]
    -> (pop args, X)"""
    if not (3 <= len(stmts) <= 4):
        raise Unrecognised(f"{where}: expected pop / set_attribute / end, got {len(stmts)} statements")
    v = _assigned(stmts[0], "_span")
    if not (isinstance(v, ast.Call) and _dotted(v.func) == "self._run_tracing_spans.pop" and not v.keywords):
        raise Unrecognised(f"{where}: first statement is not `_span = self._run_tracing_spans.pop(...)`")
    s1 = stmts[1]
    if not (_is_call(s1, "_span.set_attribute", 2) and isinstance(s1.value.args[0], ast.Constant) and s1.value.args[0].value == "exit_status"):
        raise Unrecognised(f"{where}: second statement is not `_span.set_attribute('exit_status', ...)`")
    x = s1.value.args[1]
    if len(stmts) == 4:
        s2 = stmts[2]
        if not (_is_call(s2, "_span.set_attribute", 2) and isinstance(s2.value.args[0], ast.Constant) and s2.value.args[0].value == "reason"):
            raise Unrecognised(f"{where}: third statement is not `_span.set_attribute('reason', ...)`")
    if not _is_call(stmts[-1], "_span.end", 0):
        raise Unrecognised(f"{where}: last statement is not `_span.end()`")
    return v.args, x


def extract_facts(run_engine_src: str, bundlers_src: str) -> dict:
    tree = ast.parse(run_engine_src)
    RE = _cls(tree, "RunEngine")
    facts: dict = {}
    loc: dict = {}

    # ---- _open_run
    fn = _meth(RE, "_open_run")
    body = _body(fn)
    idx = {}
    for i, st in enumerate(body):
        v = _assigned(st, "_span")
        if v is not None and isinstance(v, ast.Call) and _dotted(v.func) == "tracer.start_span":
            idx.setdefault("start", i)
        if _is_call(st, "self._run_tracing_spans.append", 1) and _dotted(st.value.args[0]) == "_span":
            if "append" in idx:
                raise Unrecognised("_open_run appends the span twice")
            idx["append"] = i
        if isinstance(st, ast.If) and isinstance(st.test, ast.Compare) and len(st.test.ops) == 1 and isinstance(st.test.ops[0], ast.In) and _dotted(st.test.left) == "run_key" and _dotted(st.test.comparators[0]) == "self._run_bundlers" and st.body and isinstance(st.body[0], ast.Raise) and not st.orelse:
            idx.setdefault("dup", i)
        if _is_call(st, "self.md_validator"):
            idx.setdefault("md", i)
        if any(_dotted(c.func) == "current_run.open_run" for c in ast.walk(st) if isinstance(c, ast.Call)):
            idx.setdefault("open", i)
    missing = {"start", "append", "dup", "md", "open"} - set(idx)
    if missing:
        raise Unrecognised(f"_open_run: could not locate {sorted(missing)} as top-level statements")
    if not (idx["start"] < idx["append"] and idx["start"] < idx["dup"] < idx["md"] < idx["open"]):
        raise Unrecognised(f"_open_run: unexpected statement order {idx}")
    if _calls(fn, "end") or _calls(fn, "pop"):
        raise Unrecognised("_open_run now ends/pops a span -- the model must be revisited")
    rk = [_assigned(st, "run_key") for st in body]
    if not any(v is not None and _dotted(v) == "msg.run" for v in rk):
        raise Unrecognised("_open_run: run_key is not msg.run")
    facts["appendBeforeDupCheck"] = idx["append"] < idx["dup"]
    facts["appendBeforeMdCheck"] = idx["append"] < idx["md"]
    loc["_open_run"] = {k: body[v].lineno for k, v in idx.items()}

    # ---- _close_run: reject-if-absent first; del key and _close_run_trace(msg) at top level after the bundler's close_run
    fn = _meth(RE, "_close_run")
    body = _body(fn)
    pos = {}
    for i, st in enumerate(body):
        if isinstance(st, ast.If) and st.body and any(isinstance(x, ast.Raise) for x in st.body) and _mentions(st.test, "_run_bundlers"):
            pos.setdefault("reject", i)
        if any(_dotted(c.func) == "current_run.close_run" for c in ast.walk(st) if isinstance(c, ast.Call)):
            pos.setdefault("bundler", i)
        if isinstance(st, ast.Delete) and len(st.targets) == 1 and isinstance(st.targets[0], ast.Subscript) and _dotted(st.targets[0].value) == "self._run_bundlers" and _dotted(st.targets[0].slice) == "run_key":
            pos.setdefault("del", i)
        if _is_call(st, "self._close_run_trace", 1) and _dotted(st.value.args[0]) == "msg":
            if "trace" in pos:
                raise Unrecognised("_close_run calls _close_run_trace twice")
            pos["trace"] = i
    if set(pos) != {"reject", "bundler", "del", "trace"} or not (pos["reject"] < pos["bundler"] < pos["del"] and pos["bundler"] < pos["trace"]):
        raise Unrecognised(f"_close_run: unexpected shape {pos}")
    loc["_close_run"] = {k: body[v].lineno for k, v in pos.items()}

    # ---- _close_run_trace
    fn = _meth(RE, "_close_run_trace")
    body = _body(fn)
    es = [v for v in (_assigned(st, "exit_status") for st in body) if v is not None]
    trys = [st for st in body if isinstance(st, ast.Try)]
    if len(es) != 1 or len(trys) != 1 or not isinstance(body[-1], ast.Try):
        raise Unrecognised("_close_run_trace: expected `exit_status = ...` then one try block")
    t = trys[0]
    if t.finalbody or t.orelse or len(t.handlers) != 1 or _dotted(t.handlers[0].type) != "IndexError":
        raise Unrecognised("_close_run_trace: try block is not `try: ... except IndexError:`")
    if any(_calls(h, "end") or _calls(h, "pop") for h in t.handlers):
        raise Unrecognised("_close_run_trace: handler touches spans")
    args, x = _pop_set_end(t.body, "_close_run_trace", None)
    if _dotted(x) != "exit_status":
        raise Unrecognised("_close_run_trace: the attribute is not set from the local `exit_status`")
    if len(args) == 0:
        facts["closePopsLast"] = True
    elif len(args) == 1 and isinstance(args[0], ast.Constant) and args[0].value == 0:
        facts["closePopsLast"] = False
    else:
        raise Unrecognised("_close_run_trace: pop argument not recognised: " + ast.unparse(args[0]))
    if _mentions(fn, "run") or _mentions(fn, "_run_bundlers"):
        raise Unrecognised("_close_run_trace now looks at the run key -- the model must be revisited")
    facts["spanStatus"] = _status_expr(es[0])
    loc["_close_run_trace"] = fn.lineno

    # ---- _destroy_open_run_tracing_spans
    fn = _meth(RE, "_destroy_open_run_tracing_spans")
    body = _body(fn)
    if len(body) != 1 or not isinstance(body[0], (ast.While, ast.If)) or body[0].orelse:
        raise Unrecognised("_destroy_open_run_tracing_spans: expected a single while/if")
    loop = body[0]
    tst = loop.test
    ok_test = (isinstance(tst, ast.Call) and _dotted(tst.func) == "len" and len(tst.args) == 1 and _dotted(tst.args[0]) == "self._run_tracing_spans") or _dotted(tst) == "self._run_tracing_spans"
    if not ok_test:
        raise Unrecognised("_destroy_open_run_tracing_spans: loop test not recognised")
    args, x = _pop_set_end(loop.body, "_destroy_open_run_tracing_spans", None)
    if args:
        raise Unrecognised("_destroy_open_run_tracing_spans: pop has arguments")
    facts["destroyAll"] = isinstance(loop, ast.While)
    facts["destroyStatus"] = _status_lit(x)
    loc["_destroy_open_run_tracing_spans"] = fn.lineno

    # ---- _abort_coro / _halt_coro
    fn = _meth(RE, "_abort_coro")
    body = _body(fn)
    d = [i for i, st in enumerate(body) if _is_call(st, "self._destroy_open_run_tracing_spans", 0)]
    e = [(i, _assigned(st, "self._exit_status")) for i, st in enumerate(body) if _assigned(st, "self._exit_status") is not None]
    if len(e) != 1:
        raise Unrecognised("_abort_coro: expected exactly one top-level `self._exit_status = ...`")
    nested = len(_calls(fn, "_destroy_open_run_tracing_spans")) - len(d)
    if nested or len(d) > 1:
        raise Unrecognised("_abort_coro: conditional / repeated _destroy_open_run_tracing_spans call")
    facts["abortDestroys"] = len(d) == 1
    facts["abortEngineStatus"] = _status_lit(e[0][1])
    fn = _meth(RE, "_halt_coro")
    body = _body(fn)
    d = [i for i, st in enumerate(body) if _is_call(st, "self._destroy_open_run_tracing_spans", 0)]
    nested = len(_calls(fn, "_destroy_open_run_tracing_spans")) - len(d)
    if nested or len(d) > 1:
        raise Unrecognised("_halt_coro: conditional / repeated _destroy_open_run_tracing_spans call")
    facts["haltDestroys"] = len(d) == 1
    found = []
    for st in body:
        if isinstance(st, ast.If) and _dotted(st.test) == "was_paused":
            for x in st.body:
                for y in ast.walk(x):
                    v = _assigned(y, "self._exit_status") if isinstance(y, (ast.Assign, ast.AnnAssign)) else None
                    if v is not None:
                        found.append(v)
            for x in st.orelse:
                if _mentions(x, "_exit_status"):
                    raise Unrecognised("_halt_coro: _exit_status set in the not-paused branch")
        elif _assigned(st, "self._exit_status") is not None:
            raise Unrecognised("_halt_coro: unconditional _exit_status assignment")
    if len(found) != 1:
        raise Unrecognised("_halt_coro: expected `if was_paused: ... self._exit_status = ...`")
    facts["haltPausedEngineStatus"] = _status_lit(found[0])

    # ---- finally block of _run
    fn = _meth(RE, "_run")
    outer = [st for st in _body(fn) if isinstance(st, ast.Try) and st.finalbody]
    if len(outer) != 1:
        raise Unrecognised("_run: expected exactly one top-level try/finally")
    fin = ast.Module(body=outer[0].finalbody, type_ignores=[])
    if not any(_dotted(c.func) == "self._run_bundlers.clear" for c in ast.walk(fin) if isinstance(c, ast.Call)):
        raise Unrecognised("_run: finally block does not clear _run_bundlers")
    loops = [st for st in outer[0].finalbody if isinstance(st, ast.For) and _dotted(st.iter.func if isinstance(st.iter, ast.Call) else None) == "self._run_bundlers.items" and any(_dotted(c.func) == "current_run.close_run" for c in ast.walk(st) if isinstance(c, ast.Call))]
    if len(loops) != 1:
        raise Unrecognised("_run: finally block has no `for key, current_run in self._run_bundlers.items(): ... close_run`")
    kw_ok = False
    for c in ast.walk(loops[0]):
        if isinstance(c, ast.Call) and _dotted(c.func) == "Msg" and c.args and isinstance(c.args[0], ast.Constant) and c.args[0].value == "close_run":
            kw_ok = any(k.arg == "exit_status" and _dotted(k.value) == "self._exit_status" for k in c.keywords)
    if not kw_ok:
        raise Unrecognised("_run: the engine's close_run message does not carry exit_status=self._exit_status")
    if _mentions(fin, "_run_tracing_spans") or _calls(fin, "_destroy_open_run_tracing_spans") or _calls(fin, "_close_run"):
        raise Unrecognised("_run: the finally block now touches the span list in an unrecognised way")
    tr = _calls(fin, "_close_run_trace")
    in_loop = _calls(loops[0], "_close_run_trace")
    if len(tr) != len(in_loop) or len(tr) > 1:
        raise Unrecognised("_run: _close_run_trace called outside the run-closing loop")
    facts["cleanupClosesTrace"] = len(tr) == 1
    loc["_run.finally"] = outer[0].finalbody[0].lineno
    # nothing else in _run touches spans
    other = [c for c in _calls(fn, "_close_run_trace") + _calls(fn, "_destroy_open_run_tracing_spans") if c not in tr]
    if other or any(isinstance(x, ast.Attribute) and x.attr == "_run_tracing_spans" for x in ast.walk(fn)):
        raise Unrecognised("_run touches the span list outside its finally block")

    # ---- _clear_call_cache
    fn = _meth(RE, "_clear_call_cache")
    m = [st for st in _body(fn) if _mentions(st, "_run_tracing_spans")]
    if not m:
        facts["callResetClearsSpans"] = False
    elif len(m) == 1 and (_is_call(m[0], "self._run_tracing_spans.clear", 0) or (isinstance(_assigned(m[0], "self._run_tracing_spans"), ast.List) and not _assigned(m[0], "self._run_tracing_spans").elts)):
        facts["callResetClearsSpans"] = True
    else:
        raise Unrecognised("_clear_call_cache: unrecognised use of _run_tracing_spans")
    es = [v for v in (_assigned(st, "self._exit_status") for st in _body(fn)) if v is not None]
    if len(es) != 1 or not (isinstance(es[0], ast.Constant) and es[0].value == "success"):
        raise Unrecognised("_clear_call_cache: expected `self._exit_status = \"success\"`")

    # ---- who touches the span list / calls the helpers (whole module)
    touch = set()
    callers_destroy, callers_trace = set(), set()
    for node in ast.walk(tree):
        if isinstance(node, (ast.FunctionDef, ast.AsyncFunctionDef)):
            for x in ast.walk(node):
                if isinstance(x, ast.Attribute) and x.attr == "_run_tracing_spans":
                    touch.add(node.name)
                if isinstance(x, ast.Call) and isinstance(x.func, ast.Attribute):
                    if x.func.attr == "_destroy_open_run_tracing_spans":
                        callers_destroy.add(node.name)
                    if x.func.attr == "_close_run_trace":
                        callers_trace.add(node.name)
    exp_touch = {"__init__", "_destroy_open_run_tracing_spans", "_open_run", "_close_run_trace"} | ({"_clear_call_cache"} if facts["callResetClearsSpans"] else set())
    if touch != exp_touch:
        raise Unrecognised(f"_run_tracing_spans is touched by {sorted(touch)}, expected {sorted(exp_touch)}")
    exp_d = ({"_abort_coro"} if facts["abortDestroys"] else set()) | ({"_halt_coro"} if facts["haltDestroys"] else set())
    if callers_destroy != exp_d:
        raise Unrecognised(f"_destroy_open_run_tracing_spans is called from {sorted(callers_destroy)}")
    exp_t = {"_close_run"} | ({"_run"} if facts["cleanupClosesTrace"] else set())
    if callers_trace != exp_t:
        raise Unrecognised(f"_close_run_trace is called from {sorted(callers_trace)}")
    init = _meth(RE, "__init__")
    iv = [v for v in (_assigned(st, "self._run_tracing_spans") for st in ast.walk(init) if isinstance(st, (ast.Assign, ast.AnnAssign))) if v is not None]
    if len(iv) != 1 or not (isinstance(iv[0], ast.List) and not iv[0].elts):
        raise Unrecognised("__init__: _run_tracing_spans is not initialised to []")

    # ---- RunBundler.close_run: RunStop exit_status
    btree = ast.parse(bundlers_src)
    fn = _meth(_cls(btree, "RunBundler"), "close_run")
    es = [v for v in (_assigned(st, "exit_status") for st in _body(fn)) if v is not None]
    if len(es) != 1:
        raise Unrecognised("RunBundler.close_run: expected one `exit_status = ...`")
    comp = [c for c in _calls(fn, "_compose_stop")]
    if len(comp) != 1 or not any(k.arg == "exit_status" and _dotted(k.value) == "exit_status" for k in comp[0].keywords):
        raise Unrecognised("RunBundler.close_run: _compose_stop(exit_status=exit_status, ...) not found")
    facts["stopStatus"] = _status_expr(es[0])
    loc["RunBundler.close_run"] = fn.lineno
    facts["_where"] = loc
    return facts


_FIELDS = ["appendBeforeDupCheck", "appendBeforeMdCheck", "closePopsLast", "spanStatus", "stopStatus", "destroyAll", "destroyStatus", "abortDestroys", "haltDestroys", "abortEngineStatus", "haltPausedEngineStatus", "cleanupClosesTrace", "callResetClearsSpans"]


def render(facts: dict) -> str:
    def val(k):
        v = facts[k]
        if isinstance(v, bool):
            return "true" if v else "false"
        if k in ("spanStatus", "stopStatus"):
            return "." + v
        return v

    lines = [
        "-- GENERATED by harness/props/C42.py from src/bluesky/run_engine.py and src/bluesky/bundlers.py -- do not edit.",
        "import BlueskyVerif.Engine.Tracing",
        "",
        "namespace BlueskyVerif.Engine.Tracing",
        "",
        "/-- the span bookkeeping facts of the CURRENT source -/",
        "def facts : Facts where",
    ]
    lines += [f"  {k} := {val(k)}" for k in _FIELDS]
    lines += ["", "end BlueskyVerif.Engine.Tracing", ""]
    return "\n".join(lines)


def extract(ctx):
    facts = extract_facts((C.SRC / "run_engine.py").read_text(), (C.SRC / "bundlers.py").read_text())
    C.write_if_changed(GEN_PATH, render(facts))
    return facts


# ============================================================================= driving the real RunEngine

RUN_SPAN = "Bluesky RunEngine run"
KEYS = [None, "a", "b", "c"]  # run keys <-> 0..3 in the model
_LOOP = None


class PlanError(Exception):
    pass


def _loop():
    global _LOOP
    if _LOOP is None:
        import asyncio

        _LOOP = asyncio.new_event_loop()
    return _LOOP


def _make_plan(call):
    """A generator plan from a call spec.  A message the engine rejects (IllegalMessageSequence, or the
    metadata validator's ValueError, thrown back into the plan) is shrugged off and the plan goes on.
    Any other exception arriving at a yield (RequestAbort/RequestStop/PlanHalt, or the plan's own
    PlanError) runs the `on_exc` messages, then is re-raised unless `swallow`."""
    from bluesky import Msg
    from bluesky.utils import IllegalMessageSequence, RunEngineControlException

    def build(m, exc):
        c = m["c"]
        if c == "open":
            kw = {"sample": [1, 2]} if m.get("bad_md") else {}
            return Msg("open_run", run=m.get("run"), **kw)
        if c == "close":
            kw = {}
            if "es" in m:
                es = m["es"]
                if es == "$exc":
                    es = exc.exit_status if isinstance(exc, RunEngineControlException) else "fail"
                kw["exit_status"] = es
            return Msg("close_run", run=m.get("run"), **kw)
        if c == "pause":
            return Msg("pause")
        return Msg("null")

    def emit_all(msgs, exc):
        for m in msgs:
            if m["c"] == "raise":
                raise PlanError("plan error")
            try:
                yield build(m, exc)
            except (IllegalMessageSequence, ValueError):
                pass

    def plan():
        try:
            yield from emit_all(call.get("body", []), None)
        except BaseException as e:
            if type(e) is GeneratorExit or call.get("on_exc") is None:
                raise
            yield from emit_all(call["on_exc"], e)
            if not call.get("swallow"):
                raise

    return plan()


def run_impl(case):
    """Run the case on the real RunEngine.  -> (ops, obs): the engine-level history it went through
    (input of the model) and the canonical observation of spans and RunStop documents."""
    from bluesky import RunEngine
    from bluesky.utils import RunEngineInterrupted

    how = FT.verify_installed()
    logging.getLogger("bluesky").setLevel(logging.CRITICAL + 1)
    REC = FT.REC
    REC.reset()
    buf = io.StringIO()
    cur = {"n": 0, "inject": None}
    with contextlib.redirect_stdout(buf), contextlib.redirect_stderr(buf):
        RE = RunEngine({}, loop=_loop(), context_managers=[])

        def on_doc(name, doc):
            if name == "start":
                REC.note("doc", "start", doc["uid"])
            elif name == "stop":
                REC.note("doc", "stop", doc["run_start"], doc.get("exit_status"))

        def inject(what):
            async def go():
                if RE._state.is_idle:
                    return
                if what in ("abort", "halt"):
                    REC.note("req", what, RE._state == "paused")
                try:
                    await {"abort": lambda: RE._abort_coro("injected"), "halt": RE._halt_coro, "stop": RE._stop_coro}[what]()
                except Exception:
                    pass

            RE.loop.create_task(go())

        def hook(msg):
            if msg.command == "open_run":
                REC.note("msg", "open_run", msg.run, "sample" in msg.kwargs)
            elif msg.command == "close_run":
                REC.note("msg", "close_run", msg.run, "exit_status" not in msg.kwargs, msg.kwargs.get("exit_status"))
            else:
                REC.note("msg", msg.command)
            inj = cur["inject"]
            if inj and cur["n"] == inj["at"]:
                inject(inj["what"])
            cur["n"] += 1

        RE.subscribe(on_doc)
        RE.msg_hook = hook
        outcomes = []
        for call in case["calls"]:
            cur["n"], cur["inject"] = 0, call.get("inject")
            REC.note("call_begin")
            out = []
            try:
                RE(_make_plan(call))
                out.append("returned")
            except RunEngineInterrupted:
                out.append("interrupted")
            except BaseException as e:  # noqa: BLE001
                out.append(type(e).__name__)
            actions = list(call.get("after", []))
            guard = 0
            while RE.state == "paused" and guard < 20:
                guard += 1
                act = actions.pop(0) if actions else "halt"
                if act in ("abort", "halt"):
                    REC.note("req", act, True)
                try:
                    getattr(RE, act)()
                    out.append(act)
                except RunEngineInterrupted:
                    out.append(act + ":interrupted")
                except BaseException as e:  # noqa: BLE001
                    out.append(act + ":" + type(e).__name__)
            out.append(str(RE.state))
            REC.note("call_end", RE._exit_status)
            outcomes.append(out)
        stack_objs = list(RE._run_tracing_spans)
        open_left = len(RE._run_bundlers)
    log = list(REC.log)
    run_spans = [s for s in REC.spans if s.name == RUN_SPAN]
    return _derive(log, run_spans, stack_objs, open_left, outcomes, how)


def _derive(log, run_spans, stack_objs, open_left, outcomes, how):
    serial_to_attempt = {}
    ops = []
    accepted = []
    uid_to_run = {}
    ended, stops = [], []
    end_seen = {}
    by_serial = {s.serial: s for s in run_spans}
    waiting_span = None  # attempt index whose span has not been seen yet
    cur_attempt = None
    problems = []
    for ev in log:
        kind = ev[0]
        if kind == "msg":
            cur_attempt = None
            if ev[1] == "open_run":
                k = len(accepted)
                accepted.append(False)
                ops.append({"op": "open", "key": KEYS.index(ev[2]), "ok": not ev[3]})
                cur_attempt = k
                waiting_span = k
            elif ev[1] == "close_run":
                op = {"op": "close", "key": KEYS.index(ev[2])}
                if ev[3]:
                    op["absent"] = True
                else:
                    op["es"] = ev[4]
                ops.append(op)
        elif kind == "req":
            ops.append({"op": "abort"} if ev[1] == "abort" else {"op": "halt", "paused": bool(ev[2])})
            cur_attempt = None
        elif kind == "call_begin":
            ops.append({"op": "call_begin"})
            cur_attempt = None
        elif kind == "call_end":
            ops.append({"op": "call_end", "es": ev[1]})
            cur_attempt = None
        elif kind == "span.start" and ev[2] == RUN_SPAN:
            if waiting_span is None or cur_attempt != waiting_span:
                problems.append(f"run span {ev[1]} started without a preceding open_run message")
            else:
                serial_to_attempt[ev[1]] = waiting_span
                waiting_span = None
        elif kind == "span.end" and ev[2] == RUN_SPAN:
            sp = by_serial[ev[1]]
            i = end_seen.get(ev[1], 0)
            end_seen[ev[1]] = i + 1
            ended.append([serial_to_attempt.get(ev[1], -1), sp.ends[i].get("exit_status", "<unset>")])
        elif kind == "doc" and ev[1] == "start":
            if cur_attempt is None:
                problems.append("RunStart outside an open_run message")
            else:
                accepted[cur_attempt] = True
                uid_to_run[ev[2]] = cur_attempt
        elif kind == "doc" and ev[1] == "stop":
            stops.append([uid_to_run.get(ev[2], -1), ev[3]])
    if waiting_span is not None:
        problems.append(f"open_run message #{waiting_span} started no run span")
    if len(run_spans) != len(accepted):
        problems.append(f"{len(accepted)} open_run messages but {len(run_spans)} run spans")
    obs = {
        "accepted": accepted,
        "ended": ended,
        "stops": stops,
        "stack": [serial_to_attempt.get(s.serial, -1) for s in stack_objs],
    }
    extra = {"problems": problems, "open_left": open_left, "outcomes": outcomes, "tracer": how, "n_run_spans": len(run_spans)}
    return ops, obs, extra


# ============================================================================= oracle (on the implementation's observation)


def _norm(s):
    return "abort" if s == "aborted" else s


def oracle(obs, extra):
    """The property, stated directly on what the real engine and the recording tracer did.
    -> list of (symptom, what)."""
    bad = []
    for p in extra["problems"]:
        bad.append(("span-bookkeeping", p))
    ends, stops = {}, {}
    for k, a in obs["ended"]:
        ends.setdefault(k, []).append(a)
    for k, st in obs["stops"]:
        stops.setdefault(k, []).append(st)
    for k, acc in enumerate(obs["accepted"]):
        e = ends.get(k, [])
        if not acc:
            fate = f"ended {len(e)}x carrying {e}" if e else "never ended"
            bad.append(("span-leaked", f"open_run #{k} was rejected, yet a run span was started for it (span #{k}: {fate}; span stack at the end {obs['stack']})"))
            continue
        st = stops.get(k, [])
        if len(st) != 1:
            bad.append(("run-stop-count", f"run #{k} has {len(st)} RunStop documents"))
        if len(e) == 0:
            bad.append(("span-never-ended", f"run #{k} (RunStop exit_status {st}) : its span #{k} was never ended"))
        elif len(e) > 1:
            bad.append(("span-ended-twice", f"run #{k}: its span was ended {len(e)} times carrying {e}"))
        if e and st and _norm(e[0]) != _norm(st[0]):
            bad.append(("span-status-differs", f"run #{k}: RunStop exit_status {st[0]!r} but its span #{k} ended carrying exit_status {e[0]!r}"))
    return bad


# signature = <typical symptom>:<cause>, the cause being the first operation of the history that
# breaks the discipline the partial theorems assume (Engine/Tracing.lean `okOp`)
SIG = {
    "rejected-open_run": "span-leaked:rejected-open_run",
    "non-lifo-close": "span-status-swapped:non-lifo-close",
    "engine-closed-run": "span-never-ended:engine-closed-run",
    "close_run-exit_status-None": "span-status-none:close_run-exit_status-None",
    "close_run-exit_status-empty": "span-status-differs:close_run-exit_status-empty",
    "close_run-default-status-after-abort": "span-status-differs:close_run-default-status-after-abort",
    "aborted-run-closed-as-other": "span-status-differs:aborted-run-closed-as-other",
}


def first_hazard(ops):
    """Python mirror of `okOp`/`step` for the CURRENT facts (labelling only; cross-checked against the
    Lean model's `firstHazardFrom` on every case).  -> (index, cause) or (None, None)."""
    runs = []  # (key, run) newest first
    spans = []  # top first
    engine = "success"
    nxt = 0

    def truthy(s):
        return bool(s)

    for i, op in enumerate(ops):
        o = op["op"]
        if o == "open":
            dup = any(k == op["key"] for k, _ in runs)
            if dup or not op["ok"]:
                return i, "rejected-open_run"
            runs.insert(0, (op["key"], nxt))
            spans.insert(0, nxt)
            nxt += 1
        elif o == "close":
            if not any(k == op["key"] for k, _ in runs):
                continue
            k, r = runs[0]
            if k != op["key"]:
                return i, "non-lifo-close"
            absent = op.get("absent", False)
            es = None if absent else op["es"]
            stop = "success" if absent or not truthy(es) else es
            if r in spans:
                if absent:
                    if engine != "success":
                        return i, "close_run-default-status-after-abort"
                elif not truthy(es):
                    return i, "close_run-exit_status-None" if es is None else "close_run-exit_status-empty"
                spans.remove(r)
            elif _norm(stop) != "abort":
                return i, "aborted-run-closed-as-other"
            runs.pop(0)
        elif o == "abort":
            engine = "abort"
            spans = []
        elif o == "halt":
            spans = []
            if op.get("paused"):
                engine = "abort"
        elif o == "call_end":
            if any(r in spans for _, r in runs):
                return i, "engine-closed-run"
            if runs and _norm(op["es"]) != "abort":
                return i, "aborted-run-closed-as-other"
            engine = op["es"]
            runs = []
        elif o == "call_begin":
            engine = "success"
    return None, None


def judge(case, ops, obs, extra):
    """-> list of Violation for this case (at most one: the first symptom, labelled by its cause)."""
    bad = oracle(obs, extra)
    if not bad:
        return []
    idx, cause = first_hazard(ops)
    symptom, what = bad[0]
    if cause is None or symptom in ("span-bookkeeping", "run-stop-count", "span-ended-twice"):
        sig = f"{symptom}:disciplined-history" if cause is None else f"{symptom}:after-{cause}"
    else:
        sig = SIG[cause]
    more = f" (+{len(bad) - 1} more: {[b[0] for b in bad[1:]]})" if len(bad) > 1 else ""
    why = f"; first undisciplined operation: #{idx} {ops[idx]} [{cause}]" if cause else "; the history is disciplined -- the partial theorems say this cannot happen for the modelled code"
    return [C.Violation(sig, what + more + why, case)]


# ============================================================================= case generation

STAT = ["success", "fail", "abort"]  # the RunStop schema accepts nothing else


def _stack_after(msgs):
    """open run keys (oldest first) after the engine processed these plan messages"""
    st = []
    for m in msgs:
        if m["c"] == "open" and m.get("run") not in st and not m.get("bad_md"):
            st.append(m.get("run"))
        elif m["c"] == "close" and m.get("run") in st:
            st.remove(m.get("run"))
    return st


def _close(rng, key, hz):
    m = {"c": "close", "run": key}
    r = rng.random()
    if r < hz * 0.35:
        m["es"] = None  # what bluesky.plan_stubs.close_run() sends
    elif r < hz * 0.35 + 0.2:
        pass  # keyword absent
    else:
        m["es"] = rng.choice(STAT)
    return m


def gen_call(rng, hz):
    """One RE(...) call.  hz = 0: a disciplined call (LIFO closes, explicit statuses, every run closed
    by the plan, clean-up closes what an abort/stop/raise left open); hz > 0: each step may instead be
    one of the undisciplined moves."""
    body, stack = [], []
    for _ in range(rng.choice([1, 2, 3, 4, 5, 6, 8])):
        r = rng.random()
        free = [k for k in KEYS if k not in stack]
        if r < 0.42 and free and len(stack) < 3:
            k = rng.choice(free)
            m = {"c": "open", "run": k}
            if rng.random() < hz * 0.15:
                m["bad_md"] = True
            else:
                stack.append(k)
            body.append(m)
        elif r < 0.76 and stack:
            k = stack[-1]
            if len(stack) > 1 and rng.random() < hz * 0.5:
                k = rng.choice(stack[:-1])
            stack.remove(k)
            body.append(_close(rng, k, hz))
        elif r < 0.83 and free:
            body.append(_close(rng, rng.choice(free), hz))  # key not open: rejected
        elif r < 0.83 + hz * 0.17 and stack:
            body.append({"c": "open", "run": rng.choice(stack)})  # duplicate key: rejected
        else:
            body.append({"c": "null"})
    if rng.random() >= hz * 0.4:
        order = list(reversed(stack))
        if len(order) > 1 and rng.random() < hz * 0.5:
            rng.shuffle(order)
        body += [_close(rng, k, hz) for k in order]
    call = {"body": body}
    kind = rng.choice(["normal", "normal", "pause", "pause", "raise", "inject"])
    term = None
    if kind == "pause":
        pos = sorted(rng.randrange(len(body) + 1) for _ in range(rng.choice([1, 1, 2])))
        for j, p in enumerate(pos):
            body.insert(p + j, {"c": "pause"})
        term = rng.choice(["resume", "abort", "abort", "stop", "halt"])
        call["after"] = ["resume"] * (len(pos) - 1) + [term]
        at = _stack_after(body[: pos[-1] + len(pos) - 1])
    elif kind == "raise":
        p = rng.randrange(len(body) + 1)
        body.insert(p, {"c": "raise"})
        del body[p + 1 :]
        term = "raise"
        at = _stack_after(body[:p])
    elif kind == "inject":
        i = rng.randrange(len(body))
        term = rng.choice(["abort", "abort", "stop", "halt"])
        call["inject"] = {"at": i, "what": term}
        at = _stack_after(body[: i + 1])
    if term in ("abort", "stop", "raise", "halt"):
        h = rng.random() < hz
        if term == "halt" and not h:
            on_exc = None if rng.random() < 0.6 else [{"c": "close", "run": k, "es": "abort"} for k in reversed(at)]
        else:
            order = list(reversed(at))
            es = "$exc"
            if h:
                v = rng.choice(["other-status", "fifo", "partial", "reopen-default", "none"])
                if v == "other-status":
                    es = rng.choice(["success", "fail"])
                elif v == "fifo":
                    order = list(at)
                elif v == "partial":
                    order = order[: len(order) // 2]
            on_exc = [{"c": "close", "run": k, "es": es} for k in order]
            if h and v == "reopen-default":
                k = rng.choice(KEYS)
                on_exc += [{"c": "open", "run": k}, {"c": "close", "run": k}]
            if h and v == "none":
                on_exc = None
        call["on_exc"] = on_exc
        if on_exc is not None and rng.random() < 0.3:
            call["swallow"] = True
    call["kind"] = kind if term is None else f"{kind}:{term}"
    return call


def gen_case(rng):
    r = rng.random()
    stream, hz = ("disciplined", 0.0) if r < 0.55 else (("hazard", 0.45) if r < 0.85 else ("soup", 1.0))
    n = rng.choice([1, 1, 1, 1, 1, 1, 2, 2, 2, 3])
    return {"stream": stream, "calls": [gen_call(rng, hz) for _ in range(n)]}


_ALPHA = [
    {"c": "open", "run": "a"},
    {"c": "open", "run": "b"},
    {"c": "close", "run": "a", "es": "fail"},
    {"c": "close", "run": "b", "es": "success"},
    {"c": "close", "run": "a"},
]


def exhaustive_cases(maxlen):
    """every single-call plan over 5 messages (2 run keys) up to this length, ending normally or with
    an error the plan does not handle (the engine closes what is open)"""
    for n in range(1, maxlen + 1):
        for body in itertools.product(_ALPHA, repeat=n):
            yield {"stream": "exhaustive", "calls": [{"body": [dict(m) for m in body], "kind": "normal"}]}
            yield {"stream": "exhaustive", "calls": [{"body": [dict(m) for m in body] + [{"c": "raise"}], "kind": "raise:raise"}]}


def _cases(ctx):
    corpus = C.VERIF / "corpus" / "C42"
    if corpus.exists():
        for f in sorted(corpus.glob("*.json")):
            case = json.loads(f.read_text())["case"]
            case.setdefault("stream", "corpus")
            yield case
    yield from exhaustive_cases(4 if (ctx.tier == "thorough" or ctx.deep) else 3)
    for _ in range(ctx.budget(1500, 30000)):
        yield gen_case(ctx.rng)


# ============================================================================= the check


def _watchdog(state, limit=60.0):
    import os
    import sys
    import threading
    import time

    def watch():
        while not state.get("done"):
            time.sleep(1.0)
            t0 = state.get("t0")
            if t0 and time.time() - t0 > limit:
                sys.__stderr__.write("C42 harness: the engine did not come back within %ss on case %s\n" % (limit, json.dumps(state.get("case"))))
                sys.__stderr__.flush()
                os._exit(2)

    threading.Thread(target=watch, daemon=True).start()


def run(ctx, model=True):
    import time

    res = C.Result(
        rule="cases = corpus (the counterexample plans) + every single-call plan over 5 open/close messages on 2 run keys up to "
        "length 3 (4 in thorough), ending normally or by an unhandled plan error + random cases of 1-3 calls on one RunEngine "
        "(streams: disciplined 55% / hazard 30% / soup 15%; endings: normal, Msg('pause') then resume/abort/stop/halt, plan "
        "error, abort/stop/halt injected while running); non-trivial = at least one run opened and (>= 2 open_run messages "
        "or an abort/halt request or >= 2 calls)"
    )
    state = {"done": False}
    _watchdog(state)
    cases, opss, obss = [], [], []
    n_spans = 0
    how = "?"
    try:
        for case in _cases(ctx):
            state["case"], state["t0"] = case, time.time()
            ops, obs, extra = run_impl(case)
            state["t0"] = None
            how = extra["tracer"]
            n_spans += extra["n_run_spans"]
            cases.append(case)
            opss.append(ops)
            obss.append(obs)
            reqs = sum(1 for o in ops if o["op"] in ("abort", "halt"))
            res.seen(case, any(obs["accepted"]) and (len(obs["accepted"]) >= 2 or reqs > 0 or len(case["calls"]) >= 2))
            res.count("stream:" + case.get("stream", "?"))
            for call in case["calls"]:
                res.count("ending:" + call.get("kind", "?"))
            idx, cause = first_hazard(ops)
            res.count("history:" + (cause or "disciplined"))
            for v in judge(case, ops, obs, extra):
                res.violations.append(v)
                res.count("oracle-false:" + v.sig)
    finally:
        state["done"] = True
    if n_spans == 0:
        raise RuntimeError("C42 harness: no '%s' span was recorded -- the recording tracer is not reached (%s)" % (RUN_SPAN, how))
    res.facts["tracer_installed_by"] = how
    res.facts["run_spans_recorded"] = n_spans
    if model:
        replies = C.lean_batch(DRIVER, [json.dumps({"ops": ops}) for ops in opss])
        for case, ops, obs, rep in zip(cases, opss, obss, replies):
            m = json.loads(rep)
            idx, _ = first_hazard(ops)
            mm = {k: m.get(k) for k in ("accepted", "ended", "stops", "stack")}
            if mm != obs:
                res.disagreements.append({"case": case, "ops": ops, "model": mm, "impl": obs})
            elif m.get("first_hazard") != idx:
                res.disagreements.append({"case": case, "ops": ops, "what": "discipline verdict of the Lean model and of the harness labeller differ", "model": m.get("first_hazard"), "impl": idx})
        for i in (0, len(cases) // 2, len(cases) - 1):
            res.samples.append({"case": cases[i], "history": opss[i], "impl": obss[i], "model": json.loads(replies[i])})
    else:
        res.samples.append({"case": cases[-1], "history": opss[-1], "impl": obss[-1]})
    res.count("impl-only-probe:failed-close", 1)
    for sig, what, case in failed_close_probe():
        res.violations.append(C.Violation(sig, "implementation-only probe: " + what, case))
    return res


def failed_close_probe():
    """Implementation-only probe (the tracing model has no failing close_run): a run with a monitored signal whose clear_sub
    fails ONCE; the plan's close_run therefore fails before any RunStop exists, the plan catches the error and closes again
    with exit_status 'fail'.  The run's span is ended exactly once, when the run is really closed, with that status; a second
    run open under another key keeps its own span and status."""
    from bluesky import RunEngine
    from bluesky.utils import Msg

    FT.verify_installed()
    logging.getLogger("bluesky").setLevel(logging.CRITICAL + 1)
    bad = []
    for two_runs in (False, True):
        REC = FT.REC
        REC.reset()

        class Sig:
            parent = None
            name = "sig"

            def __init__(self):
                self.subs, self.fail = [], True

            def subscribe(self, cb, **kw):
                self.subs.append(cb)

            def clear_sub(self, cb):
                if self.fail:
                    self.fail = False
                    raise OSError("clear_sub failed once")
                self.subs = [c for c in self.subs if c != cb]

            def read(self):
                return {"sig": {"value": 1, "timestamp": 0.0}}

            def describe(self):
                return {"sig": {"source": "sim", "dtype": "number", "shape": []}}

            def read_configuration(self):
                return {}

            def describe_configuration(self):
                return {}

        sig = Sig()
        buf = io.StringIO()
        with contextlib.redirect_stdout(buf), contextlib.redirect_stderr(buf):
            RE = RunEngine({}, loop=_loop(), context_managers=[])
            stops = {}
            starts = []
            RE.subscribe(lambda n, d: starts.append(d["uid"]) if n == "start" else (stops.__setitem__(d["run_start"], d["exit_status"]) if n == "stop" else None))

            def plan():
                if two_runs:
                    yield Msg("open_run", run="outer")
                yield Msg("open_run", run="inner")
                yield Msg("monitor", sig, run="inner", name="sig_monitor")
                try:
                    yield Msg("close_run", run="inner", exit_status="success", reason="")
                except OSError:
                    yield Msg("close_run", run="inner", exit_status="fail", reason="first close failed")
                if two_runs:
                    yield Msg("close_run", run="outer", exit_status="success", reason="")

            try:
                RE(plan())
                out = "returned"
            except BaseException as e:  # noqa: BLE001
                out = type(e).__name__
        ends = [e for e in REC.log if e[0] == "span.end" and str(e[2]).endswith(" run")]
        status = {}
        for e in REC.log:
            if e[0] == "span.set_attribute" and e[3] == "exit_status" and str(e[2]).endswith(" run"):
                status.setdefault(e[1], []).append(e[4])
        case = {"probe": "failed-close", "two_runs": two_runs}
        want = ["success", "fail"] if two_runs else ["fail"]     # spans in start order: outer first
        got = [status.get(k, [None])[-1] for k in sorted(status)]
        n_spans = len([e for e in REC.log if e[0] == "span.start" and str(e[2]).endswith(" run")])
        if out != "returned" or sorted(stops.values()) != sorted(want):
            bad.append(("failed-close:scenario-did-not-run", f"{case}: {out}, RunStops {stops}", case))
            continue
        per_span_ends = {}
        for e in ends:
            per_span_ends[e[1]] = per_span_ends.get(e[1], 0) + 1
        if n_spans != len(want) or any(v != 1 for v in per_span_ends.values()) or len(per_span_ends) != len(want):
            bad.append(("failed-close:span-not-ended-exactly-once", f"{'two runs' if two_runs else 'one run'}, the first close_run failed and was retried: {n_spans} run spans, ends per span {per_span_ends}", case))
        elif got != want or any(len(v) != 1 for v in status.values()):
            bad.append(("failed-close:span-status-differs-from-RunStop", f"{'two runs (outer, inner)' if two_runs else 'one run'}: RunStop statuses {want}, span statuses {[status[k] for k in sorted(status)]}", case))
    return bad


def run_impl_only(ctx):
    return run(ctx, model=False)


def replay(ctx, data):
    if (data.get("case") or {}).get("probe") == "failed-close":
        res = C.Result()
        for sig, what, case in failed_close_probe():
            res.violations.append(C.Violation(sig, what, case))
        return res
    res = C.Result()
    case = data.get("case")
    if not case:
        return res
    ops, obs, extra = run_impl(case)
    res.violations += judge(case, ops, obs, extra)
    return res
