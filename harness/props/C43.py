"""C43 -- PersistentDict keeps what was last written.

Tie: (T) which methods of PersistentDict write through to `self._func`, whether `reload` rebinds
`self._cache` or updates it in place, which dict the weakref finalizer captured and that
pop/setdefault/update/clear are the un-overridden MutableMapping mixins are re-extracted from the
current utils/__init__.py into lean/BlueskyVerif/IO/PersistentDictGenerated.lean; the model and the
commutation lemmas unfold those constants.  (C) the hand-written model (IO/PersistentDict.lean: zict.File
order, dict order, mixins, finalizer) is run against real PersistentDict instances on temporary
directories under /tmp on the same operation histories (incl. reload, nested mutation, gc via
`del obj; gc.collect()`, crash = finalizer detached, reopen points); the reopened contents are compared with
the Lean model and with an independent Python statement of the two-map specification.
The msgpack round-trip law the theorems are parametrised by is checked on every generated value.
"""
from __future__ import annotations

import ast
import gc
import itertools
import json
import shutil
import tempfile

import common as C
import pyexpr as P

MANIFEST = {
    "text": "FULL. Theorems (Props/C43.lean), for EVERY operation history (set del pop popitem setdefault update clear flush "
    "reload nested-mutation, any number of gc-reopen / crash-reopen points, any keys, values and directory listing order; "
    "induction over the history) from any state satisfying the representation invariant (e.g. a new directory): the model "
    "refines a two-map specification (visible map, durable map) operation by operation; after gc-then-reopen, and after "
    "flush-then-crash-then-reopen, the new instance holds exactly the visible map (values up to msgpack's tuple->list "
    "normalisation); after a crash without flush it holds exactly the durable map, where set/del/pop/popitem (and the "
    "mixins built on them) are write-through and a nested mutation is not durable until flush/gc.",
    "note": "Trusted: Lean kernel; the extractor below (statement shapes of the PersistentDict methods; raises when not "
    "recognised); the hand model of zict.File/zict.Func/dict/MutableMapping behaviour, tied by the correspondence run; "
    "msgpack+msgpack_numpy as a parameter with the round-trip law load(dump v) = norm v, checked on every generated value "
    "(numpy arrays/scalars, bytes, nested dict/list/tuple); the file system; CPython running weakref.finalize callbacks at "
    "gc.collect(). Equality is up to msgpack's normalisation: tuples come back as lists (np.float64 is a Python float).",
    "technique": "Lean 4 refinement proof (abstraction function + per-operation commutation lemmas + induction over the "
    "history) over a source-parametrised model (translator) + correspondence run against real PersistentDict instances",
}
LEAN_MODULES = ["BlueskyVerif.Props.C43"]
DRIVER_MODULES = ["BlueskyVerif.IO.PersistentDict"]
DRIVER = "Drivers/C43.lean"
ASSUMPTIONS = [
    "one instance at a time on a directory (the property's premise); no other process touches the files",
    "keys are str (zict.File); values are msgpack-able and round-trip: nested mapping keys are str, ints fit in 64 bits "
    "(a value such as {1: 2} can be stored but makes every later open raise ValueError -- outside the law, reported in notes)",
    "distinct keys hold distinct mutable objects (no aliasing between values of different keys)",
    "the finalizer runs when the instance is collected (gc) and does not run at a crash",
    "equality of values is up to msgpack's normalisation (tuple -> list)",
]
TRUSTED = ["harness/props/C43.py::extract (statement-shape recognition in class PersistentDict)", "zict 3.0 File/Func, msgpack, msgpack_numpy (parameters)"]

GEN = C.LEAN / "BlueskyVerif" / "IO" / "PersistentDictGenerated.lean"


# ----------------------------------------------------------------------------- translator
def _stmts(fn):
    return [ast.unparse(s) for s in P.body_wo_doc(fn)]


def extract(ctx):
    path = C.SRC / "utils" / "__init__.py"
    tree = ast.parse(path.read_text())
    cls = P.find_class(tree, "PersistentDict")
    if [ast.unparse(b) for b in cls.bases] != ["collections.abc.MutableMapping"]:
        raise P.Untranslatable(f"PersistentDict bases: {[ast.unparse(b) for b in cls.bases]}")
    meths = {n.name: n for n in cls.body if isinstance(n, ast.FunctionDef)}
    need = {"__init__", "__setitem__", "__getitem__", "__delitem__", "__len__", "__iter__", "popitem", "flush", "reload", "_dump", "_load"}
    if not need <= set(meths):
        raise P.Untranslatable(f"methods missing: {sorted(need - set(meths))}")
    mixins = {"pop", "setdefault", "update", "clear", "items", "keys", "values", "get", "__contains__", "__eq__"}
    if mixins & set(meths):
        raise P.Untranslatable(f"MutableMapping mixin overridden (not modelled): {sorted(mixins & set(meths))}")
    facts = {"file": "src/bluesky/utils/__init__.py", "class_line": cls.lineno, "methods": sorted(meths)}

    def flags(name, known):
        got = _stmts(meths[name])
        extra = [s for s in got if s not in known]
        if extra:
            raise P.Untranslatable(f"{name}: statement(s) not modelled: {extra}")
        facts[name] = f"{got} (line {meths[name].lineno})"
        return [k in got for k in known]

    set_cache, set_func = flags("__setitem__", ["self._cache[key] = value", "self._func[key] = value"])
    del_cache, del_func = flags("__delitem__", ["del self._cache[key]", "del self._func[key]"])
    if _stmts(meths["__getitem__"]) != ["return self._cache[key]"] or _stmts(meths["__iter__"]) != ["yield from self._cache"] or _stmts(meths["__len__"]) != ["return len(self._cache)"]:
        raise P.Untranslatable("__getitem__/__iter__/__len__ do not read self._cache as modelled")
    pi = flags("popitem", ["key, value = self._cache.popitem()", "del self._func[key]", "return (key, value)"])
    if not (pi[0] and pi[2]):
        raise P.Untranslatable("popitem does not pop from self._cache and return the pair")
    fl = _stmts(meths["flush"])
    if fl == ["for k, v in self.items():\n    self._func[k] = v"]:
        flush_all = True
    elif fl in ([], ["pass"]):
        flush_all = False
    else:
        raise P.Untranslatable(f"flush: {fl}")
    facts["flush"] = f"{fl} (line {meths['flush'].lineno})"
    rl = _stmts(meths["reload"])
    facts["reload"] = f"{rl} (line {meths['reload'].lineno})"
    if rl == ["self._cache = dict(self._func.items())"]:
        in_place = False
    elif rl == ["fresh = dict(self._func.items())", "self._cache.clear()", "self._cache.update(fresh)"]:
        in_place = True
    else:
        raise P.Untranslatable(f"reload: {rl}")
    init = meths["__init__"]
    isrc = _stmts(init)
    for needed in ("self._file = zict.File(directory)", "self._func = zict.Func(self._dump, self._load, self._file)", "self._cache = {}", "self.reload()"):
        if needed not in isrc:
            raise P.Untranslatable(f"__init__ lacks `{needed}`")
    if isrc.index("self._cache = {}") > isrc.index("self.reload()"):
        raise P.Untranslatable("__init__: reload() before the cache is created")
    fin_def = next((n for n in init.body if isinstance(n, ast.FunctionDef) and n.name == "finalize"), None)
    fin_reg = next((n for n in ast.walk(init) if isinstance(n, ast.Call) and ast.unparse(n.func) == "weakref.finalize"), None)
    if fin_def is None or fin_reg is None:
        raise P.Untranslatable("__init__: finalize callback / weakref.finalize registration not found")
    if [a.arg for a in fin_def.args.args] != ["zfile", "cache", "dump"] or [ast.unparse(a) for a in fin_reg.args[:3]] != ["self", "finalize", "self._file"] or len(fin_reg.args) != 5:
        raise P.Untranslatable("weakref.finalize(self, finalize, self._file, <cache>, <dump>) shape not recognised")
    captured = ast.unparse(fin_reg.args[3])
    if captured == "self._cache":
        fin_cache = True
    elif captured in ("{}", "dict()"):
        fin_cache = False
    else:
        raise P.Untranslatable(f"finalizer captures {captured}")
    fb = _stmts(fin_def)
    if fb == ["zfile.update(((k, dump(v)) for k, v in cache.items()))"]:
        fin_all = True
    elif fb in ([], ["pass"]):
        fin_all = False
    else:
        raise P.Untranslatable(f"finalize body: {fb}")
    if isrc.index("self.reload()") > next(i for i, s in enumerate(isrc) if "weakref.finalize" in s):
        raise P.Untranslatable("__init__: finalizer registered before the first reload")
    facts["finalizer"] = f"captures {captured}; body {fb} (line {fin_def.lineno})"
    facts["codec"] = {"_dump": _stmts(meths["_dump"])[-1], "_load": _stmts(meths["_load"])[-1]}

    b = lambda x: "true" if x else "false"  # noqa: E731
    out = f"""-- GENERATED by harness/props/C43.py from src/bluesky/utils/__init__.py (class PersistentDict) -- do not edit.
namespace BlueskyVerif.PersistentDict.Gen

/-- reload(): `self._cache.clear(); self._cache.update(fresh)` (true) or `self._cache = ...` (false: rebinds) -/
def reloadInPlace : Bool := {b(in_place)}
/-- __setitem__: `self._cache[key] = value` -/
def setWritesCache : Bool := {b(set_cache)}
/-- __setitem__: `self._func[key] = value` -/
def setWritesThrough : Bool := {b(set_func)}
/-- __delitem__: `del self._cache[key]` -/
def delDeletesCache : Bool := {b(del_cache)}
/-- __delitem__: `del self._func[key]` -/
def delWritesThrough : Bool := {b(del_func)}
/-- popitem: `key, value = self._cache.popitem()` followed by `del self._func[key]` -/
def popitemWritesThrough : Bool := {b(pi[1])}
/-- flush: `for k, v in self.items(): self._func[k] = v` -/
def flushWritesAll : Bool := {b(flush_all)}
/-- `weakref.finalize(self, finalize, self._file, self._cache, PersistentDict._dump)`: the finalizer holds the cache dict -/
def finalizerCapturesCache : Bool := {b(fin_cache)}
/-- finalize: `zfile.update((k, dump(v)) for k, v in cache.items())` -/
def finalizerWritesAll : Bool := {b(fin_all)}

end BlueskyVerif.PersistentDict.Gen
"""
    C.write_if_changed(GEN, out)
    return facts


# ----------------------------------------------------------------------------- values
def canon(v):
    """Python value -> canonical JSON (leaf = string; {"l"}: list, {"t"}: tuple, {"d"}: dict with str keys)."""
    import numpy as np

    if v is None:
        return "n"
    if isinstance(v, bool):
        return f"b:{v}"
    if isinstance(v, np.ndarray):
        return f"nd:{v.dtype.str}:{list(v.shape)}:{v.tobytes().hex()}"
    if isinstance(v, float):  # includes np.float64, which msgpack packs as a plain double
        return "f:nan" if v != v else f"f:{float(v).hex()}"
    if isinstance(v, np.generic):
        return f"np:{v.dtype.str}:{v.item()!r}"
    if isinstance(v, int):
        return f"i:{v}"
    if isinstance(v, complex):
        return f"c:{v!r}"
    if isinstance(v, str):
        return "s:" + v
    if isinstance(v, (bytes, bytearray)):
        return "y:" + bytes(v).hex()
    if isinstance(v, list):
        return {"l": [canon(x) for x in v]}
    if isinstance(v, tuple):
        return {"t": [canon(x) for x in v]}
    if isinstance(v, dict):
        return {"d": [[str(k) if isinstance(k, str) else f"<nonstr {k!r}>", canon(x)] for k, x in v.items()]}
    return f"?:{type(v).__name__}"


def decode(j):
    """canonical JSON -> a fresh Python value"""
    import numpy as np

    if isinstance(j, dict):
        if "l" in j:
            return [decode(x) for x in j["l"]]
        if "t" in j:
            return tuple(decode(x) for x in j["t"])
        return {k: decode(x) for k, x in j["d"]}
    tag, _, rest = j.partition(":")
    if j == "n":
        return None
    if tag == "b":
        return rest == "True"
    if tag == "i":
        return int(rest)
    if tag == "f":
        return float("nan") if rest == "nan" else float.fromhex(rest)
    if tag == "s":
        return rest
    if tag == "y":
        return bytes.fromhex(rest)
    if tag == "c":
        return complex(rest)
    if tag == "nd":
        dt, shape, hx = rest.split(":")
        return np.frombuffer(bytes.fromhex(hx), dtype=np.dtype(dt)).reshape(json.loads(shape)).copy()
    if tag == "np":
        dt, _, val = rest.partition(":")
        return np.dtype(dt).type(eval(val, {"__builtins__": {}}, {"nan": float("nan"), "inf": float("inf")}))  # noqa: S307
    raise ValueError(j)


def normalise(j):
    """msgpack's normalisation on canonical JSON: tuples come back as lists"""
    if isinstance(j, dict):
        if "l" in j:
            return {"l": [normalise(x) for x in j["l"]]}
        if "t" in j:
            return {"l": [normalise(x) for x in j["t"]]}
        return {"d": [[k, normalise(x)] for k, x in j["d"]]}
    return j


def kind(j):
    return "dict" if isinstance(j, dict) and "d" in j else "list" if isinstance(j, dict) and "l" in j else "tuple" if isinstance(j, dict) else j.split(":")[0]


LEAVES = [canon(x) for x in (None, True, False, 0, -7, 2**63 - 1, 2**64 - 1, -(2**63), 3.0, -0.0, float("inf"), float("nan"), 1e-300, "", "text ü", b"\x00\xff", 1 + 2j)]


def gen_value(rng, depth=0):
    import numpy as np

    r = rng.random()
    if depth < 3 and r < 0.40:
        n = rng.choice([0, 1, 2, 3])
        k = rng.choice(["l", "t", "d", "d"])
        if k == "d":
            return {"d": [[rng.choice(["x", "y", "z", "color", "1", ""]) + "_" * i, gen_value(rng, depth + 1)] for i in range(n)]}
        return {k: [gen_value(rng, depth + 1) for _ in range(n)]}
    if r < 0.55:
        dt = rng.choice(["<i8", "<f8", "<f4", "|u1", "|b1", "<c16"])
        shape = rng.choice([[0], [3], [2, 2], [], [1, 0]])
        size = 1
        for s in shape:
            size *= s
        a = (np.arange(size) * rng.choice([1, 3, -2])).astype(np.dtype(dt)).reshape(shape)
        return canon(a)
    if r < 0.65:
        return canon(rng.choice([np.int32(3), np.int64(-5), np.uint8(200), np.float32(1.5), np.float64(2.25), np.bool_(True), np.float64("nan")]))
    return rng.choice(LEAVES)


def gen_array(rng):
    """a small non-empty numpy array value"""
    import numpy as np

    dt = rng.choice(["<i4", "<f8", "<i8"])
    n = rng.choice([1, 2, 3])
    return canon((np.arange(n) * rng.choice([1, 3, -2])).astype(np.dtype(dt)))


def gen_container(rng, want):
    """a dict or list value (the kinds that can be mutated in place)"""
    for _ in range(50):
        v = gen_value(rng, 0)
        if kind(v) == want:
            return v
    return {"d": [["x", "i:1"]]} if want == "dict" else {"l": ["i:1"]}


# ----------------------------------------------------------------------------- the specification, stated in Python
class SpecMap:
    """visible map / durable map over canonical values (independent of the Lean text)"""

    def __init__(self):
        self.vis, self.dur = {}, {}

    def apply(self, op, ret):
        o = op["op"]
        if o == "set":
            self.vis[op["k"]] = op["v"]
            self.dur[op["k"]] = normalise(op["v"])
        elif o in ("del", "pop"):
            if op["k"] in self.vis:
                del self.vis[op["k"]]
                self.dur.pop(op["k"], None)
        elif o == "popitem":
            if isinstance(ret, dict) and "item" in ret:
                self.vis.pop(ret["item"][0], None)
                self.dur.pop(ret["item"][0], None)
        elif o == "setdefault":
            if op["k"] not in self.vis:
                self.vis[op["k"]] = op["v"]
                self.dur[op["k"]] = normalise(op["v"])
        elif o == "update":
            for k, v in op["kvs"]:
                self.vis[k] = v
                self.dur[k] = normalise(v)
        elif o == "clear":
            self.vis, self.dur = {}, {}
        elif o == "flush":
            self.dur = {k: normalise(v) for k, v in self.vis.items()}
        elif o == "reload":
            self.vis = dict(self.dur)
        elif o == "mutate":
            if op["k"] in self.vis:
                self.vis[op["k"]] = op["v"]
        elif o == "reassign":
            # d[k] = d[k]: the documented way to persist a value that was mutated in place
            if op["k"] in self.vis:
                self.dur[op["k"]] = normalise(self.vis[op["k"]])
        elif o == "gc_reopen":
            self.vis = {k: normalise(v) for k, v in self.vis.items()}
            self.dur = dict(self.vis)
        elif o == "crash_reopen":
            self.vis = dict(self.dur)


# ----------------------------------------------------------------------------- running the real code
def _mutate_in_place(obj, new):
    import numpy as np

    if isinstance(obj, dict) and isinstance(new, dict):
        obj.clear()
        obj.update(new)
    elif isinstance(obj, list) and isinstance(new, list):
        obj[:] = new
    elif isinstance(obj, np.ndarray) and isinstance(new, np.ndarray) and obj.shape == new.shape and obj.dtype == new.dtype and obj.flags.writeable:
        obj[...] = new
    else:
        raise ValueError(f"case asks for an impossible in-place mutation: {type(obj).__name__} -> {type(new).__name__}")


def run_impl(case):
    """-> (observation, lean_request, info)"""
    from bluesky.utils import PersistentDict

    tmp = tempfile.mkdtemp(prefix="verif_c43_")
    steps, req_ops, law_bad, notes = [], [], [], []
    d = None
    try:
        d = PersistentDict(tmp)
        for op in case["ops"]:
            o = op["op"]
            ret = None
            rop = dict(op)
            try:
                if o == "set":
                    d[op["k"]] = decode(op["v"])
                elif o == "del":
                    del d[op["k"]]
                elif o == "pop":
                    r = d.pop(op["k"], decode(op["default"])) if "default" in op else d.pop(op["k"])
                    ret = {"val": canon(r)}
                elif o == "popitem":
                    k, v = d.popitem()
                    ret = {"item": [k, canon(v)]}
                elif o == "setdefault":
                    ret = {"val": canon(d.setdefault(op["k"], decode(op["v"])))}
                elif o == "update":
                    d.update([(k, decode(v)) for k, v in op["kvs"]])
                elif o == "clear":
                    d.clear()
                elif o == "flush":
                    d.flush()
                elif o == "reload":
                    d.reload()
                elif o == "mutate":
                    _mutate_in_place(d[op["k"]], decode(op["v"]))
                elif o == "reassign":
                    # the SAME object that the dict already holds is assigned again; for the model this is `set k <current value>`
                    rop = {"op": "pop", "k": op["k"]}      # if the key is absent both sides answer KeyError and change nothing
                    obj = d[op["k"]]
                    rop = {"op": "set", "k": op["k"], "v": canon(obj)}
                    d[op["k"]] = obj
                elif o in ("gc_reopen", "crash_reopen"):
                    fin = d._finalizer
                    if o == "crash_reopen":
                        fin.detach()
                    del d  # refcount -> 0: CPython runs the weakref.finalize callback here; a cycle would need gc.collect()
                    if o == "gc_reopen" and fin.alive:
                        gc.collect()
                    if o == "gc_reopen" and fin.alive:
                        notes.append("finalizer did not run at del + gc.collect()")
                        fin()
                    d = PersistentDict(tmp)
                    rop["order"] = list(d)
                else:
                    raise ValueError(o)
            except KeyError:
                ret = "KeyError"
            st = {"ret": ret, "keys": list(d)}
            if o in ("reload", "gc_reopen", "crash_reopen"):
                st["content"] = [[k, canon(v)] for k, v in d.items()]
            st["visible"] = {k: canon(v) for k, v in d.items()}
            steps.append(st)
            req_ops.append(rop)
        final = [[k, canon(v)] for k, v in d.items()]
        # the round-trip law on every value of the case
        for op in case["ops"]:
            for v in [op.get("v")] + [kv[1] for kv in op.get("kvs", [])]:
                if v is None:
                    continue
                got = canon(PersistentDict._load(PersistentDict._dump(decode(v))))
                if got != normalise(v):
                    law_bad.append((kind(v), v, got))
    finally:
        if d is not None:
            d._finalizer.detach()  # the directory is about to be removed
        d = None
        shutil.rmtree(tmp, ignore_errors=True)
    obs = {"steps": [{k: s[k] for k in s if k != "visible"} for s in steps], "final": final}
    return obs, {"ops": req_ops}, {"visible": [s["visible"] for s in steps], "law_bad": law_bad, "notes": notes}


def oracle(case, obs, info):
    """The property on what the implementation did.  -> [(sig, what)]"""
    bad = []
    spec = SpecMap()
    hist = []  # ops of the current instance
    for i, (op, st, vis) in enumerate(zip(case["ops"], obs["steps"], info["visible"])):
        spec.apply(op, st["ret"])
        hist.append(op["op"])
        o = op["op"]
        where = {"gc_reopen": "gc-reopen", "crash_reopen": "crash-reopen", "reload": "reload"}.get(o, "visible")
        got = vis
        if got != spec.vis:
            keys = sorted(k for k in set(got) | set(spec.vis) if got.get(k) != spec.vis.get(k))
            k = keys[0]
            last = next((p["op"] for p in reversed(case["ops"][: i + 1]) if p.get("k") == k or p["op"] in ("popitem", "clear", "update", "flush") and p["op"] != o), "none")
            prev = hist[:-1]
            since = prev[max((j for j, h in enumerate(prev) if h in ("gc_reopen", "crash_reopen")), default=-1) + 1 :]
            flavour = "after-reload" if "reload" in since else "no-reload"
            nested = "+nested-mutation" if "mutate" in since else ""
            bad.append((f"{where}:last-op-on-key={last}:{flavour}{nested}", f"after op #{i} ({o}) key {k!r}: instance shows {got.get(k, '<absent>')}, the operations so far say {spec.vis.get(k, '<absent>')}"))
            break
        if o in ("gc_reopen", "crash_reopen"):
            hist = [o]
    for kd, v, got in info["law_bad"][:1]:
        bad.append((f"roundtrip-law:{kd}", f"_load(_dump(v)) = {got} but normalise(v) = {normalise(v)} for v = {v}"))
    return bad


# ----------------------------------------------------------------------------- cases
KEYS = ["a", "b", "sample", "A", "a#b", "a/b", "%41", "ü", " ", ".", "..", "", "a.b", "k" * 40]
OPS = ["set", "set", "set", "del", "pop", "pop", "popitem", "setdefault", "update", "clear", "flush", "reload", "mutate", "mutate", "reassign", "reassign", "gc_reopen", "crash_reopen"]


def gen_case(rng):
    keys = rng.sample(KEYS, rng.choice([1, 2, 3, 4, 6]))
    n = rng.choice([1, 2, 3, 5, 8, 12, 20, 30])
    spec = SpecMap()
    ops = []
    for _ in range(n):
        o = rng.choice(OPS)
        k = rng.choice(keys)
        present = sorted(spec.vis)
        if o in ("del", "pop", "mutate", "reassign") and present and rng.random() < 0.8:
            k = rng.choice(present)
        op = {"op": o}
        if o == "set":
            op.update(k=k, v=gen_value(rng))
        elif o == "del":
            op.update(k=k)
        elif o == "pop":
            op.update(k=k)
            if rng.random() < 0.4:
                op["default"] = gen_value(rng, 2)
        elif o == "setdefault":
            op.update(k=k, v=gen_value(rng))
        elif o == "update":
            op["kvs"] = [[rng.choice(keys), gen_value(rng, 1)] for _ in range(rng.choice([0, 1, 2, 3]))]
        elif o == "reassign":
            mutated = [p_["k"] for p_ in ops if p_["op"] == "mutate" and p_["k"] in present]
            op.update(k=rng.choice(mutated) if mutated and rng.random() < 0.8 else k)
        elif o == "mutate":
            cands = [q for q in present if kind(spec.vis[q]) in ("dict", "list", "nd")]
            if not cands:
                op = {"op": "set", "k": k, "v": gen_container(rng, rng.choice(["dict", "list"])) if rng.random() < 0.7 else gen_array(rng)}
            else:
                k = rng.choice(cands)
                if kind(spec.vis[k]) == "nd":
                    # in-place change of a numpy array (same dtype and shape): arr[...] = arr + 1
                    old = decode(spec.vis[k])
                    op.update(k=k, v=canon((old + 1).astype(old.dtype)))
                else:
                    op.update(k=k, v=gen_container(rng, kind(spec.vis[k])))
        ops.append(op)
        if op["op"] == "popitem":
            # which key popitem takes is only known when the case runs (directory order after a reopen); the shadow
            # guesses the last inserted one -- a wrong guess can at worst make a later `mutate` unexecutable (case skipped)
            if spec.vis:
                last = list(spec.vis)[-1]
                spec.apply(op, {"item": [last, None]})
        else:
            spec.apply(op, None)
    ops.append({"op": rng.choice(["gc_reopen", "gc_reopen", "crash_reopen"])})
    return {"ops": ops}


def exhaustive_cases(maxlen, both_upto=None):
    both_upto = maxlen - 1 if both_upto is None else both_upto
    A = [
        {"op": "set", "k": "a", "v": "i:1"},
        {"op": "set", "k": "a", "v": {"t": ["i:1", {"t": ["i:2"]}]}},
        {"op": "set", "k": "b", "v": {"d": [["x", "i:1"]]}},
        {"op": "del", "k": "a"},
        {"op": "pop", "k": "b"},
        {"op": "popitem"},
        {"op": "setdefault", "k": "a", "v": "i:5"},
        {"op": "clear"},
        {"op": "flush"},
        {"op": "reload"},
        {"op": "mutate", "k": "b", "v": {"d": [["x", "i:2"], ["y", {"t": []}]]}},
        {"op": "reassign", "k": "b"},
        {"op": "gc_reopen"},
        {"op": "crash_reopen"},
    ]
    for n in range(0, maxlen + 1):
        for i, seq in enumerate(itertools.product(A, repeat=n)):
            # shorter histories get both endings; the longest ones alternate between them
            for end in ("gc_reopen", "crash_reopen") if n <= both_upto else (("gc_reopen", "crash_reopen")[i % 2],):
                yield {"ops": [dict(o) for o in seq] + [{"op": end}]}


def _cases(ctx):
    corpus = C.VERIF / "corpus" / "C43"
    if corpus.exists():
        for f in sorted(corpus.glob("*.json")):
            yield json.loads(f.read_text())["case"]
    thorough = ctx.tier == "thorough" or ctx.deep
    yield from exhaustive_cases(4 if thorough else 3)
    for _ in range(ctx.budget(1500, 20000)):
        yield gen_case(ctx.rng)


def _nontrivial(case, obs):
    kinds = {o["op"] for o in case["ops"][:-1]}
    return len(case["ops"]) >= 3 and bool(kinds & {"reload", "mutate", "popitem", "clear", "gc_reopen", "crash_reopen", "pop", "del"}) and bool(obs["final"] or any(s.get("content") for s in obs["steps"]))


def run(ctx, model=True):
    res = C.Result(
        rule="cases = corpus + every history up to a small length over 13 operations on keys a/b (ending in gc-reopen and in "
        "crash-reopen) + random histories (1-30 ops over up to 6 keys incl. awkward file names, nested/numpy/bytes values, "
        "reopen points) ending in a reopen; non-trivial = at least 3 ops, one of reload/mutate/popitem/clear/pop/del/reopen "
        "inside, and something is stored at some sync point"
    )
    cases, obss, reqs = [], [], []
    for case in _cases(ctx):
        try:
            obs, req, info = run_impl(case)
        except ValueError as e:  # generated mutate not executable (popitem took another key than the shadow assumed)
            res.count("skipped-unexecutable-mutate")
            res.notes.append(str(e)) if len(res.notes) < 3 else None
            continue
        cases.append(case)
        obss.append(obs)
        reqs.append(req)
        res.seen(case, _nontrivial(case, obs))
        for o in case["ops"]:
            res.count("op:" + o["op"])
        res.count("len:" + str(min(len(case["ops"]) // 5 * 5, 30)))
        for s in obs["steps"]:
            if s["ret"] == "KeyError":
                res.count("ret:KeyError")
        for n in info["notes"]:
            res.notes.append(n) if len(res.notes) < 5 else None
        res.count("roundtrip-law-checked-values", sum(1 for o in case["ops"] if "v" in o) + sum(len(o.get("kvs", [])) for o in case["ops"]))
        for sig, what in oracle(case, obs, info):
            res.violations.append(C.Violation(sig, what, case))
    _probe_nonstr_map_key(res)
    if model:
        replies = C.lean_batch(DRIVER, [json.dumps(r) for r in reqs])
        for case, obs, rep in zip(cases, obss, replies):
            m = json.loads(rep)
            if m != obs:
                res.disagreements.append({"case": case, "model": m, "impl": obs})
        for i in (0, len(cases) // 2, len(cases) - 1):
            res.samples.append({"case": cases[i], "impl": obss[i], "model": json.loads(replies[i])})
    else:
        res.samples.append({"case": cases[-1], "impl": obss[-1]})
    return res


def _probe_nonstr_map_key(res):
    """labelled probe, outside the round-trip law: a nested mapping with a non-str key can be stored but not loaded"""
    from bluesky.utils import PersistentDict

    tmp = tempfile.mkdtemp(prefix="verif_c43_")
    try:
        d = PersistentDict(tmp)
        d["k"] = {1: 2}
        d._finalizer.detach()
        del d
        try:
            PersistentDict(tmp)
            res.count("probe:nonstr-map-key-reopens")
        except ValueError:
            res.count("probe:nonstr-map-key-makes-reopen-raise-ValueError")
    finally:
        shutil.rmtree(tmp, ignore_errors=True)


def run_impl_only(ctx):
    return run(ctx, model=False)


def replay(ctx, data):
    res = C.Result()
    case = data.get("case")
    if not case:
        return res
    obs, _req, info = run_impl(case)
    for sig, what in oracle(case, obs, info):
        res.violations.append(C.Violation(sig, what, case))
    return res
