"""C44 -- PeakStats describes the data it was given.

Tie: (C) the hand-written exact-rational model of `PeakStats._calc_stats` (lean/BlueskyVerif/Pure/PeakStats.lean)
is run against the real PeakStats callback (driven through start / descriptor / event / stop documents) on the
same dyadic-rational data; (T, weak) the statement list of `_calc_stats` and of `center_of_mass` in the current
source is pinned against the transcription the model was written from (the extractor raises when the source
differs, which makes the check search for a failing input).
"""
from __future__ import annotations

import ast
import hashlib
import itertools
import json
import math
import warnings
from fractions import Fraction

import common as C
import pyexpr as P

MANIFEST = {
    "text": "PARTIAL (exact rational arithmetic instead of IEEE doubles; centre of mass needs not(sum(y)=0 and sum(i*y)=0), "
    "open finding F20).  Theorems (Props/C44.lean) for ALL lengths n>=1, ALL strictly monotonic x (increasing or decreasing), "
    "ALL rational y, with and without edge background subtraction (1 <= edge_count < n): C44_max_min (max/min are the x of the "
    "first largest/smallest background-subtracted y, and the original y there), C44_crossing_between_samples (every reported "
    "crossing comes from an adjacent pair of samples that straddles the half-maximum and lies between their x), C44_crossings_"
    "complete (every straddling pair yields one, in order; at least one exists iff y is not constant), C44_com_nan_iff (com is "
    "NaN exactly when n>=2 and both sums vanish), C44_fwhm (None with <2 crossings, "
    "else |last-first| = distance between the outermost crossings), C44_cen_in_range, C44_com_in_range_partial (under the "
    "hypothesis sum(y)!=0 or sum(i*y)!=0; C44_com_in_range_full stays visible and is FALSE: com is NaN for y==0 or y=[1,-2,1]), "
    "C44_bkg_well_defined (strictly monotonic x and 1<=edge_count<n make the background slope well defined).",
    "note": "Trusted: Lean kernel; the hand-written transcription of the numpy calls (argmax/argmin first occurrence, np.interp "
    "clamping and interpolation formula, np.where(np.diff(y>mid)), np.mean) tied by the correspondence run through the real "
    "callback interface.  Doubles are modelled as exact rationals: discrete outcomes (which sample is max/min, which pairs "
    "cross, None-ness) are compared exactly on inputs where every float operation up to `mid` is exact (checked per case with "
    "fractions), real-valued outcomes (com, crossings, cen, fwhm, m, b) with relative tolerance 1e-9.",
    "technique": "Lean 4 proof over an exact-rational transcription of the numpy computation + correspondence run through the "
    "PeakStats callback interface (+ pinned statement list of the source)",
}
LEAN_MODULES = ["BlueskyVerif.Props.C44"]
DRIVER_MODULES = ["BlueskyVerif.Pure.PeakStats"]
DRIVER = "Drivers/C44.lean"
ASSUMPTIONS = [
    "IEEE doubles are modelled as exact rationals (core Lean Rat); rounding is not modelled.  The theorems are statements about"
    " exact arithmetic; on the implementation the interval claims are evaluated on the float it returned with a slack of"
    " 1e-9 * max(1, max|x|) (stated tolerance), the discrete claims exactly",
    "x and y are finite; NaN/inf outcomes of numpy (0/0, division by zero) are modelled explicitly (com = none; degenerate"
    " background when edge_count = 0 or the edge means of x coincide, e.g. edge_count >= n)",
    "'max/min' with edge_count refer to the background-subtracted y (that is what the code ranks), reported together with the"
    " ORIGINAL y at that sample; ties go to the first sample (np.argmax/np.argmin)",
    "cen / crossings are only claimed when reported (they stay None exactly when y is constant: proved); fwhm is only claimed"
    " with at least two crossings (it stays None otherwise: proved)",
    "the statement does not say whether a sample exactly AT the half-maximum counts as above or below: the oracle accepts"
    " either (every reported crossing must lie between a weakly straddling unequal pair, every strictly straddling pair must"
    " hold one); the model and the theorems use the code's `y > mid`, so a change of that convention shows up as a"
    " model/implementation disagreement (no-failing-input-found), not as a property violation",
    "edge background subtraction is covered for 1 <= edge_count < n (for edge_count = 0 or >= n numpy produces NaN everywhere;"
    " the model says 'degenerate' and the correspondence run checks exactly that)",
    "the derivative statistics (calc_derivative_and_stats=True) reuse _calc_stats on (x[1:], diff(y)) and are not driven separately",
]
TRUSTED = ["hand transcription of np.argmax/np.argmin/np.interp/np.mean/np.where(np.diff(.)) semantics in Pure/PeakStats.lean"]

KNOWN_SIG_COM = "com-nan:sum-y-zero-and-sum-iy-zero"

# ----------------------------------------------------------------------------- pinned source (weak translator)

PINNED_CALC_STATS = ['y_orig = np.copy(y)',
 'if edge_count is not None:\n'
 '    left_x = np.mean(x[:edge_count])\n'
 '    left_y = np.mean(y[:edge_count])\n'
 '    right_x = np.mean(x[-edge_count:])\n'
 '    right_y = np.mean(y[-edge_count:])\n'
 '    m = (right_y - left_y) / (right_x - left_x)\n'
 '    b = left_y - m * left_x\n'
 '    y = y - (m * x + b)\n'
 "    fields['lin_bkg'] = {'m': m, 'b': b}",
 'argmin_y = np.argmin(y)',
 'argmax_y = np.argmax(y)',
 "fields['min'] = (x[argmin_y], y_orig[argmin_y])",
 "fields['max'] = (x[argmax_y], y_orig[argmax_y])",
 "fields['com'], = np.interp(center_of_mass(y), np.arange(len(x)), x)",
 'mid = (np.max(y) + np.min(y)) / 2',
 'crossings = np.where(np.diff((y > mid).astype(int)))[0]',
 '_cen_list = []',
 'for cr in crossings.ravel():\n'
 '    _x = x[cr:cr + 2]\n'
 '    _y = y[cr:cr + 2] - mid\n'
 '    dx = np.diff(_x)[0]\n'
 '    dy = np.diff(_y)[0]\n'
 '    m = dy / dx\n'
 '    _cen_list.append(-_y[0] / m + _x[0])',
 'if _cen_list:\n'
 "    fields['cen'] = np.mean(_cen_list)\n"
 "    fields['crossings'] = np.array(_cen_list)\n"
 '    if len(_cen_list) >= 2:\n'
 "        fields['fwhm'] = np.abs(fields['crossings'][-1] - fields['crossings'][0], dtype=float)",
 "Stats = namedtuple('Stats', field_names=fields.keys())",
 'stats = Stats(**fields)',
 'return stats']
PINNED_COM = ['normalizer = np.sum(input, labels, index)',
 'grids = np.ogrid[[slice(0, i) for i in input.shape]]',
 'results = [np.sum(input * grids[dir].astype(float), labels, index) / normalizer for dir in range(input.ndim)]',
 'if np.isscalar(results[0]):\n    return tuple(results)',
 'return [tuple(v) for v in np.array(results).T]']


def extract(ctx):
    src = (C.SRC / "callbacks" / "fitting.py").read_text()
    tree = ast.parse(src)
    fn, _ = P.find_method(tree, "PeakStats", "_calc_stats")
    got = [ast.unparse(s) for s in P.body_wo_doc(fn)]
    com = next((n for n in tree.body if isinstance(n, ast.FunctionDef) and n.name == "center_of_mass"), None)
    if com is None:
        raise P.Untranslatable("center_of_mass not found")
    got_com = [ast.unparse(s) for s in P.body_wo_doc(com)]
    facts = {
        "calc_stats_at": f"src/bluesky/callbacks/fitting.py:{fn.lineno}",
        "calc_stats_args": [a.arg for a in fn.args.args],
        "calc_stats_sha1": hashlib.sha1("\n".join(got).encode()).hexdigest(),
        "center_of_mass_sha1": hashlib.sha1("\n".join(got_com).encode()).hexdigest(),
    }
    for name, want, have in (("_calc_stats", PINNED_CALC_STATS, got), ("center_of_mass", PINNED_COM, got_com)):
        if want != have:
            diff = next((f"statement {i}: source has `{h[:160]}`, model transcribes `{w[:160]}`" for i, (w, h) in enumerate(itertools.zip_longest(want, have, fillvalue="<missing>")) if w != h), "?")
            raise P.Untranslatable(f"{name} differs from the transcription the Lean model (Pure/PeakStats.lean) was written from -- {diff}")
    if [a.arg for a in fn.args.args] != ["x", "y", "fields", "edge_count"]:
        raise P.Untranslatable("signature of _calc_stats changed")
    return facts


# ----------------------------------------------------------------------------- values


def fr(s) -> Fraction:
    return Fraction(s)


def fs(q: Fraction) -> str:
    return f"{q.numerator}/{q.denominator}"


def is_float(q: Fraction) -> bool:
    """q is exactly representable as a double"""
    try:
        return Fraction(float(q)) == q
    except OverflowError:
        return False


def fstr(x) -> str:
    x = float(x)
    if math.isnan(x):
        return "nan"
    if math.isinf(x):
        return "inf" if x > 0 else "-inf"
    return fs(Fraction(x))


# ----------------------------------------------------------------------------- implementation


def run_impl(case):
    """Drive the real PeakStats through its callback interface.  -> observation (exact values of the floats it reports)"""
    import numpy as np
    from bluesky.callbacks.fitting import PeakStats

    xs = [fr(s) for s in case["x"]]
    ys = [fr(s) for s in case["y"]]
    as_int = case.get("ints", False)
    conv = (lambda q: int(q)) if as_int else (lambda q: float(q))
    try:
        with warnings.catch_warnings():
            warnings.simplefilter("ignore")
            ps = PeakStats("mot", "det", edge_count=case.get("ec"))
            ps("start", {"uid": "run", "time": 0.0, "scan_id": 1})
            ps("descriptor", {"uid": "desc", "run_start": "run", "time": 0.0, "name": "primary", "data_keys": {"mot": {"dtype": "number", "shape": [], "source": "s"}, "det": {"dtype": "number", "shape": [], "source": "s"}}})
            for i, (x, y) in enumerate(zip(xs, ys)):
                data = {"mot": conv(x), "det": conv(y)}
                if case.get("extra_stream") and i % 3 == 1:
                    # an event of another stream without the fields: must be skipped (KeyError branch of compute)
                    # (none of the two fields, x only -- e.g. the motor in the baseline stream --, or y only)
                    other = [{"other": 1.0}, {"mot": -7.5, "other": 1.0}, {"det": 123.0}][(i // 3) % 3]
                    ps("event", {"uid": f"o{i}", "descriptor": "other", "seq_num": i + 1, "time": 0.0, "data": other, "timestamps": {k: 0.0 for k in other}})
                ps("event", {"uid": f"e{i}", "descriptor": "desc", "seq_num": i + 1, "time": float(i), "data": data, "timestamps": {"mot": 0.0, "det": 0.0}})
            ps("stop", {"uid": "stop", "run_start": "run", "time": 1.0, "exit_status": "success"})
    except Exception as e:  # noqa: BLE001
        return {"error": type(e).__name__}
    if ps.max is None:
        return {"empty": True}

    def pair(t):
        return [fstr(t[0]), fstr(t[1])]

    obs = {
        "min": pair(ps.min),
        "max": pair(ps.max),
        "com": fstr(ps.com),
        "crossings": None if ps.crossings is None else [fstr(c) for c in np.asarray(ps.crossings).ravel()],
        "cen": None if ps.cen is None else fstr(ps.cen),
        "fwhm": None if ps.fwhm is None else fstr(ps.fwhm),
        "bkg": None if ps.lin_bkg is None else {"m": fstr(ps.lin_bkg["m"]), "b": fstr(ps.lin_bkg["b"])},
    }
    return obs


# ----------------------------------------------------------------------------- exact reference computation (spec side, fractions)


def strictly_monotonic(xs):
    inc = all(a < b for a, b in zip(xs, xs[1:]))
    dec = all(a > b for a, b in zip(xs, xs[1:]))
    return inc or dec


def adjacent_distinct(xs):
    return all(a != b for a, b in zip(xs, xs[1:]))


def valid_case(case):
    xs = [fr(s) for s in case["x"]]
    n = len(xs)
    ec = case.get("ec")
    return n >= 1 and strictly_monotonic(xs) and (ec is None or 1 <= ec < n)


def subtracted(case):
    """exact background-subtracted y and whether every float operation up to it (and `mid`) is exact.
    -> (yprime or None when degenerate, exact: bool)"""
    xs = [fr(s) for s in case["x"]]
    ys = [fr(s) for s in case["y"]]
    n = len(xs)
    ec = case.get("ec")
    exact = True
    if ec is None:
        yp = ys
    else:
        if ec == 0:
            return None, True
        e = min(ec, n)
        sums = [sum(xs[:e]), sum(ys[:e]), sum(xs[n - e:]), sum(ys[n - e:])]
        means = [s / e for s in sums]
        exact &= all(is_float(s) for s in sums) and all(is_float(m) for m in means)
        lx, ly, rx, ry = means
        if rx - lx == 0:
            return None, True
        m = (ry - ly) / (rx - lx)
        b = ly - m * lx
        exact &= is_float(ry - ly) and is_float(rx - lx) and is_float(m) and is_float(m * lx) and is_float(b)
        yp = []
        for x, y in zip(xs, ys):
            exact &= is_float(m * x) and is_float(m * x + b) and is_float(y - (m * x + b))
            yp.append(y - (m * x + b))
    if yp:
        exact &= is_float(max(yp) + min(yp)) and is_float((max(yp) + min(yp)) / 2)
    return yp, exact


def robust(yp, eps):
    """no near-ties: every discrete decision of the computation has a margin > eps"""
    hi, lo = max(yp), min(yp)
    mid = (hi + lo) / 2
    if any(abs(v - mid) <= eps for v in yp):
        return False
    if sum(1 for v in yp if abs(v - hi) <= eps) != 1 or sum(1 for v in yp if abs(v - lo) <= eps) != 1:
        return False
    return True


def tol_x(case):
    xs = [fr(s) for s in case["x"]]
    return Fraction(1, 10**9) * max(1, max(abs(x) for x in xs))


# ----------------------------------------------------------------------------- oracle (the property, on the implementation's observation)


def _val(s):
    return None if s in ("nan", "inf", "-inf") else Fraction(s)


def oracle(case, obs):
    """-> list of (sig, what).  Only for valid cases (strictly monotonic x, 1 <= ec < n)."""
    bad = []
    if "error" in obs:
        return [(f"raises:{obs['error']}", f"PeakStats raised {obs['error']}")]
    xs = [fr(s) for s in case["x"]]
    ys = [fr(s) for s in case["y"]]
    n = len(xs)
    if not valid_case(case) or "empty" in obs:
        return bad
    yp, exact = subtracted(case)
    ectag = "no-bkg" if case.get("ec") is None else "bkg"
    if yp is None:
        return [(f"degenerate-background-on-valid-input:{ectag}", "strictly monotonic x and 1 <= edge_count < n but the edge means of x coincide")]
    tol = tol_x(case)
    eps_y = Fraction(1, 10**9) * max(1, max(abs(v) for v in ys))
    decisions_reliable = exact or robust(yp, eps_y)
    lo_x, hi_x = min(xs), max(xs)
    # max / min: the x of the largest / smallest (background-subtracted) y, with the original y of that sample
    for name, best in (("max", max(yp)), ("min", min(yp))):
        xv, yv = _val(obs[name][0]), _val(obs[name][1])
        if xv not in xs:
            bad.append((f"{name}-not-a-sample:{ectag}", f"{name} reports x={obs[name][0]} which is not one of the x samples"))
            continue
        k = xs.index(xv)
        if yv != ys[k]:
            bad.append((f"{name}-y-mismatch:{ectag}", f"{name} reports y={obs[name][1]} but the original y at x={xv} is {ys[k]}"))
        if decisions_reliable and yp[k] != best:
            ties = "ties" if sum(1 for v in yp if v == best) > 1 else "unique"
            bad.append((f"{name}-wrong-sample:{ectag}:{ties}", f"{name} reports x={xv} (y'={yp[k]}) but the {'largest' if name == 'max' else 'smallest'} y' is {best}"))
    # centre of mass within the x range
    s, w = sum(yp), sum(i * v for i, v in enumerate(yp))
    com = _val(obs["com"])
    if com is None:
        if s == 0 and w == 0:
            bad.append((KNOWN_SIG_COM, f"com is {obs['com']}: sum(y)=0 and sum(i*y)=0 (y'={[str(v) for v in yp][:8]})"))
        elif exact or abs(s) > eps_y:
            bad.append((f"com-not-finite:{ectag}:sum-y-{'zero' if s == 0 else 'nonzero'}", f"com is {obs['com']} although sum(y)={s}, sum(i*y)={w}"))
    elif not (lo_x <= com <= hi_x):
        bad.append((f"com-out-of-range:{ectag}", f"com={com} outside the x range [{lo_x}, {hi_x}]"))
    # crossings: each between adjacent samples straddling the half maximum.  The statement does not say whether a sample
    # exactly AT the half-maximum counts as above or below, so: every reported crossing must lie in the interval of a pair
    # that straddles weakly (level between the two unequal values); every pair that straddles strictly must hold one.
    mid = (max(yp) + min(yp)) / 2
    weak = [i for i in range(n - 1) if yp[i] != yp[i + 1] and min(yp[i], yp[i + 1]) <= mid <= max(yp[i], yp[i + 1])]
    strict = [i for i in range(n - 1) if (yp[i] - mid) * (yp[i + 1] - mid) < 0]
    cr = obs["crossings"]
    crv = [] if cr is None else [_val(c) for c in cr]
    if any(c is None for c in crv):
        bad.append((f"crossing-not-finite:{ectag}", f"crossings {cr} contain a non-finite value"))
        crv = [c for c in crv if c is not None]
    if decisions_reliable:
        inside = lambda c, i: min(xs[i], xs[i + 1]) - tol <= c <= max(xs[i], xs[i + 1]) + tol  # noqa: E731
        if not len(strict) <= len(crv) <= len(weak):
            bad.append((f"crossing-count:{ectag}:{'fewer' if len(crv) < len(strict) else 'more'}", f"{len(crv)} crossings reported but {len(strict)} adjacent pairs straddle the half-maximum {mid} strictly and {len(weak)} weakly"))
        for c in crv:
            if not any(inside(c, i) for i in weak):
                bad.append((f"crossing-not-between-straddling-samples:{ectag}", f"crossing {c} lies in no interval [x_i, x_i+1] whose samples straddle the half-maximum {mid} (pairs {weak[:6]})"))
                break
        for i in strict:
            if not any(inside(c, i) for c in crv):
                bad.append((f"straddling-pair-without-crossing:{ectag}", f"samples {i},{i + 1} straddle the half-maximum {mid} but no crossing is reported between x={xs[i]} and x={xs[i + 1]}"))
                break
        if len(set(yp)) > 1 and not crv:
            bad.append((f"no-crossing-for-nonconstant-y:{ectag}", "y is not constant but no crossing is reported"))
    # cen within the x range
    if obs["cen"] is not None:
        cen = _val(obs["cen"])
        if cen is None or not (lo_x - tol <= cen <= hi_x + tol):
            bad.append((f"cen-out-of-range:{ectag}", f"cen={obs['cen']} outside the x range [{lo_x}, {hi_x}]"))
    if (obs["cen"] is None) != (not crv):
        bad.append((f"cen-none-mismatch:{ectag}", f"cen={obs['cen']} with {len(crv)} crossings"))
    # fwhm = distance between the outermost crossings (computed from the implementation's own crossings: exact in floats)
    if len(crv) >= 2:
        want = max(crv) - min(crv)
        got = None if obs["fwhm"] is None else _val(obs["fwhm"])
        if got is None or not is_float(want) and abs(got - want) > tol or is_float(want) and got != want:
            bad.append((f"fwhm-not-outermost-distance:{ectag}", f"fwhm={obs['fwhm']} but the outermost crossings are {min(crv)} and {max(crv)} (distance {want})"))
    elif obs["fwhm"] is not None:
        bad.append((f"fwhm-with-fewer-than-two-crossings:{ectag}", f"fwhm={obs['fwhm']} with {len(crv)} crossings"))
    return bad


# ----------------------------------------------------------------------------- model vs implementation


def compare(case, obs, m):
    """-> None or a string describing the disagreement"""
    if "error" in obs or "error" in m:
        return None if obs == m else f"impl {obs} vs model {m}"
    if "empty" in m or "empty" in obs:
        return None if ("empty" in m) == ("empty" in obs) else "emptiness differs"
    xs = [fr(s) for s in case["x"]]
    if not adjacent_distinct(xs):
        return None  # division by zero in the crossing slope: outside the model (never compared)
    if "degenerate" in m:
        b = obs.get("bkg")
        ok = b is not None and (_val(b["m"]) is None or _val(b["b"]) is None) and (_val(obs["com"]) is None or len(xs) == 1)
        return None if ok else f"model says degenerate background (NaN) but the implementation reports bkg={b} com={obs['com']}"
    yp, exact = subtracted(case)
    ys = [fr(s) for s in case["y"]]
    eps_y = Fraction(1, 10**9) * max(1, max(abs(v) for v in ys))
    reliable = exact or robust(yp, eps_y)
    tol = tol_x(case)

    def close(a, b, t):
        return a is not None and abs(a - b) <= t

    if m["bkg"] is not None:
        for k in ("m", "b"):
            want = Fraction(m["bkg"][k])
            got = _val(obs["bkg"][k]) if obs["bkg"] else None
            if not close(got, want, Fraction(1, 10**9) * (1 + abs(want))):
                return f"lin_bkg[{k}]: impl {obs['bkg']} model {m['bkg']}"
            if exact and got != want:
                return f"lin_bkg[{k}] should be exact: impl {got} model {want}"
    elif obs["bkg"] is not None:
        return "impl reports lin_bkg, model none"
    if reliable:
        if obs["min"] != m["min"] or obs["max"] != m["max"]:
            return f"min/max: impl {obs['min']} {obs['max']} model {m['min']} {m['max']}"
        nc = 0 if obs["crossings"] is None else len(obs["crossings"])
        if nc != len(m["crossings"]):
            return f"number of crossings: impl {nc} model {len(m['crossings'])}"
        for a, b in zip(obs["crossings"] or [], m["crossings"]):
            if not close(_val(a), Fraction(b), tol):
                return f"crossing: impl {a} model {b}"
        for k in ("cen", "fwhm"):
            if (obs[k] is None) != (m[k] is None):
                return f"{k}: impl {obs[k]} model {m[k]}"
            if m[k] is not None and not close(_val(obs[k]), Fraction(m[k]), 4 * tol):
                return f"{k}: impl {obs[k]} model {m[k]}"
    s = sum(yp)
    if exact or abs(s) > 1000 * eps_y:
        got = _val(obs["com"])
        if m["com"] is None:
            if got is not None:
                return f"com: impl {obs['com']} model NaN"
        elif not close(got, Fraction(m["com"]), 100 * tol):
            return f"com: impl {obs['com']} model {m['com']}"
    return None


# ----------------------------------------------------------------------------- generators


def _q(v, bits=4):
    return Fraction(round(v * 2**bits), 2**bits)


def gen_x(rng, n):
    kind = rng.random()
    h = Fraction(2) ** rng.choice([-3, -2, -1, 0, 0, 1, 2])
    x0 = Fraction(rng.randint(-64, 64), 8)
    if kind < 0.6:
        xs = [x0 + i * h for i in range(n)]
    else:
        xs, cur = [], x0
        for _ in range(n):
            xs.append(cur)
            cur += h * rng.choice([1, 1, 2, 3, 5])
    if rng.random() < 0.35:
        xs = xs[::-1]
    return xs


def gen_y(rng, n):
    kind = rng.choice(["peak", "peak", "plateau", "step", "multi", "walk", "const", "linear", "zero-sum", "negpeak", "zeros", "small-ints"])
    if kind in ("peak", "negpeak"):
        c, w, a = rng.uniform(0, n - 1), rng.uniform(0.5, max(1.0, n / 3)), rng.choice([1, 4, 10, 100])
        off = rng.choice([0, 0, 1, -3])
        ys = [_q(a * math.exp(-(((i - c) / w) ** 2)) + off) for i in range(n)]
        if kind == "negpeak":
            ys = [-v for v in ys]
    elif kind == "plateau":
        a, b = sorted(rng.sample(range(n + 1), 2)) if n >= 1 else (0, 0)
        hi, lo = Fraction(rng.randint(1, 9)), Fraction(rng.randint(-3, 0))
        ys = [hi if a <= i < b else lo for i in range(n)]
    elif kind == "step":
        k = rng.randint(0, n)
        ys = [Fraction(0) if i < k else Fraction(rng.choice([1, 2, -1])) for i in range(n)]
    elif kind == "multi":
        ys = [_q(math.sin(i * rng.choice([0.7, 1.3, 2.1])) * rng.choice([1, 3]) + rng.choice([0, 2, -1]), 3) for i in range(n)]
    elif kind == "walk":
        ys, cur = [], Fraction(0)
        for _ in range(n):
            cur += Fraction(rng.randint(-8, 8), 4)
            ys.append(cur)
    elif kind == "const":
        ys = [Fraction(rng.choice([0, 1, -2, 5]))] * n
    elif kind == "linear":
        a, b = Fraction(rng.randint(-4, 4), 2), Fraction(rng.randint(-4, 4))
        ys = [a * i + b for i in range(n)]
    elif kind == "zero-sum":
        ys = [Fraction(rng.randint(-3, 3)) for _ in range(n)]
        if n >= 1:
            ys[-1] -= sum(ys)
        if n >= 3 and rng.random() < 0.5:  # also kill the first moment: sum(i*y) = 0
            w = sum(i * v for i, v in enumerate(ys))
            ys[1] -= w
            ys[0] += w
    elif kind == "zeros":
        ys = [Fraction(0)] * n
    else:
        ys = [Fraction(rng.randint(-2, 3)) for _ in range(n)]
    return ys, kind


def gen_ec(rng, n):
    r = rng.random()
    if r < 0.45:
        return None
    if r < 0.9 and n >= 2:
        exact_friendly = [e for e in (1, 2, 4, 8) if e < n and (n - e) & (n - e - 1) == 0]
        if exact_friendly and rng.random() < 0.7:
            return rng.choice(exact_friendly)
        return rng.randint(1, n - 1)
    return rng.choice([0, n, n + 1, 2 * n + 1])  # degenerate: numpy yields NaN


def gen_case(rng):
    n = rng.choice([1, 2, 2, 3, 3, 4, 5, 6, 7, 8, 9, 10, 12, 16, 17, 20, 25, 33, 40])
    xs = gen_x(rng, n)
    ys, kind = gen_y(rng, n)
    ec = gen_ec(rng, n)
    case = {"x": [fs(v) for v in xs], "y": [fs(v) for v in ys], "ec": ec, "kind": kind}
    if all(v.denominator == 1 for v in xs + ys) and rng.random() < 0.3:
        case["ints"] = True
    if rng.random() < 0.1:
        case["extra_stream"] = True
    return case


def gen_malformed(rng):
    """x not monotonic (the property does not apply; model and implementation must still agree while adjacent x differ),
    or with repeated neighbours (division by zero in the slope: implementation only)"""
    case = gen_case(rng)
    xs = [fr(s) for s in case["x"]]
    if len(xs) >= 3:
        i, j = rng.sample(range(len(xs)), 2)
        if rng.random() < 0.6:
            xs[i], xs[j] = xs[j], xs[i]
        else:
            xs[i] = xs[j]
    case["x"] = [fs(v) for v in xs]
    case["kind"] = "malformed-x:" + case["kind"]
    return case


def exhaustive_cases(thorough):
    vals = [-2, -1, 0, 1, 2]
    for n in (1, 2, 3, 4):
        ylists = itertools.product(vals if n <= 3 else ([-1, 0, 1, 2] if not thorough else vals), repeat=n)
        for ys in ylists:
            for rev in (False, True):
                xs = list(range(n))[::-1] if rev else list(range(n))
                if rev and n == 1:
                    continue
                ecs = [None] + ([1, n - 1] if n >= 2 else []) + ([n] if thorough or n <= 2 else [])
                for ec in dict.fromkeys(ecs):
                    yield {"x": [f"{v}/1" for v in xs], "y": [f"{v}/1" for v in ys], "ec": ec, "kind": "exhaustive"}
    yield {"x": [], "y": [], "ec": None, "kind": "empty"}
    yield {"x": [], "y": [], "ec": 2, "kind": "empty"}


def _cases(ctx):
    corpus = C.VERIF / "corpus" / "C44"
    if corpus.exists():
        for f in sorted(corpus.glob("*.json")):
            yield json.loads(f.read_text())["case"]
    yield from exhaustive_cases(ctx.tier == "thorough" or ctx.deep)
    n = ctx.budget(2500, 60000)
    for i in range(n):
        yield gen_malformed(ctx.rng) if i % 12 == 11 else gen_case(ctx.rng)


def _nontrivial(case, obs):
    if "error" in obs or "empty" in obs:
        return False
    return bool(obs.get("crossings")) or obs.get("bkg") is not None or _val(obs["com"]) is None


def run(ctx, model=True):
    res = C.Result(
        rule="cases = corpus + every y in {-2..2}^n for n<=4 on increasing/decreasing integer x with edge_count in {None,1,n-1,n} "
        "+ random dyadic data (peaks, negative peaks, plateaus/ties, steps, multi-crossing, walks, constant, linear, zero-sum "
        "with zero first moment, all-zero; 1..40 points; uniform and irregular, increasing and decreasing x; edge_count None / "
        "valid / degenerate) + a malformed stream (non-monotonic x, repeated x); real PeakStats fed start/descriptor/event/stop "
        "documents; non-trivial = at least one crossing, background subtraction, or NaN centre of mass"
    )
    cases, obss = [], []
    for case in _cases(ctx):
        obs = run_impl(case)
        cases.append(case)
        obss.append(obs)
        res.seen({k: case[k] for k in ("x", "y", "ec")}, _nontrivial(case, obs))
        res.count("kind:" + str(case.get("kind", "corpus")).split(":")[0])
        res.count("n:" + ("1" if len(case["x"]) == 1 else "2-4" if len(case["x"]) <= 4 else "5-16" if len(case["x"]) <= 16 else "17-40" if case["x"] else "0"))
        res.count("ec:" + ("none" if case.get("ec") is None else "valid" if 1 <= case["ec"] < len(case["x"]) else "degenerate"))
        if valid_case(case) and "empty" not in obs:
            yp, exact = subtracted(case)
            res.count("arith:" + ("exact" if exact else "inexact-robust" if yp is not None and robust(yp, Fraction(1, 10**9) * max(1, max(abs(fr(s)) for s in case["y"]))) else "inexact-ambiguous"))
            res.count("crossings:" + str(min(len(obs.get("crossings") or []), 5)))
            res.count("direction:" + ("single" if len(case["x"]) == 1 else "increasing" if fr(case["x"][0]) < fr(case["x"][-1]) else "decreasing"))
        else:
            res.count("invalid-or-empty")
        for sig, what in oracle(case, obs):
            res.violations.append(C.Violation(sig, what, case))
    if model:
        replies = C.lean_batch(DRIVER, [json.dumps({"x": c["x"], "y": c["y"], "ec": c.get("ec")}) for c in cases])
        for case, obs, rep in zip(cases, obss, replies):
            m = json.loads(rep)
            d = compare(case, obs, m)
            if d:
                res.disagreements.append({"case": case, "model": m, "impl": obs, "what": d})
        for i in (len(cases) // 3, len(cases) // 2, len(cases) - 1):
            res.samples.append({"case": cases[i], "impl": obss[i], "model": json.loads(replies[i])})
    else:
        res.samples.append({"case": cases[-1], "impl": obss[-1]})
    return res


def run_impl_only(ctx):
    return run(ctx, model=False)


def replay(ctx, data):
    res = C.Result()
    case = data.get("case")
    if not case:
        return res
    obs = run_impl(case)
    for sig, what in oracle(case, obs):
        res.violations.append(C.Violation(sig, what, case))
    return res
