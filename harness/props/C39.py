"""C39 -- a LiveDispatcher's re-emitted stream is a valid run.

Tie: (T) the facts the theorems hinge on (which counter expression is written into "seq_num", how
the per-stream counter is incremented, which expression builds num_events, whether a new descriptor
is named after stream_name, what stop() clears) are re-extracted from the current
callbacks/stream.py into lean/BlueskyVerif/IO/LiveDispatcherGenerated.lean; the model and the proofs
unfold those constants.  (C) the hand-written transcription of start/descriptor/process_event/stop
(IO/LiveDispatcher.lean) is run against real LiveDispatcher objects (pass-through, NegativeStream and
AverageStream from the test-suite, and a scripted transforming subclass that calls process_event
with arbitrary stream_name / id_args / data keys, several times per raw event) on generated raw runs;
the process_event calls actually made are recorded by wrapping the bound method and replayed in Lean.
"""
from __future__ import annotations

import ast
import itertools
import json

import common as C
import pyexpr as P

MANIFEST = {
    "text": "FULL. Theorems (Props/C39.lean) for an arbitrary clean dispatcher state and an ARBITRARY list of raw "
    "descriptors and process_event calls (any stream names, interleaving, data keys, id_args, number; induction over "
    "the list): per stream (read by descriptor name, and also by stream_name) the re-emitted seq_nums are exactly 1..N in "
    "order; the last document is the stop and its num_events has exactly one entry per stream with a descriptor, equal "
    "to the number of events emitted in it; every event refers to a descriptor emitted earlier in the same re-emitted "
    "run (run_start = this run's start uid, named after the stream); uids are distinct; stop resets every cache from "
    "any state, so in ANY sequence of runs through one dispatcher every run is valid and starts again at 1.",
    "note": "Trusted: Lean kernel; the extractor below (recognises the exact statement shapes, raises otherwise); the "
    "hand transcription of process_event/stop, tied by the correspondence run; emit()'s schema validation is assumed to "
    "pass (valid raw run, well-formed documents from subclasses) -- an event rejected by the validator after the counter "
    "was incremented is outside the model; payloads (data, timestamps, metadata) are not modelled.",
    "technique": "Lean 4 proof over a source-parametrised model (translator for the decisive expressions) + correspondence "
    "run against real LiveDispatcher subclasses incl. event_model schema validation of every re-emitted document",
}
LEAN_MODULES = ["BlueskyVerif.Props.C39"]
DRIVER_MODULES = ["BlueskyVerif.IO.LiveDispatcher"]
DRIVER = "Drivers/C39.lean"
ASSUMPTIONS = [
    "emit() does not raise: the raw run is schema-valid and subclasses hand well-formed event documents to process_event",
    "uids from new_uid() are fresh (modelled as consecutive natural numbers)",
    "id_args and data keys are tuples of strings; frozenset equality of desc_id is modelled as: same stream and the two "
    "tuples equal in either order",
    "one raw run at a time (start ... stop); nested/unterminated raw runs are not modelled",
]
TRUSTED = ["harness/props/C39.py::extract (statement-shape recognition in callbacks/stream.py)"]

GEN = C.LEAN / "BlueskyVerif" / "IO" / "LiveDispatcherGenerated.lean"


# ----------------------------------------------------------------------------- translator
def _const_int(n):
    if isinstance(n, ast.Constant) and isinstance(n.value, int) and not isinstance(n.value, bool) and n.value >= 0:
        return n.value
    raise P.Untranslatable(f"expected a non-negative int literal, got {ast.unparse(n)}")


def _method(cls, name):
    for n in cls.body:
        if isinstance(n, ast.FunctionDef) and n.name == name:
            return n
    raise P.Untranslatable(f"LiveDispatcher.{name} not found")


def extract(ctx):
    path = C.SRC / "callbacks" / "stream.py"
    tree = ast.parse(path.read_text())
    cls = P.find_class(tree, "LiveDispatcher")
    pe, stop, start = _method(cls, "process_event"), _method(cls, "stop"), _method(cls, "start")
    facts = {"file": "src/bluesky/callbacks/stream.py"}
    body = P.body_wo_doc(pe)

    # --- id_args defaulting, desc_id, new-descriptor condition: exact shapes (model transcribes them)
    want = {
        "id_args": "id_args or (doc['descriptor'],)",
        "desc_id": "frozenset((tuple(doc['data'].keys()), stream_name, id_args))",
    }
    for st in body:
        if isinstance(st, ast.Assign) and len(st.targets) == 1 and isinstance(st.targets[0], ast.Name) and st.targets[0].id in want:
            got = ast.unparse(st.value)
            if got != want[st.targets[0].id]:
                raise P.Untranslatable(f"{st.targets[0].id} = {got} (line {st.lineno}) is not the modelled expression")
            facts[st.targets[0].id] = f"{got} (line {st.lineno})"
            want.pop(st.targets[0].id)
    if want:
        raise P.Untranslatable(f"assignments not found in process_event: {sorted(want)}")
    ifs = [st for st in body if isinstance(st, ast.If)]
    if len(ifs) != 1 or ifs[0].orelse:
        raise P.Untranslatable("process_event: expected exactly one top-level `if` (new descriptor) without else")
    cond = ast.unparse(ifs[0].test)
    if cond != "stream_name not in self._descriptors or desc_id not in self._descriptors[stream_name]":
        raise P.Untranslatable(f"new-descriptor condition is `{cond}`")
    facts["new_descriptor_if"] = f"{cond} (line {ifs[0].lineno})"
    # inside the if: desc = ChainMap({...}, raw_desc); stored under [stream_name][desc_id]; emitted
    desc_assign = None
    for st in ast.walk(ifs[0]):
        if isinstance(st, ast.Assign) and isinstance(st.targets[0], ast.Name) and st.targets[0].id == "desc" and isinstance(st.value, ast.Call) and P.dotted(st.value.func) == "ChainMap":
            desc_assign = st
    if desc_assign is None or len(desc_assign.value.args) != 2 or not isinstance(desc_assign.value.args[0], ast.Dict) or P.dotted(desc_assign.value.args[1]) != "raw_desc":
        raise P.Untranslatable("desc = ChainMap({...}, raw_desc) not found in the new-descriptor block")
    d = desc_assign.value.args[0]
    keys = {k.value: v for k, v in zip(d.keys, d.values) if isinstance(k, ast.Constant)}
    for need, val in (("uid", "new_uid()"), ("run_start", "self._stream_start_uid"), ("data_keys", "data_keys")):
        if need not in keys or ast.unparse(keys[need]) != val:
            raise P.Untranslatable(f"descriptor field {need!r} is not {val}")
    if "name" in keys:
        if ast.unparse(keys["name"]) != "stream_name":
            raise P.Untranslatable(f"descriptor 'name' is {ast.unparse(keys['name'])}")
        name_from_stream = True
    else:
        name_from_stream = False
    facts["descriptor_name"] = ("stream_name" if name_from_stream else "inherited from raw_desc") + f" (line {d.lineno})"
    src_if = ast.unparse(ifs[0])
    for need in ("self._descriptors[stream_name][desc_id] = desc", "self.emit(DocumentNames.descriptor, desc)", "self._descriptors[stream_name] = dict()"):
        if need not in src_if:
            raise P.Untranslatable(f"new-descriptor block lacks `{need}`")

    # --- counters (top-level statements of process_event, after the if, before the event dict)
    seq_dict = None
    for n in ast.walk(pe):
        if isinstance(n, ast.Dict) and any(isinstance(k, ast.Constant) and k.value == "seq_num" for k in n.keys):
            seq_dict = n
    if seq_dict is None:
        raise P.Untranslatable('no dict with a "seq_num" key in process_event')
    seq_expr = ast.unparse(next(v for k, v in zip(seq_dict.keys, seq_dict.values) if isinstance(k, ast.Constant) and k.value == "seq_num"))
    if seq_expr == "self._seq_counts[stream_name]":
        seq_src = "perStream"
    elif seq_expr == "self.seq_count":
        seq_src = "global"
    else:
        raise P.Untranslatable(f'"seq_num": {seq_expr} not recognised')
    facts["seq_num"] = f"{seq_expr} (line {seq_dict.lineno})"
    has_inc, inc_d, inc_s, glob = False, 0, 0, 0
    for st in body:
        if st.lineno <= ifs[0].lineno or st.lineno >= seq_dict.lineno:
            continue
        if isinstance(st, ast.Assign) and ast.unparse(st.targets[0]) == "self._seq_counts[stream_name]":
            v = st.value
            ok = isinstance(v, ast.BinOp) and isinstance(v.op, ast.Add) and isinstance(v.left, ast.Call) and ast.unparse(v.left.func) == "self._seq_counts.get" and len(v.left.args) == 2 and ast.unparse(v.left.args[0]) == "stream_name"
            if not ok or has_inc:
                raise P.Untranslatable(f"per-stream increment `{ast.unparse(st)}` not recognised")
            has_inc, inc_d, inc_s = True, _const_int(v.left.args[1]), _const_int(v.right)
            facts["per_stream_increment"] = f"{ast.unparse(st)} (line {st.lineno})"
        if isinstance(st, ast.AugAssign) and ast.unparse(st.target) == "self.seq_count":
            if not isinstance(st.op, ast.Add):
                raise P.Untranslatable("self.seq_count is not incremented with +=")
            glob += _const_int(st.value)
            facts["global_increment"] = f"{ast.unparse(st)} (line {st.lineno})"
    for n in ast.walk(pe):  # any other write to the counters would not be modelled
        if isinstance(n, (ast.Assign, ast.AugAssign)):
            tgt = ast.unparse(n.targets[0] if isinstance(n, ast.Assign) else n.target)
            if tgt.startswith("self._seq_counts") or tgt == "self.seq_count":
                if n not in body or n.lineno <= ifs[0].lineno or n.lineno >= seq_dict.lineno:
                    raise P.Untranslatable(f"counter written at an unmodelled place: line {n.lineno}")
    if "self.emit(DocumentNames.event, dict(evt))" not in ast.unparse(body[-1]):
        raise P.Untranslatable("process_event does not end with emitting the event")

    # --- stop(): num_events and the resets
    sbody = P.body_wo_doc(stop)
    ne = next((st for st in sbody if isinstance(st, ast.Assign) and isinstance(st.targets[0], ast.Name) and st.targets[0].id == "num_events"), None)
    if ne is None:
        raise P.Untranslatable("stop(): num_events assignment not found")
    v = ne.value
    if isinstance(v, ast.Call) and P.dotted(v.func) == "dict" and len(v.args) == 1 and isinstance(v.args[0], ast.GeneratorExp) and isinstance(v.args[0].elt, ast.Tuple) and len(v.args[0].elt.elts) == 2:
        kexp, vexp, gens = v.args[0].elt.elts[0], v.args[0].elt.elts[1], v.args[0].generators
    elif isinstance(v, ast.DictComp):
        kexp, vexp, gens = v.key, v.value, v.generators
    else:
        raise P.Untranslatable(f"num_events = {ast.unparse(v)} not recognised")
    if len(gens) != 1 or gens[0].ifs or not isinstance(gens[0].target, ast.Name) or not isinstance(kexp, ast.Name) or kexp.id != gens[0].target.id:
        raise P.Untranslatable("num_events comprehension shape not recognised")
    var = gens[0].target.id
    if ast.unparse(gens[0].iter) not in ("self._descriptors.keys()", "self._descriptors"):
        raise P.Untranslatable(f"num_events iterates over {ast.unparse(gens[0].iter)}")
    ve = ast.unparse(vexp)
    ne_default = 0
    if isinstance(vexp, ast.Call) and ast.unparse(vexp.func) == "self._seq_counts.get" and len(vexp.args) == 2 and ast.unparse(vexp.args[0]) == var:
        ne_src, ne_default = "perStreamCount", _const_int(vexp.args[1])
    elif ve == f"len(self._descriptors[{var}])":
        ne_src = "numDescriptors"
    else:
        raise P.Untranslatable(f"num_events value `{ve}` not recognised")
    facts["num_events"] = f"{ast.unparse(ne.value)} (line {ne.lineno})"
    stop_src = ast.unparse(stop)
    if "num_events=num_events" not in stop_src and "'num_events': num_events" not in stop_src:
        raise P.Untranslatable("stop(): the stop document does not take num_events")
    emit_line = next((st.lineno for st in sbody if "self.emit(DocumentNames.stop" in ast.unparse(st)), None)
    if emit_line is None or emit_line < ne.lineno:
        raise P.Untranslatable("stop(): emit of the stop document not found after num_events")

    def cleared(attr, zero):
        for st in sbody:
            if st.lineno <= emit_line:
                continue
            s = ast.unparse(st)
            if s == f"self.{attr}.clear()" or s in (f"self.{attr} = dict()", f"self.{attr} = {{}}") or (zero is not None and s == f"self.{attr} = {zero}"):
                return True
        return False

    resets = {
        "stopResetsSeqCount": cleared("seq_count", "0"),
        "stopClearsSeqCounts": cleared("_seq_counts", None),
        "stopClearsRawDescriptors": cleared("raw_descriptors", None),
        "stopClearsDescriptors": cleared("_descriptors", None),
        "stopResetsStartUid": cleared("_stream_start_uid", "None"),
    }
    facts["stop_resets"] = resets
    if "self._stream_start_uid = new_uid()" not in ast.unparse(start):
        raise P.Untranslatable("start(): self._stream_start_uid = new_uid() not found")

    b = lambda x: "true" if x else "false"  # noqa: E731
    out = f"""-- GENERATED by harness/props/C39.py from src/bluesky/callbacks/stream.py -- do not edit.
namespace BlueskyVerif.LiveDispatcher.Gen

/-- which counter expression `process_event` writes into the event's "seq_num" -/
inductive SeqSource where
  | perStream   -- self._seq_counts[stream_name]
  | global      -- self.seq_count
deriving Repr, DecidableEq

/-- which expression `stop` puts into num_events for each stream of self._descriptors -/
inductive NumEventsSource where
  | perStreamCount   -- self._seq_counts.get(stream, D)
  | numDescriptors   -- len(self._descriptors[stream])
deriving Repr, DecidableEq

/-- "seq_num": {seq_expr} -/
def seqNumSource : SeqSource := .{seq_src}
/-- self._seq_counts[stream_name] = self._seq_counts.get(stream_name, D) + S -/
def hasPerStreamIncrement : Bool := {b(has_inc)}
def incDefault : Nat := {inc_d}
def incStep : Nat := {inc_s}
/-- self.seq_count += N -/
def globalStep : Nat := {glob}
/-- num_events value expression: {ve} -/
def numEventsSource : NumEventsSource := .{ne_src}
def numEventsDefault : Nat := {ne_default}
/-- the new descriptor's first ChainMap layer has "name": stream_name -/
def descNameFromStream : Bool := {b(name_from_stream)}
/-- what stop() clears after emitting the stop document -/
def stopResetsSeqCount : Bool := {b(resets['stopResetsSeqCount'])}
def stopClearsSeqCounts : Bool := {b(resets['stopClearsSeqCounts'])}
def stopClearsRawDescriptors : Bool := {b(resets['stopClearsRawDescriptors'])}
def stopClearsDescriptors : Bool := {b(resets['stopClearsDescriptors'])}
def stopResetsStartUid : Bool := {b(resets['stopResetsStartUid'])}

end BlueskyVerif.LiveDispatcher.Gen
"""
    C.write_if_changed(GEN, out)
    return facts


# ----------------------------------------------------------------------------- running the real code
KINDS = ["passthrough", "negative", "scripted", "average"]


def _make_dispatcher(case):
    from bluesky.callbacks.stream import LiveDispatcher

    kind = case["dispatcher"]
    if kind == "passthrough":
        return LiveDispatcher()
    if kind == "negative":
        from bluesky.tests.test_streams import NegativeStream

        return NegativeStream()
    if kind == "average":
        from bluesky.tests.test_streams import AverageStream

        return AverageStream(case.get("n", 2))
    if kind == "scripted":

        class Scripted(LiveDispatcher):
            """transforming dispatcher: for the i-th raw event makes the process_event calls script[i]"""

            def __init__(self, scripts):
                super().__init__()
                self.scripts = scripts
                self.i = 0

            def event(self, doc):
                calls = self.scripts[self.i] if self.i < len(self.scripts) else []
                self.i += 1
                for cl in calls:
                    vals = {"num": 1.5, "str": "s", "arr": [1, 2, 3]}
                    new = {"data": {k: vals[cl.get("vtype", "num")] for k in cl["keys"]}, "descriptor": doc["descriptor"]}
                    kw = {}
                    if cl.get("stream") is not None:
                        kw["stream_name"] = cl["stream"]
                    if cl.get("id_args") is not None:
                        kw["id_args"] = tuple(cl["id_args"])
                    if cl.get("config"):
                        kw["config"] = {"stream": {"data": {}, "timestamps": {}, "data_keys": {}}}
                    self.process_event(new, **kw)

        flat = [ev.get("calls", []) for run in case["runs"] for ev in run["seq"] if ev["t"] == "event"]
        return Scripted(flat)
    raise ValueError(kind)


class _Rec:
    def __init__(self):
        self.cur = None
        self.inputs = []  # what the dispatcher was fed, for the Lean model
        self.docs = []  # re-emitted (name, doc, ghost stream)


def run_impl(case):
    """-> (observation, lean_request, info).  observation = per raw run the list of re-emitted document skeletons."""
    import logging
    import warnings

    from event_model import DocumentNames, compose_run, schema_validators

    logging.disable(logging.CRITICAL)  # streamz logs the exceptions AverageStream raises on mixed bundles
    try:
        with warnings.catch_warnings():
            warnings.simplefilter("ignore")
            return _run_impl(case, compose_run, schema_validators, DocumentNames)
    finally:
        logging.disable(logging.NOTSET)


def _run_impl(case, compose_run, schema_validators, DocumentNames):
    ld = _make_dispatcher(case)
    rec = _Rec()
    ld.subscribe(lambda name, doc: rec.docs.append((name, doc, rec.cur)))
    orig = ld.process_event
    rawid = {}  # real raw descriptor uid -> case id

    def wrapped(doc, stream_name="primary", id_args=None, config=None):
        rec.inputs.append({"t": "call", "stream": stream_name, "keys": list(doc["data"].keys()), "raw": rawid.get(doc["descriptor"], "?" + str(doc["descriptor"])), "id_args": [str(x) for x in (id_args or ())]})
        rec.cur = stream_name
        try:
            return orig(doc, stream_name=stream_name, id_args=id_args, config=config)
        finally:
            rec.cur = None

    ld.process_event = wrapped
    raised = []
    runs_inputs, runs_docs = [], []
    vals = {"number": 2.5, "string": "txt", "array": [1.0, 2.0]}
    for run in case["runs"]:
        rec.inputs, rec.docs = [], []
        b = compose_run(metadata=({"average": run["average"]} if "average" in run else {}))
        descs = {}
        for d in run["descriptors"]:
            dk = {k: {"dtype": d.get("dtype", "number"), "shape": [] if d.get("dtype", "number") != "array" else [2], "source": "raw"} for k in d["keys"]}
            descs[d["id"]] = (d, b.compose_descriptor(name=d["name"], data_keys=dk))
            rawid[descs[d["id"]][1].descriptor_doc["uid"]] = d["id"]

        def feed(name, doc):
            try:
                ld(name, doc)
            except Exception as e:  # noqa: BLE001
                raised.append(type(e).__name__)

        feed("start", dict(b.start_doc))
        for item in run["seq"]:
            d, bundle = descs[item["desc"]]
            if item["t"] == "desc":
                doc = dict(bundle.descriptor_doc)
                if d.get("nameless"):
                    doc.pop("name")
                rec.inputs.append({"t": "desc", "uid": d["id"], "name": None if d.get("nameless") else d["name"]})
                feed("descriptor", doc)
            else:
                v = vals[d.get("dtype", "number")]
                feed("event", dict(bundle.compose_event(data={k: v for k in d["keys"]}, timestamps={k: 0.0 for k in d["keys"]})))
        if not run.get("no_stop"):
            feed("stop", dict(b.compose_stop()))
        runs_inputs.append(rec.inputs)
        runs_docs.append(rec.docs)
    # canonical observation
    uid = {}
    obs, schema_bad = [], []
    for docs in runs_docs:
        o = []
        for name, doc, ghost in docs:
            try:
                schema_validators[DocumentNames[name]].validate(doc)
            except Exception as e:  # noqa: BLE001
                schema_bad.append(f"{name}:{type(e).__name__}")
            u = uid.setdefault(doc["uid"], len(uid))
            if name == "start":
                o.append({"t": "start", "uid": u})
            elif name == "descriptor":
                o.append({"t": "descriptor", "uid": u, "run_start": uid.get(doc.get("run_start")), "name": doc.get("name"), "stream": ghost, "keys": list(doc["data_keys"].keys())})
            elif name == "event":
                o.append({"t": "event", "uid": u, "descriptor": uid.get(doc["descriptor"], -1), "seq_num": doc["seq_num"], "stream": ghost})
            elif name == "stop":
                o.append({"t": "stop", "uid": u, "run_start": uid.get(doc.get("run_start")), "num_events": [[k, v] for k, v in doc["num_events"].items()]})
            else:
                o.append({"t": name, "uid": u})
        obs.append(o)
    return {"runs": obs}, {"runs": runs_inputs}, {"raised": raised, "schema_bad": schema_bad}


# ----------------------------------------------------------------------------- the property on what was re-emitted
def _wellformed(case):
    """raw run is a valid run: every event's descriptor was delivered before it"""
    for run in case["runs"]:
        seen = set()
        for it in run["seq"]:
            if it["t"] == "desc":
                seen.add(it["desc"])
            elif it["desc"] not in seen:
                return False
        if run.get("no_stop"):
            return False
    return True


def oracle(case, obs, info):
    """Reads the re-emitted documents as a subscriber does: a stream is a descriptor name.  -> [(sig, what)]"""
    bad = []

    def cls_of(ri, docs):
        dd = [d for d in docs if d["t"] == "descriptor"]
        if any(d["name"] != d["stream"] for d in dd):
            return "desc-name-ne-stream-name"
        if ri > 0:
            return "later-run"
        if len({d["stream"] for d in dd}) > 1:
            return "several-streams"
        if len(dd) > 1:
            return "several-descriptors"
        return "single-descriptor"

    for ri, docs in enumerate(obs["runs"]):
        cl = cls_of(ri, docs)
        if not docs:
            continue
        if docs[0]["t"] != "start" or sum(1 for d in docs if d["t"] == "start") != 1:
            bad.append((f"shape:{cl}", f"run {ri}: re-emitted documents do not begin with exactly one start"))
            continue
        start_uid = docs[0]["uid"]
        descs, seqs = {}, {}
        for i, d in enumerate(docs):
            if d["t"] == "descriptor":
                descs[d["uid"]] = d
                seqs.setdefault(d["name"], [])
                if d["run_start"] != start_uid:
                    bad.append((f"descriptor-run_start:{cl}", f"run {ri}: descriptor {d['uid']} has run_start {d['run_start']}, start uid is {start_uid}"))
            elif d["t"] == "event":
                dd = descs.get(d["descriptor"])
                if dd is None:
                    bad.append((f"descriptor-before-event:{cl}", f"run {ri}: event seq_num {d['seq_num']} refers to descriptor {d['descriptor']} not emitted before it in this run"))
                    continue
                seqs[dd["name"]].append(d["seq_num"])
        for name, s in seqs.items():
            if s != list(range(1, len(s) + 1)):
                bad.append((f"numbering:{cl}", f"run {ri}: events of stream {name!r} are numbered {s}, expected 1..{len(s)}"))
        stops = [d for d in docs if d["t"] == "stop"]
        if stops:
            if docs[-1]["t"] != "stop" or len(stops) != 1:
                bad.append((f"shape:{cl}", f"run {ri}: stop is not the single last document"))
            st = stops[-1]
            if st["run_start"] != start_uid:
                bad.append((f"stop-run_start:{cl}", f"run {ri}: stop.run_start {st['run_start']} != start uid {start_uid}"))
            ne = st["num_events"]
            want = {n: len(s) for n, s in seqs.items()}
            if len({k for k, _ in ne}) != len(ne) or dict(map(tuple, ne)) != want:
                bad.append((f"num_events:{cl}", f"run {ri}: num_events {dict(map(tuple, ne))} but the streams emitted {want} events"))
    for s in sorted(set(info["schema_bad"])):
        bad.append((f"schema:{s}", f"re-emitted document fails event_model validation: {s}"))
    if _wellformed(case) and case["dispatcher"] != "average" and info["raised"]:
        bad.append((f"dispatcher-raised:{info['raised'][0]}:{case['dispatcher']}", f"a valid raw run made the dispatcher raise {info['raised'][:3]}"))
    if _wellformed(case) and case["dispatcher"] in ("passthrough", "negative"):
        n_raw = sum(1 for r in case["runs"] for it in r["seq"] if it["t"] == "event")
        n_out = sum(1 for r in obs["runs"] for d in r if d["t"] == "event")
        if n_raw != n_out:
            bad.append((f"event-count:{case['dispatcher']}", f"{n_raw} raw events but {n_out} re-emitted events"))
    return bad


# ----------------------------------------------------------------------------- cases
STREAMS = ["primary", "baseline", "avg", "s2"]
KEYSETS = [["x"], ["y"], ["x", "y"], ["z"], []]
IDARGS = [None, None, None, ["A"], ["B"], ["x"], ["y"], []]


def gen_run(rng, kind, malformed=False):
    nd = rng.choice([1, 1, 2, 2, 3, 4])
    names = [rng.choice(["primary", "primary", "baseline", "monitor", "primary"]) for _ in range(nd)]
    descs = []
    # event_model: all descriptors of one raw stream (name) have the same data keys
    keys_of = {n: rng.choice([["x"], ["x", "y"], ["y"], ["m", "x"], ["z"]]) for n in set(names)}
    dtype_of = {n: (rng.choice(["string", "array"]) if kind in ("passthrough", "scripted") and rng.random() < 0.2 else "number") for n in set(names)}
    nameless = kind in ("passthrough", "scripted") and rng.random() < 0.05 and len(set(names)) == nd
    for i in range(nd):
        d = {"id": f"d{i + 1}", "name": names[i], "keys": keys_of[names[i]]}
        if dtype_of[names[i]] != "number":
            d["dtype"] = dtype_of[names[i]]
        if nameless and i == 0:
            d["nameless"] = True  # the raw descriptor document is delivered without its optional `name`
        descs.append(d)
    ne = rng.choice([0, 1, 2, 3, 5, 8, 12])
    delivered, seq = set(), []
    # a descriptor may never be used (stream with a descriptor but zero events in the raw run)
    for _ in range(ne):
        d = rng.choice(descs)
        if d["id"] not in delivered and not (malformed and rng.random() < 0.5):
            seq.append({"t": "desc", "desc": d["id"]})
            delivered.add(d["id"])
        ev = {"t": "event", "desc": d["id"]}
        if kind == "scripted":
            ev["calls"] = [gen_call(rng) for _ in range(rng.choice([0, 1, 1, 1, 2, 3]))]
        seq.append(ev)
    for d in descs:
        if d["id"] not in delivered and rng.random() < 0.5:
            seq.insert(rng.randrange(len(seq) + 1), {"t": "desc", "desc": d["id"]})
            delivered.add(d["id"])
    # keep raw validity: a late descriptor inserted after its events would be malformed -> move to front unless wanted
    if not malformed:
        seq = _sort_valid(seq)
    run = {"descriptors": descs, "seq": seq}
    if kind == "average":
        run["average"] = rng.choice([1, 2, 3])
    return run


def _sort_valid(seq):
    out, seen = [], set()
    for it in seq:
        if it["t"] == "event" and it["desc"] not in seen:
            out.append({"t": "desc", "desc": it["desc"]})
            seen.add(it["desc"])
        if it["t"] == "desc":
            if it["desc"] in seen:
                continue
            seen.add(it["desc"])
        out.append(it)
    return out


def gen_call(rng):
    c = {"stream": rng.choice(STREAMS + [None]), "keys": rng.choice(KEYSETS), "id_args": rng.choice(IDARGS)}
    if rng.random() < 0.15:
        c["vtype"] = rng.choice(["str", "arr"])
    if rng.random() < 0.1:
        c["config"] = True
    return c


def gen_case(rng):
    kind = rng.choice(["passthrough", "passthrough", "negative", "scripted", "scripted", "scripted", "average"])
    malformed = rng.random() < 0.1 and kind in ("passthrough", "scripted")
    nruns = rng.choice([1, 1, 2, 3])
    case = {"dispatcher": kind, "runs": [gen_run(rng, kind, malformed) for _ in range(nruns)]}
    if kind == "average":
        case["n"] = rng.choice([1, 2, 3])
    return case


def exhaustive_cases(maxlen):
    """scripted dispatcher, one raw descriptor, one raw event per call: every call sequence up to
    maxlen over 2 streams x 2 key sets x 2 id_args, alone and followed by a second run"""
    opts = [{"stream": s, "keys": k, "id_args": a} for s in ("primary", "s2") for k in (["x"], ["y"]) for a in (None, ["x"])]
    d = {"id": "d1", "name": "primary", "keys": ["x"]}

    def run_of(calls):
        return {"descriptors": [d], "seq": [{"t": "desc", "desc": "d1"}] + [{"t": "event", "desc": "d1", "calls": [c]} for c in calls]}

    for n in range(0, maxlen + 1):
        for calls in itertools.product(opts, repeat=n):
            yield {"dispatcher": "scripted", "runs": [run_of(calls)]}
    for n in range(0, max(1, maxlen - 1) + 1):
        for calls in itertools.product(opts, repeat=n):
            for c2 in opts[::3]:
                yield {"dispatcher": "scripted", "runs": [run_of(calls), run_of([c2])]}


def _cases(ctx):
    corpus = C.VERIF / "corpus" / "C39"
    if corpus.exists():
        for f in sorted(corpus.glob("*.json")):
            yield json.loads(f.read_text())["case"]
    thorough = ctx.tier == "thorough" or ctx.deep
    yield from exhaustive_cases(3 if thorough else 2)
    for _ in range(ctx.budget(1000, 20000)):
        yield gen_case(ctx.rng)


def _nontrivial(case, obs):
    """several re-emitted descriptors (several streams or a descriptor change) or several runs with events"""
    nd = sum(1 for r in obs["runs"] for d in r if d["t"] == "descriptor")
    ne = sum(1 for r in obs["runs"] for d in r if d["t"] == "event")
    return nd >= 2 and ne >= 2


def failing_subscriber_probe():
    """Implementation-only probe: a consumer subscribed to the LiveDispatcher fails on ONE event (the caller tolerates it,
    as the RunEngine does with ignore_callback_exceptions); the consumer subscribed before it has received every event,
    and what it received is still a valid run: seq_num 1..N per stream, RunStop.num_events = events emitted"""
    from bluesky.callbacks.stream import LiveDispatcher
    from event_model import compose_run

    bad = []
    for n_events in (3, 6):
        for fail_at in range(1, n_events + 1):
            ld = LiveDispatcher()
            got = []
            ld.subscribe(lambda name, doc: got.append((name, doc)))
            state = {"n": 0}

            def flaky(name, doc, state=state, fail_at=fail_at):
                if name == "event":
                    state["n"] += 1
                    if state["n"] == fail_at:
                        raise RuntimeError("one-off failure in a downstream consumer")

            ld.subscribe(flaky)
            run = compose_run()
            docs = [("start", run.start_doc)]
            d = run.compose_descriptor(name="primary", data_keys={"x": {"source": "s", "dtype": "number", "shape": []}})
            docs.append(("descriptor", d.descriptor_doc))
            for i in range(n_events):
                docs.append(("event", d.compose_event(data={"x": i}, timestamps={"x": float(i)})))
            docs.append(("stop", run.compose_stop()))
            for name, doc in docs:
                try:
                    ld(name, doc)
                except RuntimeError:
                    pass
            desc = {dd["uid"]: dd["name"] for nn, dd in got if nn == "descriptor"}
            seqs = {}
            for nn, dd in got:
                if nn == "event":
                    seqs.setdefault(desc.get(dd["descriptor"]), []).append(dd["seq_num"])
            stops = [dd for nn, dd in got if nn == "stop"]
            case = {"probe": "failing-subscriber", "events": n_events, "fails_at_event": fail_at}
            for st, nums in seqs.items():
                if nums != list(range(1, len(nums) + 1)):
                    bad.append(("failing-subscriber:seq_nums-not-1..N", f"{n_events} events, a later subscriber raised on event {fail_at}: the first subscriber received seq_nums {nums} in stream {st!r}", case))
            if len(stops) != 1 or stops[0].get("num_events") != {k: len(v) for k, v in seqs.items()}:
                bad.append(("failing-subscriber:num_events-differs-from-events-emitted", f"{n_events} events, failure at event {fail_at}: RunStop.num_events = {stops[0].get('num_events') if stops else None}, events received per stream {{k: len(v) for k, v in seqs.items()}}".replace("{k: len(v) for k, v in seqs.items()}", str({k: len(v) for k, v in seqs.items()})), case))
    return bad


def run(ctx, model=True):
    res = C.Result(
        rule="cases = corpus + every scripted call sequence up to a small length (2 streams x 2 key sets x 2 id_args, with and "
        "without a second run) + random raw runs (1-4 raw descriptors, 0-12 interleaved events, 1-3 runs in sequence) through "
        "pass-through / NegativeStream / AverageStream / scripted dispatchers, ~10% with events whose raw descriptor was never "
        "delivered; non-trivial = at least two re-emitted descriptors and two re-emitted events"
    )
    cases, obss, reqs = [], [], []
    for case in _cases(ctx):
        obs, req, info = run_impl(case)
        cases.append(case)
        obss.append(obs)
        reqs.append(req)
        res.seen(case, _nontrivial(case, obs))
        res.count("kind:" + case["dispatcher"])
        res.count("runs:" + str(len(case["runs"])))
        if not _wellformed(case):
            res.count("malformed-raw-run")
        for e in info["raised"]:
            res.count("raised:" + e)
        res.count("schema-validated-docs", sum(len(r) for r in obs["runs"]))
        streams = {d["name"] for r in obs["runs"] for d in r if d["t"] == "descriptor"}
        res.count("out-streams:" + str(min(len(streams), 3)))
        if any(len([d for d in r if d["t"] == "descriptor" and d["name"] == n]) > 1 for r in obs["runs"] for n in streams):
            res.count("stream-with-several-descriptors")
        for sig, what in oracle(case, obs, info):
            res.violations.append(C.Violation(sig, what, case))
    if model:
        replies = C.lean_batch(DRIVER, [json.dumps(r) for r in reqs])
        for case, obs, rep in zip(cases, obss, replies):
            m = json.loads(rep)
            if m != obs:
                res.disagreements.append({"case": case, "model": m, "impl": obs})
        for i in (0, len(cases) // 2, len(cases) - 1):
            res.samples.append({"case": cases[i], "impl": obss[i], "model": json.loads(replies[i])})
    else:
        res.samples.append({"case": cases[-1], "impl": obss[-1]})
    res.count("impl-only-probe:failing-subscriber", 1)
    for sig, what, case in failing_subscriber_probe():
        res.violations.append(C.Violation(sig, "implementation-only probe: " + what, case))
    return res


def run_impl_only(ctx):
    return run(ctx, model=False)


def replay(ctx, data):
    if (data.get("case") or {}).get("probe") == "failing-subscriber":
        res = C.Result()
        for sig, what, case in failing_subscriber_probe():
            res.violations.append(C.Violation(sig, what, case))
        return res
    res = C.Result()
    case = data.get("case")
    if not case:
        return res
    obs, _req, info = run_impl(case)
    for sig, what in oracle(case, obs, info):
        res.violations.append(C.Violation(sig, what, case))
    return res
