"""C28 -- count and repeat run the plan exactly num times with the right delays.

Tie: (T) the comparison / arithmetic expressions of `bluesky.plan_stubs.repeat` (`num and num - 1 >
num_delays`, `i + 1 == num`, `elif num is None: break`, `d - (time.time() - now)`, `d > 0`) are
translated from the current source into lean/BlueskyVerif/Pure/RepeatGenerated.lean after a strict
match of the statement structure of `repeat`; `count` is checked to delegate to
`bps.repeat(partial(per_shot or bps.one_shot, detectors), num=num, delay=delay)`.  (C) the
hand-written loop (Pure/Repeat.lean) is run against the real generators `repeat(...)` and `count(...)`,
consumed directly, with `time` inside `bluesky.plan_stubs` replaced by a scripted clock (dyadic
readings), on the same num / delay specification / inner plans.
"""
from __future__ import annotations

import ast
import itertools
import json
import time as _real_time
from fractions import Fraction

import common as C

MANIFEST = {
    "text": "FULL. Theorems (Props/C28.lean) for every clock (any function Nat -> Rat), every inner plan (any message "
    "lists), every num : Int or None and every delay specification (scalar, sized / unsized finite iterable with None "
    "entries, endless iterator): closed form of the message trace (repetition i = checkpoint, inner messages, sleep for "
    "the positive remainder d_i - elapsed_i, iff positive, at most one, last); exactly num repetitions when the delays "
    "suffice; every repetition of every run (also failing / cut-off ones) is preceded by its own checkpoint; ValueError "
    "iff an iterable delay has fewer than num-1 entries, raised before anything is yielded (len() known) or after "
    "exactly len+1 repetitions (generator); num=None with a scalar delay never ends and every finite prefix has the same "
    "shape; num=None with len finite delays makes len+1 repetitions and returns.",
    "note": "Trusted: Lean kernel; the extractor (strict AST shape match + expression translation, raises when the shape "
    "changes); CPython `yield from` forwarding (the inner plan's messages per repetition are an input of the model); "
    "time readings and delays are exact rationals (the correspondence uses dyadic floats, exact in IEEE arithmetic). "
    "The code also sleeps after the LAST repetition when a delay is still available (scalar delays): modelled and "
    "proved as is; the property statement does not forbid it.",
    "technique": "Lean 4 proof (refinement of the transcribed loop to a closed-form specification; translator for the "
    "expressions) + correspondence run against the real repeat / count generators with a scripted clock",
}
LEAN_MODULES = ["BlueskyVerif.Props.C28"]
DRIVER_MODULES = ["BlueskyVerif.Pure.Repeat"]
DRIVER = "Drivers/C28.lean"
ASSUMPTIONS = [
    "clock readings and delays are exact rationals in the model; the correspondence uses dyadic values so that float "
    "arithmetic in the real code is exact",
    "the inner plan terminates in every repetition and its messages per repetition are an environment input (responses "
    "are forwarded by `yield from`)",
    "delay objects are: a non-iterable scalar, an iterable with len(), or an iterator without len() (finite or endless)",
]
TRUSTED = ["harness/props/C28.py::extract (AST shape match of repeat / count and expression translation)"]

GEN_PATH = C.LEAN / "BlueskyVerif" / "Pure" / "RepeatGenerated.lean"


# ----------------------------------------------------------------------------- translator
class Unrecognised(Exception):
    pass


def _need(cond, what):
    if not cond:
        raise Unrecognised(what)


CMPS = {ast.Lt: "<", ast.LtE: "≤", ast.Gt: ">", ast.GtE: "≥"}


def tr_num(n, names):
    """numeric expression -> Lean term"""
    if isinstance(n, ast.Name) and n.id in names:
        return n.id
    if isinstance(n, ast.Constant) and isinstance(n.value, int) and not isinstance(n.value, bool):
        return str(n.value)
    if isinstance(n, ast.BinOp) and isinstance(n.op, (ast.Add, ast.Sub)):
        return f"({tr_num(n.left, names)} {'+' if isinstance(n.op, ast.Add) else '-'} {tr_num(n.right, names)})"
    if isinstance(n, ast.Call) and ast.unparse(n) == "time.time()" and "t" in names:
        return "t"
    raise Unrecognised("numeric expression " + ast.unparse(n))


def tr_bool(n, names):
    """boolean expression (truthiness of a number = `!= 0`) -> Lean Bool term"""
    if isinstance(n, ast.BoolOp):
        op = "&&" if isinstance(n.op, ast.And) else "||"
        return "(" + f" {op} ".join(tr_bool(v, names) for v in n.values) + ")"
    if isinstance(n, ast.UnaryOp) and isinstance(n.op, ast.Not):
        return f"(!{tr_bool(n.operand, names)})"
    if isinstance(n, ast.Compare) and len(n.ops) == 1:
        a, b = tr_num(n.left, names), tr_num(n.comparators[0], names)
        op = n.ops[0]
        if isinstance(op, ast.Eq):
            return f"({a} == {b})"
        if isinstance(op, ast.NotEq):
            return f"({a} != {b})"
        if type(op) in CMPS:
            return f"decide ({a} {CMPS[type(op)]} {b})"
        raise Unrecognised("comparison " + ast.unparse(n))
    return f"({tr_num(n, names)} != 0)"


def _func(tree, name):
    for n in tree.body:
        if isinstance(n, ast.FunctionDef) and n.name == name:
            return n
    raise Unrecognised(f"{name} not found")


def _body(fn):
    b = list(fn.body)
    if b and isinstance(b[0], ast.Expr) and isinstance(b[0].value, ast.Constant) and isinstance(b[0].value.value, str):
        b = b[1:]
    return b


def extract(ctx):
    tree = ast.parse((C.SRC / "plan_stubs.py").read_text())
    rp = _func(tree, "repeat")
    _need([a.arg for a in rp.args.args] == ["plan", "num", "delay"], "repeat signature")
    dflts = [ast.unparse(d) for d in rp.args.defaults]
    _need(dflts == ["1", "0.0"], f"repeat defaults {dflts}")
    body = [s for s in _body(rp) if not (isinstance(s, ast.AnnAssign) and s.value is None)]
    _need(len(body) == 4, f"repeat: 4 statements expected, got {len(body)}")
    _need(ast.unparse(body[0]) == "if num is None:\n    iterator = itertools.count()\nelse:\n    iterator = range(num)", "repeat: iterator selection")
    d = body[1]
    _need(isinstance(d, ast.If) and ast.unparse(d.test) == "not isinstance(delay, Iterable)" and [ast.unparse(s) for s in d.body] == ["delay = itertools.repeat(delay)"], "repeat: scalar delay -> itertools.repeat")
    _need(len(d.orelse) == 2 and isinstance(d.orelse[0], ast.Try) and ast.unparse(d.orelse[1]) == "delay = iter(delay)", "repeat: iterable delay branch")
    t = d.orelse[0]
    _need([ast.unparse(s) for s in t.body] == ["num_delays = len(delay)"] and len(t.handlers) == 1 and ast.unparse(t.handlers[0].type) == "TypeError" and [ast.unparse(s) for s in t.handlers[0].body] == ["pass"] and not t.finalbody, "repeat: len(delay) probe")
    _need(len(t.orelse) == 1 and isinstance(t.orelse[0], ast.If) and not t.orelse[0].orelse and len(t.orelse[0].body) == 1 and isinstance(t.orelse[0].body[0], ast.Raise) and ast.unparse(t.orelse[0].body[0].exc.func) == "ValueError", "repeat: up-front ValueError")
    too_few = tr_bool(t.orelse[0].test, {"num", "num_delays"})
    rpn = body[2]
    _need(isinstance(rpn, ast.FunctionDef) and rpn.name == "repeated_plan" and len(rpn.body) == 1 and isinstance(rpn.body[0], ast.For), "repeat: def repeated_plan(): for ...")
    fr = rpn.body[0]
    _need(ast.unparse(fr.target) == "i" and ast.unparse(fr.iter) == "iterator" and not fr.orelse, "repeat: for i in iterator")
    fb = fr.body
    _need(len(fb) == 5, f"repeat loop: 5 statements expected, got {len(fb)}")
    _need(ast.unparse(fb[0]) == "now = time.time()", "repeat loop: now = time.time()")
    _need(ast.unparse(fb[1]) == "yield Msg('checkpoint')", "repeat loop: yield Msg('checkpoint')")
    _need(ast.unparse(fb[2]) == "yield from ensure_generator(plan())", "repeat loop: yield from ensure_generator(plan())")
    tr = fb[3]
    _need(isinstance(tr, ast.Try) and [ast.unparse(s) for s in tr.body] == ["d = next(delay)"] and len(tr.handlers) == 1 and ast.unparse(tr.handlers[0].type) == "StopIteration" and not tr.orelse and not tr.finalbody, "repeat loop: try d = next(delay) except StopIteration")
    hb = tr.handlers[0].body
    _need(len(hb) == 1 and isinstance(hb[0], ast.If) and [ast.unparse(s) for s in hb[0].body] == ["break"], "repeat loop: if <last>: break")
    is_last = tr_bool(hb[0].test, {"i", "num"})
    rest = hb[0].orelse
    none_breaks = False
    if len(rest) == 1 and isinstance(rest[0], ast.If) and ast.unparse(rest[0].test) == "num is None" and [ast.unparse(s) for s in rest[0].body] == ["break"]:
        none_breaks = True
        rest = rest[0].orelse
    _need(len(rest) == 1 and isinstance(rest[0], ast.Raise) and ast.unparse(rest[0].exc.func) == "ValueError", "repeat loop: else raise ValueError")
    sl = fb[4]
    _need(isinstance(sl, ast.If) and ast.unparse(sl.test) == "d is not None" and not sl.orelse and len(sl.body) == 2, "repeat loop: if d is not None")
    asg = sl.body[0]
    _need(isinstance(asg, ast.Assign) and ast.unparse(asg.targets[0]) == "d", "repeat loop: d = d - (...)")
    remaining = tr_num(asg.value, {"d", "now", "t"})
    _need(ast.unparse(asg.value).count("time.time()") == 1, "repeat loop: exactly one clock reading in the remainder")
    cond = sl.body[1]
    _need(isinstance(cond, ast.If) and not cond.orelse and [ast.unparse(s) for s in cond.body] == ["yield Msg('sleep', None, d)"], "repeat loop: if <cond>: yield Msg('sleep', None, d)")
    sleep_cond = tr_bool(cond.test, {"d"})
    _need(ast.unparse(body[3]) == "return (yield from repeated_plan())", "repeat: return (yield from repeated_plan())")
    facts = {
        "repeat": {"too_few_sized": ast.unparse(t.orelse[0].test), "is_last": ast.unparse(hb[0].test), "none_breaks": none_breaks, "remaining": ast.unparse(asg.value), "sleep_cond": ast.unparse(cond.test), "at": f"plan_stubs.py:{rp.lineno}"}
    }
    # count delegates to repeat
    ptree = ast.parse((C.SRC / "plans.py").read_text())
    cnt = _func(ptree, "count")
    inner = next((n for n in cnt.body if isinstance(n, ast.FunctionDef) and n.name == "inner_count"), None)
    _need(inner is not None, "count: inner_count")
    _need([ast.unparse(dc) for dc in inner.decorator_list] == ["bpp.stage_decorator(detectors)", "bpp.run_decorator(md=_md)"], "count: decorators of inner_count")
    ib = inner.body
    _need(len(ib) == 2 and ast.unparse(ib[0]) == "if predeclare:\n    yield from bps.declare_stream(*detectors, name='primary')" and ast.unparse(ib[1]) == "return (yield from bps.repeat(partial(msg_per_step, detectors), num=num, delay=delay))", "count: inner_count body")
    _need(any(ast.unparse(s) == "msg_per_step: PerShot = per_shot if per_shot else bps.one_shot" for s in cnt.body), "count: msg_per_step selection")
    _need(ast.unparse(cnt.body[-1]) == "return (yield from inner_count())", "count: return (yield from inner_count())")
    facts["count"] = {"delegates_to": "bps.repeat(partial(msg_per_step, detectors), num=num, delay=delay)", "at": f"plans.py:{cnt.lineno}"}
    out = [
        "-- GENERATED by harness/props/C28.py from src/bluesky/plan_stubs.py (repeat) -- do not edit.",
        "namespace BlueskyVerif.Repeat.Gen",
        "",
        "/-- `if num and num - 1 > num_delays: raise ValueError` (delays with a len()) -/",
        f"def tooFewSized (num : Int) (num_delays : Int) : Bool := {too_few}",
        "/-- `if i + 1 == num: break` in the StopIteration handler -/",
        f"def isLast (i : Int) (num : Int) : Bool := {is_last}",
        "/-- `elif num is None: break` present in the StopIteration handler -/",
        f"def noneBreaks : Bool := {'true' if none_breaks else 'false'}",
        "/-- `d = d - (time.time() - now)` -/",
        f"def remaining (d : Rat) (t : Rat) (now : Rat) : Rat := {remaining}",
        "/-- `if d > 0:` guarding the sleep message -/",
        f"def sleepCond (d : Rat) : Bool := {sleep_cond}",
        "",
        "end BlueskyVerif.Repeat.Gen",
        "",
    ]
    C.write_if_changed(GEN_PATH, "\n".join(out))
    return facts


# ----------------------------------------------------------------------------- running the implementation
def _val(q, form):
    """[n, d] -> python number (dyadic, exact as a float)"""
    if q is None:
        return None
    fr = Fraction(q[0], q[1])
    if form == "fraction":
        return fr
    if form == "int" and fr.denominator == 1:
        return int(fr)
    return float(fr)


def _q(x):
    fr = Fraction(x)
    return [fr.numerator, fr.denominator]


class ScriptedTime:
    """stands in for the `time` module inside bluesky.plan_stubs: `time()` returns the scripted readings"""

    def __init__(self, readings, log):
        self._r, self._k, self._log = readings, 0, log

    def time(self):
        v = self._r[self._k] if self._k < len(self._r) else self._r[-1]
        self._k += 1
        self._log.append(["time", _q(v)])
        return v

    def __getattr__(self, name):
        return getattr(_real_time, name)


class _Runaway(Exception):
    pass


class FakeDet:
    parent = None

    def __init__(self, name):
        self.name = name

    def read(self):
        return {}

    def describe(self):
        return {}

    def trigger(self):
        return None

    def read_configuration(self):
        return {}

    def describe_configuration(self):
        return {}


def make_delay(spec, form):
    k = spec["kind"]
    if k == "scalar":
        return _val(spec["d"], form)
    vals = [_val(x, form) for x in spec["l"]]
    if k == "sized":
        return tuple(vals) if spec.get("tuple") else vals
    if spec.get("iter"):
        return iter(vals)
    return (x for x in vals)


def canon(m):
    if m.command == "checkpoint":
        return ["checkpoint"]
    if m.command == "sleep":
        return ["sleep", _q(m.args[0])]
    if m.command == "marker":
        return ["msg", f"{m.args[0]}:{m.args[1]}"]
    return ["msg", f"{m.command}:{getattr(m.obj, 'name', '') or ''}"]


def run_impl(case):
    """-> (observation, log).  The log interleaves clock readings, invocations of the inner plan and
    the messages the consumer received, in the order in which they happened."""
    import bluesky.plan_stubs as bps
    import bluesky.plans as bp
    from bluesky.utils import Msg

    form = case.get("form", "float")
    log = []
    calls = [0]
    counts = case["inner"]

    def factory(*_a):
        i = calls[0]
        calls[0] += 1
        if i > 200:  # no legitimate case gets near this: the generator spins without yielding
            raise _Runaway()
        log.append(["call", i])
        n = counts[i] if i < len(counts) else 0
        msgs = [Msg("marker", None, i, j) for j in range(n)]
        shape = case.get("inner_form", "gen")
        if shape == "list":
            return msgs
        if shape == "msg" and n == 1:
            return msgs[0]

        def g():
            for m in msgs:
                yield m

        return g()

    clock = [float(Fraction(a, b)) for a, b in case["clock"]]
    fake = ScriptedTime(clock, log)
    delay = make_delay(case["delay"], form)
    kw = {}
    if not case.get("num_default"):
        kw["num"] = case["num"]
    if not case.get("delay_default"):
        kw["delay"] = delay
    stop_after = case.get("stop_after")
    saved = bps.time
    bps.time = fake
    ncp = 0
    nmsg = 0
    ret = "<none>"
    try:
        if case["kind"] == "repeat":
            gen = bps.repeat(factory, **kw)
        else:
            dets = [FakeDet(f"d{i}") for i in range(case["ndet"])]
            if case.get("per_shot"):
                kw["per_shot"] = factory
            gen = bp.count(dets, **kw)
        try:
            m = gen.send(None)
            while True:
                if stop_after is not None and m.command == "checkpoint":
                    ncp += 1
                    if ncp == stop_after + 1:
                        outcome = "running"
                        break
                log.append(canon(m))
                nmsg += 1
                if nmsg > 600:  # no legitimate case gets near this: the generator does not stop
                    outcome = "runaway"
                    break
                m = gen.send(None)
        except StopIteration as e:
            outcome = "returned"
            ret = e.value
        except _Runaway:
            outcome = "runaway"
        except ValueError:
            outcome = "ValueError"
        except Exception as e:  # noqa: BLE001
            outcome = "raised:" + type(e).__name__
        if outcome in ("running", "runaway"):
            try:
                gen.close()  # the consumer walks away
            except Exception:  # noqa: BLE001
                pass
    finally:
        bps.time = saved
    trace = [e for e in log if e[0] != "time"]
    obs = {"trace": trace, "end": outcome}
    return obs, log


def one_shot_skeleton(ndet):
    import bluesky.plan_stubs as bps

    dets = [FakeDet(f"d{i}") for i in range(ndet)]
    return [canon(m) for m in bps.one_shot(dets)]


def model_request(case):
    """the request for the Lean driver: count cases become repeat cases whose inner plan is the real
    one_shot's message skeleton (or the marker plan when per_shot is given)"""
    req = {"num": 1 if case.get("num_default") else case["num"], "delay": {"kind": "scalar", "d": [0, 1]} if case.get("delay_default") else case["delay"], "clock": case["clock"]}
    if case.get("stop_after") is not None:
        req["stop_after"] = case["stop_after"]
    if case["kind"] == "count" and not case.get("per_shot"):
        sk = [e[1] if e[0] == "msg" else "checkpoint:" for e in one_shot_skeleton(case["ndet"])]
        req["inner"] = [sk] * 9
    else:
        req["inner"] = [[f"{i}:{j}" for j in range(n)] for i, n in enumerate(case["inner"])]
    return req


def comparable(case, obs):
    """implementation observation in the driver's vocabulary"""
    tr = obs["trace"]
    if case["kind"] == "count":
        # strip the stage/open_run prefix and the close_run/unstage suffix (checked by the oracle)
        i0 = next((i for i, e in enumerate(tr) if e == ["msg", "open_run:"]), None)
        i1 = next((i for i, e in enumerate(tr) if e == ["msg", "close_run:"]), len(tr) if obs["end"] in ("running", "runaway") else None)
        if i0 is None or i1 is None:
            return {"trace": "<no run>", "end": obs["end"]}
        tr = tr[i0 + 1 : i1]
        if not case.get("per_shot"):
            tr = [e if e[0] == "sleep" else (e[1] if e[0] == "msg" else "checkpoint:") for e in tr]
    return {"trace": tr, "end": obs["end"]}


def model_comparable(case, m):
    tr = m["trace"]
    if case["kind"] == "count" and not case.get("per_shot"):
        tr = [e if e[0] == "sleep" else (e[1] if e[0] == "msg" else "checkpoint:") for e in tr if e[0] != "call"]
    return {"trace": tr, "end": m["end"]}


# ----------------------------------------------------------------------------- the property, on the implementation's log
def _delay_at(case, i):
    """(available, value) of the delay requested after repetition i"""
    if case.get("delay_default"):
        return True, Fraction(0)
    d = case["delay"]
    if d["kind"] == "scalar":
        return True, (None if d["d"] is None else Fraction(*d["d"]))
    if i < len(d["l"]):
        x = d["l"][i]
        return True, (None if x is None else Fraction(*x))
    return False, None


def oracle(case, obs, log):
    bad = []
    kind = case["kind"]
    dk = "scalar" if case.get("delay_default") else case["delay"]["kind"]
    num = 1 if case.get("num_default") else case["num"]
    default_count = kind == "count" and not case.get("per_shot")
    events = list(log)
    if kind == "count":
        names = [e for e in events if e[0] != "time"]
        i0 = next((i for i, e in enumerate(events) if e == ["msg", "open_run:"]), None)
        cut = obs["end"] in ("running", "runaway")
        i1 = next((i for i, e in enumerate(events) if e == ["msg", "close_run:"]), len(events) if cut else None)
        nd = case["ndet"]
        want_pre = [["msg", f"stage:d{i}"] for i in range(nd)] + [["msg", "open_run:"]]
        want_post = [["msg", "close_run:"]] + [["msg", f"unstage:d{i}"] for i in reversed(range(nd))]
        if i0 is None or i1 is None or names[: nd + 1] != want_pre or (not cut and names[-(nd + 1) :] != want_post):
            bad.append(("count:run-wrapper-shape", f"count did not wrap the repetitions in stage/open_run ... close_run/unstage: {names[:4]} ... {names[-4:]}"))
            return bad
        head = [e for e in events[: i0 + 1] if e[0] == "time"]
        events = head + events[i0 + 1 : i1]
    is_marker = (lambda e: e == ["msg", "create:"]) if default_count else (lambda e: e[0] == "call")
    # ---- segmentation: a repetition starts at the first checkpoint seen since the previous invocation
    reps = []
    cur = None
    last_time = None
    seeking = True  # no checkpoint seen since the last marker
    for e in events:
        if e[0] == "time":
            last_time = Fraction(*e[1])
            if cur is not None and cur["marked"]:
                cur["after"].append(last_time)
            continue
        if e[0] == "checkpoint" and seeking:
            cur = {"t_start": last_time, "marked": False, "after": [], "sleeps": [], "tail": []}
            reps.append(cur)
            seeking = False
            continue
        if is_marker(e):
            if cur is None or cur["marked"]:
                which = "first" if not reps else "later"
                bad.append((f"checkpoint:missing-before-{which}-repetition", f"repetition #{sum(1 for r in reps if r['marked'])} starts without a checkpoint of its own; trace {obs['trace'][:12]}"))
                return bad
            cur["marked"] = True
            seeking = True
            continue
        if cur is not None and cur["marked"]:
            if e[0] == "checkpoint":
                continue  # one_shot's own checkpoint cannot follow the marker; defensive
            cur["tail"].append(e)
            if e[0] == "sleep":
                cur["sleeps"].append(Fraction(*e[1]))
        elif e[0] == "sleep":
            bad.append(("sleep:outside-a-repetition", f"sleep {e} before any repetition ran"))
            return bad
    if reps and not reps[-1]["marked"]:
        bad.append(("checkpoint:without-repetition", "a checkpoint was issued but no repetition followed"))
        return bad
    nrep = len(reps)
    # ---- ValueError iff too few delays; never more repetitions than the delays allow
    finite = dk in ("sized", "unsized") and not case.get("delay_default")
    L = len(case["delay"]["l"]) if finite else None
    too_few = num is not None and finite and L + 1 < num
    raised = obs["end"] == "ValueError"
    if too_few and not raised:
        bad.append((f"value-error:missing:{dk}", f"num={num} with only {L} delays ended with {obs['end']} after {nrep} repetitions"))
    if raised and not too_few:
        bad.append((f"value-error:spurious:{dk}", f"num={num}, delays {case['delay']} suffice but ValueError was raised after {nrep} repetitions"))
    if finite and num is not None and nrep > L + 1:
        bad.append((f"value-error:too-many-repetitions:{dk}", f"{L} delays allow {L + 1} repetitions but {nrep} ran (num={num})"))
    if obs["end"] == "runaway":
        bad.append(("repetitions:generator-does-not-stop", f"more than 600 messages for num={num}, stop_after={case.get('stop_after')}; {nrep} repetitions so far"))
        return bad
    if obs["end"].startswith("raised:"):
        bad.append(("unexpected-exception", f"{obs['end']} after {nrep} repetitions"))
    # ---- exactly num repetitions
    if num is not None and not too_few and case.get("stop_after") is None:
        want = max(num, 0)
        if obs["end"] == "returned" and nrep != want:
            off = "one-less" if nrep == want - 1 else ("one-more" if nrep == want + 1 else "other")
            bad.append((f"repetitions:{off}:{dk}", f"num={num}: {nrep} repetitions ran"))
    if num is None and case.get("stop_after") is not None and dk == "scalar":
        if obs["end"] != "running" or nrep != case["stop_after"]:
            bad.append(("repetitions:num-none-ended-by-itself", f"num=None: ended with {obs['end']} after {nrep} repetitions, consumer wanted to stop after {case['stop_after']}"))
    # ---- sleeps: only the positive remainder of the requested delay
    for i, r in enumerate(reps):
        avail, d = _delay_at(case, i)
        if any(x[0] == "sleep" for x in r["tail"][:-1]):
            bad.append(("sleep:not-last", f"repetition #{i}: a sleep is followed by more messages {r['tail']}"))
            break
        if not avail or d is None:
            if r["sleeps"]:
                bad.append((f"sleep:without-delay:{'none-entry' if avail else 'exhausted'}", f"repetition #{i}: sleeps {r['sleeps']} but no delay was requested"))
                break
            continue
        if r["t_start"] is None or not r["after"]:
            if r["sleeps"] or d > 0:
                bad.append(("sleep:clock-not-consulted", f"repetition #{i}: delay {d} requested but the clock was not read around the inner plan"))
                break
            continue
        w = d - (r["after"][0] - r["t_start"])
        if w > 0 and r["sleeps"] != [w]:
            bad.append((f"sleep:positive-remainder:{'missing' if not r['sleeps'] else 'wrong-duration'}", f"repetition #{i}: delay {d}, elapsed {r['after'][0] - r['t_start']}: expected sleep {w}, got {r['sleeps']}"))
            break
        if w <= 0 and r["sleeps"]:
            bad.append((f"sleep:non-positive-remainder:{'zero' if w == 0 else 'negative'}", f"repetition #{i}: delay {d}, elapsed {r['after'][0] - r['t_start']}: remainder {w} but slept {r['sleeps']}"))
            break
    return bad


# ----------------------------------------------------------------------------- cases
DY = [[0, 1], [1, 8], [1, 4], [1, 2], [1, 1], [3, 2], [2, 1], [5, 1]]


def gen_clock(rng, n=18):
    t = Fraction(rng.choice([0, 1, 100, 1 << 20]))
    out = []
    for _ in range(n):
        out.append([t.numerator, t.denominator])
        t += Fraction(*rng.choice(DY))
    return out


def gen_delay_value(rng):
    r = rng.random()
    if r < 0.1:
        return None
    if r < 0.2:
        return [-1, 2]
    return rng.choice(DY)


def gen_case(rng):
    kind = "repeat" if rng.random() < 0.7 else "count"
    num = rng.choice([None, None, -1, 0, 1, 1, 2, 2, 3, 3, 4, 5, 7])
    dk = rng.choice(["scalar", "scalar", "sized", "sized", "unsized", "unsized"])
    if dk == "scalar":
        delay = {"kind": "scalar", "d": gen_delay_value(rng)}
    else:
        base = (num if num is not None else 3) - 1
        L = max(0, base + rng.choice([-2, -1, -1, 0, 0, 0, 1, 2]))
        delay = {"kind": dk, "l": [gen_delay_value(rng) for _ in range(L)], "tuple": rng.random() < 0.3, "iter": rng.random() < 0.3}
    case = {"kind": kind, "num": num, "delay": delay, "clock": gen_clock(rng), "inner": [rng.choice([0, 1, 1, 2, 3]) for _ in range(12)], "form": rng.choice(["float", "float", "int", "fraction"]), "inner_form": rng.choice(["gen", "gen", "list", "msg"])}
    if rng.random() < 0.05:
        case["num_default"] = True
    if rng.random() < 0.05:
        case["delay_default"] = True
    if kind == "count":
        case["ndet"] = rng.choice([1, 2])
        case["per_shot"] = rng.random() < 0.5
        case["inner_form"] = "gen" if case["per_shot"] else case["inner_form"]
        if case.get("num_default"):
            pass
    eff_num = 1 if case.get("num_default") else num
    if eff_num is None:
        endless = case.get("delay_default") or dk == "scalar"
        if endless or rng.random() < 0.5:
            if kind == "count" and not case.get("per_shot"):
                case["per_shot"] = True
                case["inner_form"] = "gen"
            case["stop_after"] = rng.choice([0, 1, 2, 3, 5])
    return case


def exhaustive_cases(big):
    """num x delay spec x elapsed pattern, all small: delays and elapsed times from {0, 1/2, 1} so that the
    remainder hits < 0, = 0 and > 0"""
    vals = [[0, 1], [1, 2], [1, 1]]
    steps = [[[0, 1], [1, 2]], [[1, 2], [1, 2]], [[1, 1], [0, 1]], [[1, 2], [1, 1]]]  # (inner duration, gap) patterns
    nums = [None, 0, 1, 2, 3] + ([4] if big else [])
    for num in nums:
        specs = [{"kind": "scalar", "d": v} for v in vals + [None]]
        for L in range(0, 4 if big else 3):
            for combo in itertools.product(vals[1:] if not big else vals, repeat=L):
                specs.append({"kind": "sized", "l": list(combo)})
                specs.append({"kind": "unsized", "l": list(combo)})
        for spec in specs:
            for st in steps:
                t = Fraction(0)
                clock = []
                for k in range(12):
                    clock.append([t.numerator, t.denominator])
                    t += Fraction(*st[k % 2])
                case = {"kind": "repeat", "num": num, "delay": spec, "clock": clock, "inner": [1] * 12, "form": "float", "inner_form": "gen"}
                if num is None:
                    case["stop_after"] = 2
                yield case


def _cases(ctx):
    corpus = C.VERIF / "corpus" / "C28"
    if corpus.exists():
        for f in sorted(corpus.glob("*.json")):
            yield json.loads(f.read_text())["case"]
    yield from exhaustive_cases(ctx.tier == "thorough" or ctx.deep)
    for _ in range(ctx.budget(1500, 40000)):
        yield gen_case(ctx.rng)


def _nontrivial(case, obs):
    return obs["end"] != "returned" or any(e[0] == "sleep" for e in obs["trace"]) or sum(1 for e in obs["trace"] if e[0] == "checkpoint") > 1


def run(ctx, model=True):
    res = C.Result(
        rule="cases = corpus + exhaustive (num in None,0..3(4) x scalar / sized / unsized delays of length <= 2(3) over {0, 1/2, 1} "
        "x 4 elapsed-time patterns hitting remainder <0, =0, >0) + random (num incl. None / negative / default, scalar / list / "
        "tuple / generator / iterator delays with None and negative entries and lengths around num-1, dyadic clocks, inner plans "
        "of 0-3 messages as generator / list / single Msg, repeat and count with default one_shot or custom per_shot, consumer "
        "that walks away for num=None); non-trivial = more than one repetition, a sleep, a ValueError or a cut-off run"
    )
    cases, obss = [], []
    for case in _cases(ctx):
        obs, log = run_impl(case)
        cases.append(case)
        obss.append(obs)
        res.seen(case, _nontrivial(case, obs))
        res.count(case["kind"] + ("/per_shot" if case.get("per_shot") else ""))
        res.count("end:" + obs["end"])
        res.count("delay:" + ("default" if case.get("delay_default") else case["delay"]["kind"]))
        for sig, what in oracle(case, obs, log):
            res.violations.append(C.Violation(sig, what, case))
    if model:
        replies = C.lean_batch(DRIVER, [json.dumps(model_request(c)) for c in cases])
        for case, obs, rep in zip(cases, obss, replies):
            m = model_comparable(case, json.loads(rep))
            o = comparable(case, obs)
            if m != o:
                res.disagreements.append({"case": case, "model": m, "impl": o})
        for i in (0, len(cases) // 2, len(cases) - 1):
            res.samples.append({"case": cases[i], "impl": comparable(cases[i], obss[i]), "model": model_comparable(cases[i], json.loads(replies[i]))})
    else:
        res.samples.append({"case": cases[-1], "impl": obss[-1]})
    return res


def run_impl_only(ctx):
    return run(ctx, model=False)


def replay(ctx, data):
    res = C.Result()
    case = data.get("case")
    if not case:
        return res
    obs, log = run_impl(case)
    for sig, what in oracle(case, obs, log):
        res.violations.append(C.Violation(sig, what, case))
    return res
