"""C23 -- paired-action wrappers always undo what they did.

Tie: (T) harness/pairedextract.py re-reads run_wrapper / stage_wrapper / lazily_stage_wrapper / subs_wrapper /
suspend_wrapper / monitor_during_wrapper / fly_during_wrapper (+ stage_all / unstage_all / open_run / close_run):
the close_run arguments per exception class, the stage / unstage orders, the COMMANDS table, the spliced message
lists go to lean/BlueskyVerif/Gen/GeneratedPaired.lean (the Lean models in Gen/Paired.lean are parametrised by them
and the theorems depend on them); every other statement is compared with the transcribed shape.  The clause
tables of finalize_wrapper / contingency_wrapper / plan_mutator (genextract.py) are re-extracted too.
(C) the REAL wrappers around real generators compiled from plan ASTs (plangen grammar; payload numbers decoded
into real Msg objects on fake devices with .name / .parent) are driven WITHOUT a RunEngine by scripts of sends /
throws / close; the same AST + script go through the Lean models; canonical traces are compared.
Oracle: the property stated directly on the implementation's trace (which messages are the wrapper's own is known
from object identity; how the wrapped plan ended from a pass-through instrumentation layer).
"""
from __future__ import annotations

import json
from concurrent.futures import ThreadPoolExecutor

import common as C
import genextract
import pairedextract
import plangen as G

MANIFEST = {
    "text": "FULL for run_wrapper, stage_wrapper, subs_wrapper, suspend_wrapper, lazily_stage_wrapper (its 'each device unstaged once' under "
    "the stated well-formedness of stage answers); PARTIAL for monitor_during_wrapper / fly_during_wrapper (what each of the "
    "two nested plan_mutators does at ONE open_run / close_run whose inserted messages are answered; whole traces not proved, "
    "full statement kept as C23_during_full).  Theorems (Props/C23.lean) give, for ANY wrapped plan behaviour and "
    "ANY script of responses / thrown exceptions (no GeneratorExit thrown in the middle; close() at the end allowed), the exact "
    "message trace of each wrapper model as a function of the wrapped plan's own trace: run_wrapper = open_run, the plan, then "
    "exactly one close_run whose status is the exception's exit_status (RequestStop/RequestAbort), 'fail'+reason (other "
    "Exceptions) or plain (return), none when the plan ends with a GeneratorExit or a non-Exception BaseException; "
    "stage_wrapper stages the distinct root ancestors in order and unstages all of them once in reverse order on every exit "
    "but close; lazily_stage_wrapper stages the root of each touched device right before its first message and unstages "
    "everything reported staged once, in reverse; subs_wrapper unsubscribes exactly the tokens received; suspend_wrapper "
    "removes every suspender; the *_during wrappers put monitor / kickoff(+wait) right after open_run and unmonitor / "
    "complete(+wait)+collect right before close_run.",
    "note": "Trusted: Lean kernel; the shared generator / yield-from / plan_mutator / finalize / contingency models "
    "(Gen/*.lean, validated by C20-C22 and by this correspondence on every run); harness/pairedextract.py, genextract.py, "
    "plangen.py; `yield from Plan(..)` (the @plan decorator) treated as `yield from` the underlying generator; set iteration "
    "order of subs_wrapper's token set not modelled (compared as a multiset).",
    "technique": "Lean 4 proof (trace semantics of the composed generator machines by induction over the script, built on the "
    "C22 phase machine and the C20/C21 plan_mutator lemmas) + extracted facts + exhaustive/random correspondence of message "
    "traces against the real wrappers driven without a RunEngine",
}
LEAN_MODULES = ["BlueskyVerif.Props.C23"]
DRIVER_MODULES = ["BlueskyVerif.Gen.Driver", "BlueskyVerif.Gen.Paired"]
DRIVER = "Drivers/C23.lean"
ASSUMPTIONS = [
    "wrapped plans are generators yielding Msg objects; messages whose command is in lazily_stage_wrapper's COMMANDS carry a device with a .parent chain",
    "`yield from` a @plan-decorated stub (bluesky.utils.Plan) behaves as `yield from` the generator it wraps",
    "responses to the wrappers' own `stage` messages are None or lists of devices (lazily_stage_wrapper) / anything or a Status (stage_all)",
    "no GeneratorExit is thrown into a wrapper in the middle of a script (close() at the end is covered); StopIteration is never thrown",
    "plan_mutator-based wrappers (lazily_stage, *_during): statements are about message OBJECTS yielded for the first time -- plan_mutator passes an object it has seen (msgs_seen keyed by id) through unprocessed (C21/F9 semantics)",
    "lazily_stage_wrapper 'unstaged exactly once': a `stage root` answer is None or a duplicate-free list containing the root and only devices of its tree",
]
TRUSTED = ["harness/pairedextract.py", "harness/genextract.py", "harness/plangen.py (AST -> Python source)"]

WRAPPERS = ["run_wrapper", "stage_wrapper", "lazily_stage_wrapper", "subs_wrapper", "suspend_wrapper", "monitor_during_wrapper", "fly_during_wrapper"]
LAZY_COMMANDS = {"read", "set", "trigger", "kickoff"}


def extract(ctx):
    facts = {}
    facts.update(genextract.extract_mutators_file(ctx))
    facts.update(genextract.extract_wrappers_file(ctx))
    facts.update(pairedextract.extract_paired_file(ctx))
    return facts


# ----------------------------------------------------------------------------- fakes


class FakeDev:
    def __init__(self, n):
        self.n = n
        self.name = f"dev{n}"
        self.parent = None

    def __repr__(self):
        return self.name


class FakeFunc:
    def __init__(self, n):
        self.n = n

    def __call__(self, name, doc):
        pass


class FakeSusp:
    def __init__(self, n):
        self.n = n


class FakeStatus:
    done = True
    success = True

    def add_callback(self, cb):
        pass

    def exception(self, timeout=0.0):
        return None


def subs_names():
    from bluesky.utils import normalize_subs_input

    return list(normalize_subs_input(None).keys())


class World:
    """fake devices + the message factory of one run of one case"""

    def __init__(self, case):
        from bluesky.utils import Msg

        self.Msg = Msg
        self.devs = {}
        for d, _ in case.get("parents", []):
            self.devs[d] = FakeDev(d)
        for d, p in case.get("parents", []):
            if p is not None:
                self.devs[d].parent = self.devs[p]
        self.table = {row[0]: row[1:] for row in case.get("msgs", [])}
        self.plan_ids = {}  # id(msg) -> msg for plan-originated messages (kept alive)
        self.funcs = {}
        self.susps = {}
        self.step = 0
        self.reyielded = set()
        self.reyielded_uids = set()

    def dev(self, n):
        if n not in self.devs:
            self.devs[n] = FakeDev(n)
        return self.devs[n]

    def make(self, _cmd, k):
        """the `Msg('null', k)` of the compiled plan source"""
        if k in self.table:
            cmd, obj, num = self.table[k]
            o = None if obj is None else self.dev(obj)
            m = self.Msg(cmd, o) if num is None else self.Msg(cmd, o, num)
        else:
            m = self.Msg("null", None, k)
        self.plan_ids[id(m)] = m
        return m

    def genfunc(self, ast, name="plan"):
        from bluesky.utils import RunEngineControlException

        pool = {}

        def shared(k):
            # `yield SHARED(k)`: the same message object every time; from the second evaluation on it is a re-yield
            if k not in pool:
                pool[k] = self.make("null", k)
            else:
                self.reyielded.add(id(pool[k]))
                self.reyielded_uids.add(pool[k].kwargs.get("uid"))
            return pool[k]

        ns = {"Msg": self.make, "SHARED": shared, "RunEngineControlException": RunEngineControlException}
        ns.update(G.EXC)
        exec(compile(G.source(ast, name), f"<plangen:{name}>", "exec"), ns)
        return ns[name]


def logged(gen, log, world):
    """pass-through layer recording how (and at which script step) the wrapped plan ended"""
    try:
        ret = yield from gen
    except BaseException as e:  # noqa: BLE001
        c = G.canon_exc(e)
        log.append(["exc", c[1], c[2], world.step])
        raise
    log.append(["ret", ret, None, world.step])
    return ret


def build(case, world, log=None):
    import bluesky.preprocessors as bpp

    plan = world.genfunc(case["plan"])()
    if log is not None:
        plan = logged(plan, log, world)
    w = case["wrapper"]
    devs = [world.dev(d) for d in case.get("devices", [])]
    if w == "bare":
        return plan
    if w == "run_wrapper":
        md = case.get("md")
        return bpp.run_wrapper(plan, md=None if md is None else {"tag": md})
    if w == "stage_wrapper":
        return bpp.stage_wrapper(plan, devs)
    if w == "lazily_stage_wrapper":
        return bpp.lazily_stage_wrapper(plan)
    if w == "subs_wrapper":
        names = subs_names()
        subs = {}
        for name, func in case.get("subs", []):
            f = world.funcs.setdefault(func, FakeFunc(func))
            subs.setdefault(names[name], []).append(f)
        return bpp.subs_wrapper(plan, subs)
    if w == "suspend_wrapper":
        return bpp.suspend_wrapper(plan, [world.susps.setdefault(d, FakeSusp(d)) for d in case.get("devices", [])])
    if w == "monitor_during_wrapper":
        return bpp.monitor_during_wrapper(plan, devs)
    if w == "fly_during_wrapper":
        return bpp.fly_during_wrapper(plan, devs)
    raise ValueError(w)


def _reason_token(r):
    if r is None:
        return None
    if r in G._MESSAGES:
        return G._MESSAGES[r]
    try:
        return int(r)
    except ValueError:
        return 9999


def canon_msg(m, world):
    """[yld, cmd, obj, num, group(raw), status, reason]"""
    from bluesky.utils import Msg

    if not isinstance(m, Msg):
        return ["yld", "?not-a-Msg:" + repr(m)[:40], None, None, None, None, None]
    cmd = m.command
    obj = m.obj.n if isinstance(m.obj, FakeDev) else None
    num = None
    if cmd == "subscribe":
        num = m.args[0].n if m.args else None
    elif cmd == "unsubscribe":
        num = m.kwargs.get("token")
    elif cmd in ("install_suspender", "remove_suspender"):
        num = m.args[0].n if m.args else None
    elif cmd == "open_run":
        num = m.kwargs.get("tag")
    elif m.args and isinstance(m.args[0], int):
        num = m.args[0]
    group = m.kwargs.get("group")
    if cmd == "subscribe" and len(m.args) > 1:
        group = "name:" + str(m.args[1])
    return ["yld", cmd, obj, num, group, m.kwargs.get("exit_status"), _reason_token(m.kwargs.get("reason"))]


def drive(case, script, instrument=False):
    """run the real wrapper on one script -> (raw trace, origins, log)"""
    world = World(case)
    log = [] if instrument else None
    gen = build(case, world, log)
    resp = {(row[0], row[1]): row[2] for row in case.get("stageResp", [])}
    status_codes = set(case.get("statusCodes", []))
    trace, origins = [], []
    yielded = set()
    pending = None  # last yielded Msg
    for step, cmd in enumerate(script):
        world.step = step
        try:
            if cmd[0] == "send":
                v = cmd[1]
                if v is not None and pending is not None and id(pending) not in world.plan_ids and pending.command in ("stage", "unstage"):
                    if v in status_codes:
                        v = FakeStatus()
                    elif case["wrapper"] == "lazily_stage_wrapper" and pending.command == "stage":
                        v = [world.dev(d) for d in resp.get((pending.obj.n, v), [])]
                m = gen.send(v)
            elif cmd[0] == "throw":
                m = gen.throw(G.make_exc(cmd[1], cmd[2]))
            elif cmd[0] == "close":
                gen.close()
                trace.append(["closed"])
                origins.append(None)
                pending = None
                continue
            else:
                raise ValueError(cmd)
            trace.append(canon_msg(m, world))
            if id(m) in world.plan_ids:
                # a message OBJECT the plan yields again is passed through by plan_mutator unprocessed
                origins.append("plan-again" if (id(m) in yielded or id(m) in world.reyielded) else "plan")
                yielded.add(id(m))
            else:
                origins.append("wrapper")
            pending = m
        except StopIteration as e:
            trace.append(["ret", e.value])
            origins.append(None)
            pending = None
        except BaseException as e:  # noqa: BLE001
            trace.append(G.canon_exc(e)[:3])
            origins.append(None)
            pending = None
    world.step = len(script)  # whatever the collector logs from now on is not part of the run
    out_log = [e for e in log if e[3] < len(script)] if log is not None else None
    del gen
    return trace, origins, out_log


# ----------------------------------------------------------------------------- canonical form for the comparison


def with_origins(trace, origins):
    return [o + [("w" if origins[i] == "wrapper" else "p")] if o[0] == "yld" else o for i, o in enumerate(trace)]


def _is_plan(x):
    return x in ("plan", "plan-again")


def canon_trace(trace, names=None):
    """groups numbered by first occurrence; unsubscribe tokens blanked (set order is not modelled)"""
    groups = {}
    out = []
    for o in trace:
        if o[0] != "yld":
            out.append(list(o))
            continue
        o = list(o)
        if o[4] is not None:
            g = o[4]
            if o[1] == "subscribe":
                # impl: 'name:<str>'; model: index into the names list
                if isinstance(g, str) and names is not None:
                    g = names.index(g[5:])
                o[4] = ["name", g]
            else:
                if g not in groups:
                    groups[g] = len(groups)
                o[4] = groups[g]
        if o[1] == "unsubscribe" and (len(o) < 8 or o[7] == "w"):
            o[3] = None
        out.append(o)
    return out


def unsub_summary(script, trace):
    """sorted tokens of the unsubscribe messages if the block is complete, else None"""
    received = []
    for i, o in enumerate(trace):
        if o[0] == "yld" and o[1] == "subscribe" and o[7] == "w" and i + 1 < len(script) and script[i + 1][0] == "send":
            if script[i + 1][1] not in received:
                received.append(script[i + 1][1])
    un = [o[3] for o in trace if o[0] == "yld" and o[1] == "unsubscribe" and o[7] == "w"]
    if len(un) == len(received):
        return sorted(un, key=lambda t: (t is None, t))
    return None


# ----------------------------------------------------------------------------- the property on the implementation's trace


def _death(script, trace):
    fresh = True
    for i, (cmd, obs) in enumerate(zip(script, trace)):
        if fresh:
            if cmd[0] == "send" and cmd[1] is not None:
                continue
            if cmd[0] in ("throw", "close"):
                return i
            fresh = False
        if obs[0] in ("ret", "raise", "closed"):
            if cmd[0] == "close" and obs == ["raise", "RuntimeError", G.TAG_CLOSE_IGNORED]:
                return None
            return i
    return None


def _roots(case):
    par = dict((d, p) for d, p in case.get("parents", []))

    def root(d):
        while par.get(d) is not None:
            d = par[d]
        return d

    return root


def _wrapped_end(case, script, trace, origins, log, phase_cmds):
    """How the wrapped part (the wrapper's own start-up messages `phase_cmds`, then the plan) ended, as the
    wrapper's try statement sees it: None (still running) or (kind, cls/value, tag, step)."""
    cands = []
    if log:
        cands.append(tuple(log[0]))
    for i in range(1, min(len(script), len(trace) + 1)):
        prev = trace[i - 1]
        if prev[0] != "yld":
            break
        startup = origins[i - 1] == "wrapper" and prev[1] in phase_cmds
        if script[i][0] == "close":
            if startup:
                cands.append(("exc", "GeneratorExit", 0, i))
            break
        if script[i][0] == "throw":
            cls = script[i][1]
            if startup:
                cands.append(("exc", cls, script[i][2], i))
                break
            if case["wrapper"] == "lazily_stage_wrapper" and cls not in G.EXCEPTION_CLASSES and cls not in G.GENEXIT_CLASSES:
                # plan_mutator does not pass a non-Exception BaseException on: it leaves at once
                cands.append(("exc", cls, script[i][2], i))
                break
    if not cands:
        return None
    return min(cands, key=lambda c: c[3])


def _via_close(cmd):
    """close(), or a GeneratorExit (sub)class thrown in: inner generators are close()d, what they yield is swallowed"""
    return cmd[0] == "close" or (cmd[0] == "throw" and cmd[1] in G.GENEXIT_CLASSES)


def _is_genexit(end):
    return end is not None and end[0] == "exc" and end[1] in G.GENEXIT_CLASSES


def _cleanup_checks(w, down_cmd, downs, down_idx, expect_down, wend, script, trace, death, as_multiset=False):
    """the undo messages `downs` (at trace indices `down_idx`) against what the property demands"""
    bad = []
    if wend is None:
        if downs:
            bad.append((f"{w}:{down_cmd}-before-wrapped-part-ended", f"{downs} in {trace}"))
        return bad
    if _via_close(script[wend[3]]):
        return bad  # what the wrapper yields while being closed is not observable
    if down_idx and down_idx[0] < wend[3]:
        bad.append((f"{w}:{down_cmd}-before-wrapped-part-ended", f"{down_cmd} at step {down_idx[0]}, wrapped part ended at step {wend[3]}"))
    if _is_genexit(wend):
        if downs:
            bad.append((f"{w}:{down_cmd}-on-close", f"wrapped part ended with {wend[:3]} but {down_cmd} {downs} were emitted"))
        return bad
    if as_multiset:
        key = lambda t: (t is None, t if t is not None else 0)  # noqa: E731
        ok = sorted(downs, key=key) == sorted(expect_down, key=key) if len(downs) == len(expect_down) else (len(downs) < len(expect_down) and len(set(map(str, downs))) == len(downs) and all(d in expect_down for d in downs))
    else:
        ok = downs == expect_down[: len(downs)]
    if not ok:
        bad.append((f"{w}:wrong-{down_cmd}-sequence", f"{down_cmd} {downs}, expected (a prefix of) {expect_down}; wrapped part ended with {wend[:3]}"))
    elif len(downs) < len(expect_down):
        # incomplete is only legitimate if the cleanup was disturbed or the script stopped
        end_of_trace = len(trace)
        undisturbed = all(c[0] == "send" for c in script[wend[3] + 1 : end_of_trace])
        if death is not None and undisturbed:
            bad.append((f"{w}:{down_cmd}-incomplete", f"wrapper finished undisturbed after the wrapped part ended with {wend[:3]}: {down_cmd} {downs}, expected {expect_down}; trace {trace}"))
    return bad


def oracle(case, script, trace, origins, log):
    """the property on the implementation's trace; returns [(sig, text)]"""
    w = case["wrapper"]
    bad = []
    # `send(non-None)` to the just-created generator raises TypeError and leaves it fresh: not part of the run
    k = 0
    while k < len(script) and k < len(trace) and script[k][0] == "send" and script[k][1] is not None and trace[k][:2] == ["raise", "TypeError"]:
        k += 1
    if k:
        script, trace, origins = script[k:], trace[k:], origins[k:]
        log = [e[:3] + [e[3] - k] for e in log] if log else log
    own = [i for i, o in enumerate(trace) if o[0] == "yld" and origins[i] == "wrapper"]
    plan_idx = [i for i, o in enumerate(trace) if o[0] == "yld" and _is_plan(origins[i])]
    death = _death(script, trace)
    finished = death is not None

    def own_of(cmd):
        return [i for i in own if trace[i][1] == cmd]

    if w == "run_wrapper":
        end = tuple(log[0]) if log else None
        opens, closes = own_of("open_run"), own_of("close_run")
        if trace and trace[0][0] == "yld" and not (opens and opens[0] == 0):
            bad.append(("run_wrapper:first-message-not-open_run", f"first message is {trace[0]}"))
        if len(opens) > 1:
            bad.append(("run_wrapper:open_run-twice", f"{len(opens)} open_run messages"))
        if len(closes) > 1:
            bad.append(("run_wrapper:close_run-more-than-once", f"{len(closes)} close_run messages of the wrapper: {trace}"))
        if end is None and closes:
            bad.append(("run_wrapper:close_run-before-plan-ended", f"close_run at {closes} but the plan has not ended"))
        if end is not None and not _via_close(script[end[3]]):
            if end[0] == "ret":
                want, kind = [None, None], "return"
            elif end[1] in G.GENEXIT_CLASSES or end[1] not in G.EXCEPTION_CLASSES:
                want, kind = None, end[1]
            elif end[1] == "RequestStop":
                want, kind = ["success", None], end[1]
            elif end[1] == "RequestAbort":
                want, kind = ["abort", None], end[1]
            else:
                want, kind = ["fail", end[2]], "Exception"
            if want is None:
                if closes:
                    bad.append((f"run_wrapper:close_run-after-{kind}", f"plan ended with {end[:3]} but the wrapper emitted close_run"))
            elif len(closes) != 1:
                bad.append((f"run_wrapper:no-close_run-after-{kind}", f"plan ended with {end[:3]}: {len(closes)} close_run messages; trace {trace}"))
            else:
                c = trace[closes[0]]
                if [c[5], c[6]] != want:
                    bad.append((f"run_wrapper:wrong-exit_status-after-{kind}", f"plan ended with {end[:3]}: close_run(exit_status={c[5]}, reason={c[6]}), expected {want}"))
                if closes[0] != end[3]:
                    bad.append(("run_wrapper:close_run-not-right-after-plan-end", f"plan ended at step {end[3]}, close_run at {closes[0]}"))
                j = closes[0] + 1
                if finished and death == j and script[j][0] == "send":
                    uid = script[1][1] if len(script) > 1 and script[1][0] == "send" else None
                    exp = ["ret", uid] if end[0] == "ret" else ["raise", end[1], end[2]]
                    if trace[j] != exp:
                        bad.append(("run_wrapper:result-not-preserved", f"wrapper ended with {trace[j]}, expected {exp}"))
        return bad

    root = _roots(case)
    if w == "stage_wrapper":
        expect = []
        for d in case["devices"]:
            if root(d) not in expect:
                expect.append(root(d))
        ups = [trace[i][2] for i in own_of("stage")]
        if ups != expect[: len(ups)]:
            bad.append((f"{w}:wrong-stage-sequence", f"stage messages {ups}, expected a prefix of {expect} (distinct root ancestors of {case['devices']})"))
        wend = _wrapped_end(case, script, trace, origins, log, ("stage", "wait"))
        di = own_of("unstage")
        bad += _cleanup_checks(w, "unstage", [trace[i][2] for i in di], di, list(reversed(expect)), wend, script, trace, death)
        return bad
    if w == "suspend_wrapper":
        expect = list(case["devices"])
        ups = [trace[i][3] for i in own_of("install_suspender")]
        if ups != expect[: len(ups)]:
            bad.append((f"{w}:wrong-install-sequence", f"install_suspender {ups}, expected a prefix of {expect}"))
        wend = _wrapped_end(case, script, trace, origins, log, ("install_suspender",))
        di = own_of("remove_suspender")
        downs = [trace[i][3] for i in di]
        bad += _cleanup_checks(w, "remove_suspender", downs, di, expect, wend, script, trace, death)
        return bad
    if w == "subs_wrapper":
        names = subs_names()
        expect = [[f, n] for n, f in case["subs"]]
        ui = own_of("subscribe")
        ups = [[trace[i][3], names.index(trace[i][4][5:])] for i in ui]
        if ups != expect[: len(ups)]:
            bad.append((f"{w}:wrong-subscribe-sequence", f"subscribe {ups}, expected a prefix of {expect}"))
        received = []
        for i in ui:
            if i + 1 < len(script) and script[i + 1][0] == "send" and script[i + 1][1] not in received:
                received.append(script[i + 1][1])
        wend = _wrapped_end(case, script, trace, origins, log, ("subscribe",))
        di = own_of("unsubscribe")
        bad += _cleanup_checks(w, "unsubscribe", [trace[i][3] for i in di], di, received, wend, script, trace, death, as_multiset=True)
        return bad

    if w == "lazily_stage_wrapper":
        resp = {(row[0], row[1]): row[2] for row in case.get("stageResp", [])}
        staged = []  # what the stage responses reported, in order (`devices_staged`)
        staged_roots = []
        for i, o in enumerate(trace):
            if o[0] != "yld":
                continue
            nxt = script[i + 1] if i + 1 < len(script) else None
            if origins[i] == "wrapper" and o[1] == "stage":
                r = o[2]
                if i + 1 < len(trace) or nxt is None:
                    pass
                if nxt is not None and nxt[0] == "send":
                    if r in staged_roots:
                        trigger = trace[i + 1][2] if i + 1 < len(trace) and trace[i + 1][0] == "yld" else None
                        cov = trigger is not None and trigger in staged
                        bad.append(
                            (
                                "lazily_stage_wrapper:root-staged-twice:" + ("although-stage-response-lists-the-component" if cov else "component-not-in-stage-response"),
                                f"dev{r} staged again at step {i} (for a message on dev{trigger}); the earlier stage responses reported {staged}",
                            )
                        )
                    staged_roots.append(r)
                    staged += [r] if nxt[1] is None else resp.get((r, nxt[1]), [])
                    if i + 1 < len(trace) and trace[i + 1][0] == "yld":
                        t = trace[i + 1]
                        if not (_is_plan(origins[i + 1]) and t[1] in LAZY_COMMANDS and t[2] is not None and root(t[2]) == r):
                            bad.append(("lazily_stage_wrapper:stage-not-followed-by-its-message", f"stage dev{r} followed by {t}"))
            elif origins[i] == "plan" and o[1] in LAZY_COMMANDS and o[2] is not None:  # (first time this object is yielded)
                if root(o[2]) not in staged_roots:
                    bad.append(("lazily_stage_wrapper:device-used-before-its-root-was-staged", f"{o} at step {i}, staged roots {staged_roots}"))
            elif origins[i] == "wrapper" and o[1] not in ("stage", "unstage", "wait"):
                bad.append(("lazily_stage_wrapper:unexpected-own-message", f"{o}"))
        wend = _wrapped_end(case, script, trace, origins, log, ())
        di = own_of("unstage")
        bad += _cleanup_checks(w, "unstage", [trace[i][2] for i in di], di, list(reversed(staged)), wend, script, trace, death)
        return bad

    if w in ("monitor_during_wrapper", "fly_during_wrapper"):
        devs = list(case["devices"])
        if w == "monitor_during_wrapper":
            after = [["monitor", d] for d in devs]
            before = [["unmonitor", d] for d in devs]
        else:
            after = [["kickoff", d] for d in devs] + ([["wait", None]] if devs else [])
            before = [["complete", d] for d in devs] + ([["wait", None]] if devs else []) + [["collect", d] for d in devs]
        for i in plan_idx:
            o = trace[i]
            if origins[i] == "plan-again":
                continue  # plan_mutator does not process a message object twice (msgs_seen is keyed by id)
            if o[1] == "close_run":
                lo = i - len(before)
                got = [[t[1], t[2]] for t in trace[max(0, lo) : i]]
                src = [origins[j] for j in range(max(0, lo), i)]
                if lo < 0 or got != before or any(x != "wrapper" for x in src):
                    bad.append((f"{w}:close_run-not-preceded-by-{before[0][0] if before else 'nothing'}-of-every-device", f"close_run at step {i} preceded by {got}, expected {before}"))
                elif any(script[j + 1][0] != "send" for j in range(lo, i)):
                    bad.append((f"{w}:close_run-emitted-although-a-cleanup-message-failed", f"step {i}: {trace}"))
                elif w == "fly_during_wrapper" and devs:
                    # "complete AND WAIT": the wait that follows the complete messages is for THEIR group
                    gs = {trace[lo + k][4] for k in range(len(devs))}
                    wg = trace[lo + len(devs)][4]
                    if len(gs) != 1 or wg not in gs or wg is None:
                        bad.append(("fly_during_wrapper:wait-before-collect-is-not-for-the-complete-group", f"step {i}: complete messages carry group(s) {sorted(map(str, gs))}, the wait before collect waits for {wg!r}"))
            if o[1] == "open_run":
                k = 0
                while k < len(after) and i + 1 + k < len(trace) and script[i + 1 + k][0] == "send":
                    t = trace[i + 1 + k]
                    if t[0] != "yld" or [t[1], t[2]] != after[k] or origins[i + 1 + k] != "wrapper":
                        bad.append((f"{w}:open_run-not-followed-by-{after[0][0]}-of-every-device", f"open_run at step {i} followed by {trace[i + 1 : i + 1 + len(after)]}, expected {after}"))
                        break
                    k += 1
                if w == "fly_during_wrapper" and devs and k == len(after):
                    gs = {trace[i + 1 + q][4] for q in range(len(devs))}
                    wg = trace[i + 1 + len(devs)][4]
                    if len(gs) != 1 or wg not in gs or wg is None:
                        bad.append(("fly_during_wrapper:wait-after-kickoff-is-not-for-the-kickoff-group", f"step {i}: kickoff messages carry group(s) {sorted(map(str, gs))}, the wait after them waits for {wg!r}"))
        return bad
    return bad


# ----------------------------------------------------------------------------- cases

STEP = [["send", 7], ["throw", "E1", 5], ["throw", "RequestStop", 6], ["close"]]
STEP_G = STEP + [["throw", "GeneratorExit", 0]]
PARENTS = [[0, None], [1, 0], [2, 0], [3, None], [4, 3], [5, None]]


def _stage_resp():
    par = dict((d, p) for d, p in PARENTS)

    def root(d):
        while par[d] is not None:
            d = par[d]
        return d

    rows = []
    for r in [d for d, p in PARENTS if p is None]:
        full = [r] + [d for d, _ in PARENTS if d != r and root(d) == r]
        rows.append([r, 7, full])  # 7: the root and every component
        rows.append([r, 8, [r]])  # 8: the root only
        rows.append([r, 9, list(reversed(full))])
    return rows


def _assign(rng, ast, alphabet):
    """decode table for the payload numbers 1..n of a renumbered plan"""
    n = G.size(ast) + 2
    rows = []
    for k in range(1, n + 1):
        cmd, objs, nums = rng.choice(alphabet)
        rows.append([k, cmd, rng.choice(objs), rng.choice(nums)])
    return rows


ALPHA = {
    "run_wrapper": [("null", [None], [1, 2]), ("read", [0, 1], [None]), ("set", [1, 3], [4, -2]), ("close_run", [None], [None]), ("open_run", [None], [None])],
    "stage_wrapper": [("read", [0, 1, 4], [None]), ("set", [2, 3], [1]), ("null", [None], [3]), ("stage", [5], [None]), ("unstage", [5], [None])],
    "lazily_stage_wrapper": [("read", [0, 1, 2, 4], [None]), ("read", [1, 2], [None]), ("set", [1, 3, 5], [2]), ("trigger", [2, 4], [None]), ("kickoff", [5], [None]), ("null", [None], [1]), ("stage", [3], [None]), ("create", [None], [None])],
    "subs_wrapper": [("null", [None], [1]), ("read", [0], [None]), ("subscribe", [None], [None]), ("unsubscribe", [None], [None])],
    "suspend_wrapper": [("null", [None], [1]), ("read", [0], [None]), ("install_suspender", [None], [None])],
    "monitor_during_wrapper": [("open_run", [None], [None]), ("close_run", [None], [None]), ("read", [0, 1], [None]), ("null", [None], [2]), ("monitor", [2], [None])],
    "fly_during_wrapper": [("open_run", [None], [None]), ("close_run", [None], [None]), ("read", [0, 1], [None]), ("null", [None], [2]), ("kickoff", [2], [None])],
}


def _config(rng, w):
    c = {"wrapper": w, "parents": PARENTS, "depth": 4, "devices": [], "subs": [], "md": None, "stageResp": _stage_resp(), "statusCodes": []}
    if w == "run_wrapper":
        c["md"] = rng.choice([None, 3])
    elif w == "stage_wrapper":
        c["devices"] = [rng.randrange(6) for _ in range(rng.randrange(0, 5))]
        c["statusCodes"] = rng.choice([[], [8], [7, 8]])
    elif w == "subs_wrapper":
        c["subs"] = sorted([[rng.randrange(0, 3), rng.randrange(0, 4)] for _ in range(rng.randrange(0, 4))], key=lambda x: x[0])
    elif w == "suspend_wrapper":
        c["devices"] = [rng.randrange(4) for _ in range(rng.randrange(0, 4))]
    elif w in ("monitor_during_wrapper", "fly_during_wrapper"):
        c["devices"] = rng.sample(range(6), rng.randrange(0, 3))
    return c


def _rand_script(rng, length, genexit):
    out = [["send", None]] if rng.random() > 0.04 else [rng.choice([["send", 7], ["throw", "E1", 5], ["close"]])]
    while len(out) < length:
        x = rng.random()
        if x < 0.72:
            out.append(["send", rng.choice([None, 7, 7, 8, 9])])
        elif x < 0.95:
            c = rng.choice(["E1", "E2", "RequestStop", "RequestAbort", "RuntimeError", "BaseExc"] + (["GeneratorExit", "PlanHalt"] if genexit else []))
            out.append(["throw", c, 0 if c == "GeneratorExit" else rng.randrange(1, 9)])
        else:
            out.append(["close"])
            break
    return out


def _plan_for(rng, w, budget):
    """random plan biased towards the shapes that matter for the wrapper"""
    ast = G.rand_plan(rng, budget)
    return ast


def _cases(ctx):
    rng = ctx.rng
    deep = ctx.tier == "thorough" or ctx.deep
    out = []
    for path in sorted((C.VERIF / "corpus" / "C23").glob("*.json")):
        d = json.loads(path.read_text())
        d["scripts"] = d.get("scripts") or [d.pop("script")]
        out.append(("corpus", d))
    # small exhaustive: every plan of the grammar with <= 2 (3) nodes x every script of length 5 (6)
    L = 6 if deep else 5
    scripts = list(G.enum_scripts(L, STEP))
    plans = [G.renumber(s) for n in range(1, 4 if deep else 3) for s in G.enum_stmts(n)]
    fixed = {
        "run_wrapper": dict(md=3, msgs=[[1, "read", 1, None], [2, "set", 3, 4], [3, "null", None, 1]]),
        "stage_wrapper": dict(devices=[1, 3, 2], msgs=[[1, "read", 1, None], [2, "set", 3, 4], [3, "null", None, 1]]),
        "lazily_stage_wrapper": dict(msgs=[[1, "read", 1, None], [2, "set", 4, 4], [3, "trigger", 2, None]]),
        "subs_wrapper": dict(subs=[[0, 1], [2, 0]], msgs=[[1, "read", 1, None]]),
        "suspend_wrapper": dict(devices=[2, 0], msgs=[[1, "read", 1, None]]),
        "monitor_during_wrapper": dict(devices=[4, 1], msgs=[[1, "open_run", None, None], [2, "close_run", None, None], [3, "read", 1, None]]),
        "fly_during_wrapper": dict(devices=[5], msgs=[[1, "open_run", None, None], [2, "close_run", None, None], [3, "read", 1, None]]),
    }
    for w in WRAPPERS:
        for ast in plans:
            c = _config(rng, w)
            c.update(fixed[w])
            if w == "stage_wrapper":
                c["statusCodes"] = []
            c["plan"] = ast
            if G.size(ast) <= 2:
                c["scripts"] = scripts
            else:
                c["scripts"] = rng.sample(scripts, 200 if w in ("run_wrapper", "lazily_stage_wrapper") else 60)
            out.append(("exhaustive", c))
    for _ in range(ctx.budget(700, 12000)):
        w = rng.choice(WRAPPERS + ["lazily_stage_wrapper", "run_wrapper"])
        c = _config(rng, w)
        ast = _plan_for(rng, w, rng.randrange(1, 9))
        if w in ("monitor_during_wrapper", "fly_during_wrapper") and rng.random() < 0.7:
            # open_run ... close_run shapes
            inner = G.rand_stmt(rng, rng.randrange(1, 5))
            ast = G.renumber(G.seq(["yield", 0, True], inner, ["yield", 0, True]))
            c["msgs"] = _assign(rng, ast, ALPHA[w])
            n = G.size(ast)
            c["msgs"][0] = [1, "open_run", None, None]
            last = max(k for k, *_ in c["msgs"] if k <= n)
            c["msgs"][last - 1] = [last, "close_run", None, None]
        else:
            c["msgs"] = _assign(rng, ast, ALPHA[w])
        c["plan"] = ast
        c["scripts"] = [_rand_script(rng, rng.randrange(2, 14), genexit=rng.random() < 0.15) for _ in range(6)]
        out.append(("random", c))
    return out


def _lean(cases):
    reqs = [json.dumps(c) for _, c in cases]
    chunk = max(1, (len(reqs) + 5) // 6)
    parts = [reqs[i : i + chunk] for i in range(0, len(reqs), chunk)]
    with ThreadPoolExecutor(max_workers=6) as ex:
        outs = list(ex.map(lambda part: C.lean_batch(DRIVER, part), parts))
    return [json.loads(line) for part in outs for line in part]


def _one(case, s):
    one = {k: v for k, v in case.items() if k != "scripts"}
    one["script"] = s
    return one


def _judge(res, case, s):
    trace, origins, _ = drive(case, s)
    itrace, iorigins, log = drive(case, s, instrument=True)
    if canon_trace(itrace) != canon_trace(trace):
        res.notes.append(f"instrumented trace differs from plain trace on {json.dumps(_one(case, s))[:300]}")
        log = None
    for sig, text in oracle(case, s, trace, origins, log):
        res.violations.append(C.Violation(sig, f"{case['wrapper']}: {text}", dict(_one(case, s), trace=trace, plan_end=log)))
    return trace, origins, log


def run(ctx, model=True):
    G.quiet_unraisable()
    res = C.Result()
    res.rule = (
        "cases = (wrapper, plan AST, decode table payload->message, device forest of 6 fake devices with shared ancestors, wrapper "
        "arguments, response tables) x scripts.  Corpus; then for each of the 7 wrappers EVERY plan of the grammar with <=2 (quick) "
        "/ <=3 (thorough) nodes x EVERY script of length 5 / 6 over {next, send 7, throw E1, throw RequestStop, close; misuse of "
        "the fresh generator}; then random larger plans (try/finally with yields, nested yield from, loops, raises of every class, "
        "shared message objects) with random message tables x random scripts of length 2-13 (sends of None/7/8/9 -- decoded into "
        "stage response lists `root+components` / `root only` / reversed, or Status objects --, throws of E1/E2/RequestStop/"
        "RequestAbort/RuntimeError/BaseExc, sometimes GeneratorExit/PlanHalt, close).  Each script runs on the REAL wrapper "
        "(plain and with a pass-through layer recording how the plan ended) and in the Lean model.  Non-trivial: the script throws "
        "or closes, or the plan raises."
    )
    names = subs_names()
    cases = _cases(ctx)
    lean = _lean(cases) if model else None
    for ci, (label, case) in enumerate(cases):
        res.count("cases:" + label + ":" + case["wrapper"])
        feats = G.features(case["plan"])
        if lean is not None and "traces" not in lean[ci]:
            res.disagreements.append({"case": case, "model_error": lean[ci]})
            continue
        for si, s in enumerate(case["scripts"]):
            res.seen(_one(case, s), any(c[0] != "send" for c in s) or "raise" in feats)
            trace, origins, log = _judge(res, case, s)
            res.count("plan-end:" + ("running" if not log else log[0][0] + (":" + log[0][1] if log[0][0] == "exc" else "")))
            if lean is not None:
                mt = lean[ci]["traces"][si]
                trace = with_origins(trace, origins)
                a, b = canon_trace(mt), canon_trace(trace, names)
                if a != b:
                    res.disagreements.append({"case": _one(case, s), "what": "trace", "model": a, "impl": b})
                elif unsub_summary(s, mt) != unsub_summary(s, trace):
                    res.disagreements.append({"case": _one(case, s), "what": "unsubscribed tokens", "model": unsub_summary(s, mt), "impl": unsub_summary(s, trace)})
                if len(res.samples) < 3 and label == "random" and log and len(trace) > 4:
                    res.samples.append({"case": _one(case, s), "impl": b, "model": a})
    res.exhaustive = True
    return res


def run_impl_only(ctx):
    return run(ctx, model=False)


def replay(ctx, data):
    G.quiet_unraisable()
    res = C.Result()
    case = dict(data["case"])
    if "plan" not in case:
        return res
    s = case.pop("script")
    for k in ("trace", "plan_end"):
        case.pop(k, None)
    _judge(res, case, s)
    return res
