"""C12 -- device errors reach the plan at the message that caused them."""
from __future__ import annotations

import copy

import common as C
import re_probes as RP
import fault_probes as FP
import engine_common as E
import engine_extract
from engine_common import M, seq
from props import c13lib as L

MANIFEST = {
    "text": "FULL for the modelled engine. Lean (Props/C12.lean), over the program-counter model of RunEngine._run, for "
    "EVERY plan (any generator behaviour) and engine state: C12_sync_error -- a command that raises e makes "
    "processMsg store the exception instance in the response slot of the plan that yielded the message, the loop top "
    "only sleeps, and the next afterSleep throws e into that same generator with no other message logged in "
    "between; C12_status_failure / _status_action_fails -- a status finishing unsuccessfully while the call runs stores "
    "FailedStatus in self._exception; C12_failure_survives_command_completion / C12_commands_keep_failure -- nothing "
    "but the loop top consumes it, no message is processed first; C12_wait_resumes_on_failure -- a wait on the group "
    "is resumed at once; C12_failure_has_priority -- the next afterSleep throws it into the top plan whatever the "
    "pending response is (`stashed_exception or resp`); C12_unhandled_ends_call -- an ordinary exception leaving the "
    "last plan ends the loop, exit status = the one of the `except Exception` handler (extracted: fail), cleanup, "
    "state idle, task result and RE() outcome raise that exception; C12_handled_continues; C12_pardoned_after_exit -- "
    "after the cleanup started failures store nothing. The corner of DESIGN Appendix A is stated as "
    "C12_swallowed_exception_corner (a plan ABOVE another one that swallows a throw and returns gets StopIteration "
    "thrown into the plan below); it is reproduced on the real code only with a custom command that pushes a plan "
    "(no public API path reaches it: C12_engine_plans_cannot_swallow). Tie: model and real RunEngine are run on "
    "generated scenarios in which every device operation raises / returns failing or pending-then-failing statuses, "
    "with handlers that recover, ignore or re-raise; the Python oracle checks the property on the implementation.",
    "note": "Trusted: Lean kernel; engine_extract.py; the hand-written _run machine, tied by the correspondence run. "
    "Statuses complete on the loop thread (no real threads); error_on_timeout / watch groups of `wait`, flyers, "
    "coroutine devices are not modelled.",
    "technique": "Lean 4 proof over a program-counter model of RunEngine._run with source-extracted tables + differential runs against the real RunEngine",
}
LEAN_MODULES = ["BlueskyVerif.Props.C12"]
DRIVER_MODULES = E.DRIVER_MODULES
DRIVER = E.DRIVER
ASSUMPTIONS = [
    "requests from other threads act atomically while _run is suspended at an await",
    "synchronous fake devices; statuses complete on the loop thread, only when the device mode / the script says so",
]
PLAIN_FAILURES = {"DeviceError", "FailedStatus", "PlanError", "IllegalMessageSequence", "InvalidCommand", "ValueError", "RuntimeError", "WaitForTimeoutError", "TransitionError"}


def extract(ctx):
    return engine_extract.extract()


def first_action(st):
    """what a statement does first: ('msg', id) | ('raise',) | ('end',)"""
    if st is None:
        return ("end",)
    k = st["k"]
    if k == "msg":
        return ("msg", st.get("id"))
    if k == "raise":
        return ("raise",)
    if k == "seq":
        for s in st["body"]:
            a = first_action(s)
            if a[0] != "end":
                return a
        return ("end",)
    if k == "try":
        a = first_action(st["body"])
        return a if a[0] != "end" else first_action(st.get("fin"))
    return ("end",)


def handlers(st, out):
    if st is None:
        return out
    if st["k"] == "seq":
        for s in st["body"]:
            handlers(s, out)
    elif st["k"] == "try":
        if st.get("handler") is not None:
            out.append(st["handler"])
        handlers(st["body"], out)
        handlers(st.get("handler"), out)
        handlers(st.get("fin"), out)
    return out


def has_try(st):
    if st is None:
        return False
    if st["k"] == "try":
        return True
    if st["k"] == "seq":
        return any(has_try(s) for s in st["body"])
    return False


# ----------------------------------------------------------------------------- oracle (on the implementation)
def oracle(sc, o):
    bad = []
    A = L.analyse(sc, o)
    resumes = [(t, mid, kind, val) for t, mid, kind, val in A.yields if mid is not None and mid >= 0 and kind in ("send", "throw") and not (kind == "throw" and val in ("GeneratorExit", "PlanHalt"))]
    caught = [(t, val) for t, mid, kind, val in A.yields if kind == "caught"]
    prio = L.INTERRUPTIONS | {"FailedStatus"}

    # (a) synchronous errors: the message whose device call raised gets DeviceError at its own yield
    for mid, (t0, cmd, obj, run) in A.first.items():
        exp = L.expected(A, mid)
        if exp != ("throw", "DeviceError"):
            continue
        mine = [r for r in resumes if r[1] == mid]
        if not mine:
            continue  # the plan was closed / the call ended before it could be resumed
        ty, _, kind, val = mine[0]
        if kind == "send":
            bad.append((f"device-error-not-thrown:{cmd}", f"{obj}.{cmd} raised (message {mid}) but the plan's yield received send {val!r}"))
        elif val != "DeviceError" and val not in prio:
            bad.append((f"device-error-replaced:{cmd}:{val}", f"{obj}.{cmd} raised (message {mid}) but the plan's yield received throw {val}"))
        else:
            later = [r for r in resumes if t0 < r[0] < ty and r[1] not in A.helper_mids]
            if later:
                bad.append((f"device-error-late:{cmd}", f"{obj}.{cmd} raised (message {mid}) but plan message {later[0][1]} was resumed first"))
    # any raise (also in a replayed or helper message) sits in the response slot of the plan that yielded the message
    # (or kills the rewind / helper plan above): plans pushed LATER (suspender helpers) may still run first, but the
    # next resume of the MAIN plan must be a throw -- unless a helper plan with an except clause swallowed it
    helper_handles = any(a["a"] == "suspend" and (handlers(a.get("pre"), []) or handlers(a.get("post"), [])) for acts in sc.get("script", {}).values() for a in acts)
    if not helper_handles:
        for lt, e in A.ledger:
            if e[2] != "raise":
                continue
            nxt = [r for r in resumes if r[0] > lt and r[1] not in A.helper_mids]
            if nxt and nxt[0][2] == "send":
                bad.append((f"device-error-swallowed:{e[1]}", f"{e[0]}.{e[1]} raised at tick {lt} but the next resume of the main plan (message {nxt[0][1]}) was send {nxt[0][3]!r}"))

    # (b) statuses that finish unsuccessfully while the call is running
    fails = []  # (tick of the failure, status id)
    done_at = {}
    for lt, e in A.ledger:
        if lt in A.status_of_ledger:
            k = A.status_of_ledger[lt]
            mode = L.mode_at(A, e[0], e[1], lt)
            if mode in ("done", "fail"):
                done_at[k] = lt
                if mode == "fail":
                    fails.append((lt, k))
    created = {k: lt for lt, k in A.status_of_ledger.items()}
    script = {int(i): v for i, v in sc.get("script", {}).items()}
    for i, (at, kind) in enumerate(A.arrivals):
        acts = script.get(i, [])
        if kind == "quiesce" and not acts:
            # the harness releases everything that is still pending (successfully) so that the scenario terminates
            for k, ct in created.items():
                if ct < at and k not in done_at:
                    done_at[k] = at
            continue
        for a in acts:
            if a["a"] != "status":
                continue
            k = a["id"]
            if k in created and created[k] < at and k not in done_at:
                done_at[k] = at
                if not a["ok"]:
                    fails.append((at, k))
    fails.sort()
    for tf, k in fails:
        nxt = [r for r in resumes if r[0] > tf]
        if not nxt:
            continue  # nothing was resumed any more: the plan had finished / the call was being torn down
        ty, mid, kind, val = nxt[0]
        cmd = A.first.get(mid, (0, "?"))[1]
        # no later than the wait on its group: if _run is blocked in `wait` on the group of this status when it
        # fails, the wait ends at once -- the loop does not go quiescent again before the plan is resumed
        before = [m for m in A.msgs if m[0] < tf]
        if before and before[-1][1] == "wait" and before[-1][4] is not None:
            wgroup = A.stmts.get(before[-1][4], {}).get("kw", {}).get("group")
            owner = [m for m in A.msgs if m[0] < created[k] and m[4] is not None]
            sgroup = A.stmts.get(owner[-1][4], {}).get("kw", {}).get("group") if owner else None
            if owner and wgroup == sgroup:
                again = [at for at, kind2 in A.arrivals if tf < at < ty and kind2 == "quiesce"]
                if again:
                    bad.append(("status-failure-late:wait-not-resumed", f"status#{k} (group {sgroup!r}) failed at tick {tf} while _run was blocked in wait({wgroup!r}), but the engine went quiescent again (tick {again[0]}) before the plan was resumed"))
        if kind == "send":
            # a status failing between the end of the plan and the cleanup cannot reach anybody; a failure of a
            # status whose completion callback has not run before the exit sleep is pardoned
            bad.append((f"status-failure-not-thrown:{cmd}", f"status#{k} failed at tick {tf} but the next plan resume (message {mid}, {cmd}) was send {val!r}"))
        elif val not in prio and val != "DeviceError":
            bad.append((f"status-failure-replaced:{val}", f"status#{k} failed at tick {tf} but the next plan resume (message {mid}) was throw {val}"))

    # (c) an exception the plan does not handle ends the call with that exception
    plan = sc["plan"]
    hs = handlers(plan, [])
    main_resumes = [r for r in resumes if r[1] not in A.helper_mids]
    if main_resumes and not has_try(plan):
        ty, mid, kind, val = main_resumes[-1]
        if kind == "throw" and val in PLAIN_FAILURES:
            after = [(tr, r) for tr, r in A.returns if tr > ty]
            if after:
                tr, r = after[0]
                if r[1] != "raise:" + val:
                    bad.append((f"unhandled-exception-lost:{val}", f"{val} was thrown into a plan without handlers (message {mid}) but {r[0]} ended with {r[1]}"))
                elif r[2] != "idle":
                    bad.append((f"unhandled-exception-state:{r[2]}", f"{r[0]} raised {val} but the engine is {r[2]}"))
                else:
                    closed = set(o.get("engine_closed", []))
                    for dt, d in A.docs:
                        if d["k"] == "stop" and d["run"] in closed and d["exit"] != "fail":
                            bad.append((f"engine-closed-run-not-fail:{d['exit']}", f"{r[0]} raised {val} but the engine closed {d['run']} with exit_status {d['exit']!r}"))
                    cause = o.get("return_causes", [""] * len(o["returns"]))[[x[0] for x in A.returns].index(tr)]
                    if val == "FailedStatus" and cause != "DeviceError":
                        bad.append(("failed-status-cause-lost", f"FailedStatus raised by {r[0]} has cause {cause!r}, expected the status' DeviceError"))
    # (d) a handler that catches continues with its own first message
    firsts = [first_action(h) for h in hs]
    if hs and all(f[0] == "msg" for f in firsts):
        H = {f[1] for f in firsts}
        for tc, cls in caught:
            if cls not in ("DeviceError", "FailedStatus"):
                continue
            prev = [y for y in A.yields if y[0] < tc]
            if not prev or prev[-1][2] != "throw" or prev[-1][3] != cls:
                continue  # not the direct answer to a throw into the plan (e.g. raised while the plan is being closed)
            nm = [m for m in A.msgs if m[0] > tc]
            if not nm or nm[0][4] not in H:
                bad.append((f"handler-not-continued:{cls}", f"a handler caught {cls} at tick {tc} but the next message is {nm[0][1:] if nm else None}"))
    # (e) the corner: StopIteration thrown into a plan
    for t, mid, kind, val in resumes:
        if kind == "throw" and val == "StopIteration":
            bad.append(("stopiteration-thrown-into-plan-below", f"message {mid} received throw StopIteration"))
    # (g) a `wait` on a group is answered True only when every status put into that group before it (and not
    #     waited for earlier) has finished; statuses carry creation / finish ticks
    def _index(st, out):
        if st is None:
            return out
        if st["k"] == "msg":
            out[st.get("id")] = st
        elif st["k"] == "seq":
            for x in st["body"]:
                _index(x, out)
        elif st["k"] == "try":
            for x in (st["body"], st.get("handler"), st.get("fin")):
                _index(x, out)
        return out

    idx = _index(sc["plan"], {})
    mt = list(zip(o["ticks"]["msgs"], o["msgs"]))
    grp_of_status = []
    for stt in o.get("statuses", []):
        if len(stt) < 6:
            break
        created = stt[4]
        before = [m for t, m in mt if t <= created]
        g = None
        if before and before[-1][3] in idx and before[-1][0] in ("set", "trigger"):
            g = idx[before[-1][3]].get("kw", {}).get("group")
        grp_of_status.append(g)
    if len(grp_of_status) == len(o.get("statuses", [])):
        for (ty, y) in zip(o["ticks"]["yields"], o["yields"]):
            mid, kind, val = y[0], y[1], y[2]
            if kind != "send" or val is not True or mid not in idx or idx[mid]["cmd"] != "wait":
                continue
            g = idx[mid].get("kw", {}).get("group")
            # the wait message's own execution tick (last execution before this answer)
            tw = max([t for t, m in mt if m[3] == mid and t < ty], default=None)
            if tw is None:
                continue
            earlier_waits = [t for t, m in mt if m[0] == "wait" and m[3] in idx and idx[m[3]].get("kw", {}).get("group") == g and t < tw]
            since = max(earlier_waits, default=0)
            for k, stt in enumerate(o["statuses"]):
                if grp_of_status[k] == g and since < stt[4] < tw and (stt[5] is None or stt[5] > ty):
                    bad.append((f"wait-returned-before-status-finished", f"wait on group {g!r} (message {mid}) was answered True at tick {ty} while status#{k} ({stt[0]}.{stt[1]}, created at tick {stt[4]}) of that group had not finished"))
                    break
    return bad


# ----------------------------------------------------------------------------- targeted generator
FAIL_MODES = ["raise", "fail", "pending", "done"]


def wrap(rng, st):
    r = rng.random()
    if r < 0.35:
        return st
    h = rng.choice(["null", "raise", "null+raise", "none"])
    handler = {"null": seq(M("null")), "raise": {"k": "raise"}, "null+raise": seq(M("null"), {"k": "raise"}), "none": None}[h]
    fin = seq(M("null")) if (handler is None or rng.random() < 0.3) else None
    return {"k": "try", "body": st, "handler": handler, "fin": fin}


def failing_plan(rng):
    b = []
    if rng.random() < 0.4:
        b.append(wrap(rng, M("stage", "d2")))
    key = rng.choice([None, None, "a"])
    b.append(M("open_run", run=key))
    pending_groups = []
    shared = rng.random() < 0.5   # several statuses in ONE group: a failure must end the wait although others are pending
    if shared:
        b.append(M("checkpoint"))
        b.append(M("set", "m1", 1, group="g"))
        b.append(wrap(rng, M("set", "m2", 4, group="g")))
        if rng.random() < 0.5:
            b.append(M("trigger", "d1", group="g"))
        if rng.random() < 0.7:
            b.append(wrap(rng, M("wait", None, group="g")))
        else:
            pending_groups.append("g")
    for _ in range(rng.choice([1, 2, 2, 3])):
        if rng.random() < 0.7:
            b.append(M("checkpoint"))
        op = rng.choice(["set1", "set1", "set2", "trigger", "read", "sleep"])
        if op == "set1":
            b.append(wrap(rng, M("set", "m1", rng.choice([1, 2, 3]), group="g")))
            pending_groups.append("g")
        elif op == "set2":
            b.append(wrap(rng, M("set", "m2", rng.choice([4, 5]), group="h")))
            pending_groups.append("h")
        elif op == "trigger":
            b.append(wrap(rng, M("trigger", "d1", group="t")))
            pending_groups.append("t")
        elif op == "read":
            b.append(M("create", None, name="primary", run=key))
            b.append(wrap(rng, M("read", "d1", run=key)))
            if rng.random() < 0.5:
                b.append(M("read", "d2", run=key))
            b.append(M("save", run=key))
        else:
            b.append(wrap(rng, M("sleep", None, rng.choice([1, 5]))))
        # wait immediately / later / never
        r = rng.random()
        if pending_groups and r < 0.45:
            g = pending_groups.pop()
            b.append(wrap(rng, M("wait", None, group=g)))
        elif r < 0.6:
            b.append(M("null"))
        elif r < 0.7:
            b.append(M("sleep", None, 2))
    rng.shuffle(pending_groups)
    for g in pending_groups:
        if rng.random() < 0.6:
            b.append(wrap(rng, M("wait", None, group=g)))
    if rng.random() < 0.85:
        b.append(M("close_run", run=key))
    if rng.random() < 0.3:
        b.append(wrap(rng, M("unstage", "d2")))
    body = seq(*b)
    r = rng.random()
    if r < 0.2:
        return {"k": "try", "body": body, "handler": seq(M("null")), "fin": None}
    if r < 0.35:
        return {"k": "try", "body": body, "handler": None, "fin": seq(M("null"))}
    return body


def failing_devices(rng):
    def modes(p_bad):
        return [rng.choice(FAIL_MODES) if rng.random() < p_bad else "done" for _ in range(4)]

    p = rng.choice([0.2, 0.5, 0.8])
    if rng.random() < 0.45:   # everything stays pending until the script completes it
        return {
            "m1": {"kind": "motor", "modes": {"set": ["pending"] * 4}, "pausable": False},
            "m2": {"kind": "motor", "modes": {"set": ["pending"] * 4}},
            "d1": {"kind": "det", "modes": {"trigger": ["pending"] * 4}, "offset": 1},
            "d2": {"kind": "det", "modes": {}, "offset": 2},
            "s1": {"kind": "sig"},
        }
    return {
        "m1": {"kind": "motor", "modes": {"set": modes(p)}, "pausable": False},
        "m2": {"kind": "motor", "modes": {"set": modes(p)}},
        "d1": {"kind": "det", "modes": {"trigger": modes(p), "read": [rng.choice(["done", "done", "raise"]) for _ in range(3)]}, "offset": 1},
        "d2": {"kind": "det", "modes": {"stage": [rng.choice(["done", "raise"])], "unstage": [rng.choice(["done", "done", "raise"])]}, "offset": 2},
        "s1": {"kind": "sig"},
    }


class Gen:
    def __init__(self):
        self.queue = []

    def __call__(self, rng):
        if not self.queue:
            self.refill(rng)
        return self.queue.pop(0)

    def refill(self, rng):
        if rng.random() < 0.2:
            base = {"record_interruptions": rng.random() < 0.5, "devices": E.gen_devices(rng), "plan": E.gen_plan(rng), "script": {}, "decisions": [], "max_arrivals": 300}
        else:
            base = {"record_interruptions": rng.random() < 0.2, "devices": failing_devices(rng), "plan": failing_plan(rng), "script": {}, "decisions": [], "max_arrivals": 300}
        base["decisions"] = [rng.choice(["resume", "resume", "resume", "abort", "stop", "halt"]) for _ in range(6)]
        o = E.run_scenario(E.number(copy.deepcopy(base)))
        arr = o["arrivals"]
        nst = max(1, len(o["statuses"]))
        out = [base]
        points = list(range(len(arr) + 1))
        rng.shuffle(points)
        inner = [i for i, k in enumerate(arr) if k in ("quiesce", "sleep", "ckpt")]
        for at in (inner + points)[:6]:
            sc = copy.deepcopy(base)
            sc["script"] = {str(at): [{"a": "status", "id": rng.randrange(0, nst), "ok": False}]}
            r = rng.random()
            if r < 0.25:  # a second completion (success or failure) elsewhere
                sc["script"].setdefault(str(rng.randrange(0, len(arr) + 1)), []).append({"a": "status", "id": rng.randrange(0, nst), "ok": rng.random() < 0.5})
            elif r < 0.4:  # together with an interruption
                sc["script"].setdefault(str(at + rng.choice([0, 0, 1, 2])), []).append(rng.choice([{"a": "pause", "defer": False}, {"a": "abort"}, {"a": "stop"}, {"a": "halt"}, {"a": "suspend", "fut": 0, "pre": None, "post": seq(M("null")), "just": None}]))
            out.append(sc)
        if len(arr) >= 1:  # a failure landing in the exit sleep, after the plan finished
            sc = copy.deepcopy(base)
            sc["script"] = {str(len(arr) - 1): [{"a": "status", "id": rng.randrange(0, nst), "ok": False}]}
            out.append(sc)
        sc = copy.deepcopy(base)
        sc["script"] = E.gen_script(rng, len(arr), dense=rng.random() < 0.3)
        out.append(sc)
        self.queue = [E.number(s) for s in out]


def run(ctx, model=True):
    res = E.run_property(ctx, "C12", oracle, gen=Gen(), quick=160, thorough=4000, model=model)
    FP.run_probes(ctx, res, [FP.failed_status_delivered], ["odd-status"], 10, 100)
    RP.add_to(res, ["reused-message", "locate", "replayed-group"])
    return res


def run_impl_only(ctx):
    return run(ctx, model=False)


def replay(ctx, data):
    r = RP.replay(data)
    if r is not None:
        return r
    if FP.is_probe(data):
        return FP.replay_probe(ctx, data, [FP.failed_status_delivered])
    return E.replay_property(ctx, data, oracle)
