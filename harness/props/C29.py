"""C29 -- adaptive_scan and tune_centroid terminate and stay within their range.

Tie to the code, re-done on every run:
 (T) translator  harness/props/C29_extract.py re-reads `adaptive_core` / `_tune_core` from the current
     src/bluesky/plans.py and regenerates Pure/AdaptiveGenerated.lean and Pure/TuneGenerated.lean (every
     arithmetic / comparison expression of the two loops; the statement skeleton is recognised, never
     guessed).  The theorems of Props/C29.lean are about models built from these generated expressions.
 (C) correspondence  the REAL plan generators are consumed without a RunEngine (messages answered by this
     harness: every `set` on the motor is recorded, every `read` of the detector is answered with the
     response function at the current motor position) and the Lean model is run on the same parameters and
     the same sequence of readings (oracle `I k p := reading k`).  adaptive_scan: float run, positions
     compared with tolerance 1e-9, decisions (first / backstep / accepted, read from the generator frame) and
     loop exit compared exactly, except at iterations whose decision margin in the exact model is < 1e-9
     (float rounding may decide differently there; counted as `borderline`).  tune_centroid: additionally a
     run of the real code on `fractions.Fraction` inputs, compared EXACTLY with the model.
 Oracle (the property stated on the implementation): every visited position within
     [min(start,stop), max(start,stop)]; the generator finishes within 20 000 messages and within the
     iteration bound of the theorems; tune_centroid's final park position within range for non-negative
     signals; no exception other than the documented ValueError (and ZeroDivisionError for num == 1).
"""
from __future__ import annotations

import collections
import json
import math
import sys
import types
from fractions import Fraction

import common as C
from props import C29_extract

MANIFEST = {
    "text": "PARTIAL (exact arithmetic; threshold hypothesis). Lean theorems over Q-models of adaptive_core and _tune_core "
    "whose every expression is regenerated from plans.py on each run, for ALL response oracles I : N -> Q -> Q, all accepted "
    "parameters and all iteration counts (invariants + induction): adaptive_scan visits only start*s <= p*s < stop*s (FULL); "
    "adaptive_scan finishes within an explicit number of iterations when backstep=False or stop<start or threshold<1 "
    "(PARTIAL: for ascending scans with backstep and threshold>=1 the model -- and the real code -- loops for ever: "
    "finding F21, Counterexamples/C29.lean); tune_centroid finishes within K*(|num-1|+1)+1 iterations for every signal, scans "
    "only inside [min,max](start,stop), parks inside that interval for every signal (the final move is clamped; repaired one-ulp park defect) and, for non-negative signals, exactly at the centroid (FULL in exact arithmetic).",
    "note": "Trusted: Lean kernel; harness/props/C29_extract.py (AST -> Lean for arithmetic/comparison expressions, skeleton "
    "recognition); exact rationals stand in for IEEE doubles (the correspondence run compares the float implementation with "
    "the exact model up to 1e-9 and excuses decisions whose exact margin is < 1e-9; tune_centroid is also run on Fractions and "
    "compared exactly); the motor's read-back equals its set-point; the detector provides the target field with finite values.",
    "technique": "Lean 4 proof over source-translated loop expressions (translator) + correspondence run of the real plan "
    "generators (driven message by message, no RunEngine) against the executable model",
}
LEAN_MODULES = ["BlueskyVerif.Props.C29"]
DRIVER_MODULES = ["BlueskyVerif.Pure.Adaptive", "BlueskyVerif.Pure.Tune"]
DRIVER = "Drivers/C29.lean"
ASSUMPTIONS = [
    "exact rational arithmetic stands in for IEEE-754 doubles (decimal literals 0.2, 0.8, 1.1 are the rationals 1/5, 4/5, 11/10)",
    "detector readings are finite numbers and the detector's read() contains the target field",
    "the motor's read-back (tune_centroid's `position`) equals the position it was last set to",
    "the plan is consumed by a conforming driver: every message is answered, `set`/`wait` complete",
]
TRUSTED = ["harness/props/C29_extract.py translation of plans.py loop expressions to Lean (Rat) terms"]

if hasattr(sys, "set_int_max_str_digits"):
    sys.set_int_max_str_digits(0)  # exact rationals of long runs have many digits

MSG_CAP = 20000
MODEL_MAX_ITERS = 400  # the exact model is run on (and compared over) at most this many loop iterations per case
FRAC_MAX_POINTS = 150  # the exact (Fraction) run of tune_centroid is made when the proven bound is below this
POS_TOL = 1e-9
MARGIN_TOL = 1000  # margins travel scaled by 1e12: 1000 = 1e-9
SIG_F21 = "adaptive-nonterminating:backstep-ascending-threshold>=1"
SIG_STATIONARY = "adaptive-nonterminating:backstep-ascending-threshold==1:stationary-step"


def _stationary_tail(obs, k=20):
    """the last k iterations measured the same position with the same step"""
    pos, steps = obs.get("pos", []), obs.get("steps", [])
    return len(pos) >= k and len(steps) >= k and len(set(pos[-k:])) == 1 and len(set(steps[-k:])) == 1
SIG_ULP = "tune-out-of-range:park:float-rounding-of-boundary-centroid"


def extract(ctx):
    return C29_extract.extract(ctx)


# ----------------------------------------------------------------------------- numbers


def Q(s) -> Fraction:
    return Fraction(s)


def qs(x) -> str:
    f = Fraction(x)
    return f"{f.numerator}/{f.denominator}"


# ----------------------------------------------------------------------------- response functions
# A response spec is a JSON-able dict; all numeric parameters are rational strings.  `p` is a float or a
# Fraction; the result has the same type (only +,-,*,/,abs,comparisons, so Fractions stay exact).


def _num(s, frac):
    f = Fraction(s)
    return f if frac else float(f)


def resp_eval(spec, k, p, frac):
    kind = spec["kind"]
    n = lambda key: _num(spec[key], frac)  # noqa: E731
    if kind == "const":
        return n("c")
    if kind == "linear":
        return n("a") * p + n("b")
    if kind == "step":
        return n("lo") if p < n("x0") else n("hi")
    if kind == "tri":
        v = n("h") - n("w") * abs(p - n("c"))
        return v if v > 0 else n("h") * 0
    if kind == "lorentz":
        u = (p - n("c")) / n("w")
        return n("h") / (1 + u * u)
    if kind == "sat":
        return p / (abs(p) + n("c"))
    if kind == "creep":
        d = p - n("e")
        return n("a") * p / d if d != 0 else n("a") * 0
    if kind == "pwl":
        xs = [_num(x, frac) for x in spec["xs"]]
        ys = [_num(y, frac) for y in spec["ys"]]
        if p <= xs[0]:
            return ys[0]
        if p >= xs[-1]:
            return ys[-1]
        for i in range(len(xs) - 1):
            if xs[i] <= p <= xs[i + 1]:
                return ys[i] + (ys[i + 1] - ys[i]) * (p - xs[i]) / (xs[i + 1] - xs[i])
    if kind == "steep":
        e = math.floor(n("c") * p)
        e = max(-60, min(60, e))
        return Fraction(2) ** e if frac else math.ldexp(1.0, e)
    if kind == "table":
        t = spec["t"]
        return _num(t[k % len(t)], frac)
    if kind == "hist":
        return n("a") * p + n("b") * (k % int(spec["m"]))
    if kind == "noisy":
        t = spec["t"]
        v = resp_eval(spec["base"], k, p, frac) + _num(t[k % len(t)], frac)
        if spec.get("clip0") and v < 0:
            return v * 0
        return v
    if kind == "neg":
        return -resp_eval(spec["base"], k, p, frac) + n("off")
    raise ValueError("bad response kind " + str(kind))


def gen_resp(rng, lo, hi, nonneg=False):
    """A random response over the coordinate range [lo, hi] (Fractions)."""
    dy = lambda a, b, den=8: qs(Fraction(rng.randint(int(a * den), int(b * den)), den))  # noqa: E731
    span = hi - lo if hi > lo else Fraction(1)
    inside = lambda: qs(lo + span * Fraction(rng.randint(0, 16), 16))  # noqa: E731
    kinds = ["const", "linear", "step", "tri", "lorentz", "sat", "pwl", "steep", "table", "hist", "noisy", "noisy"]
    if not nonneg:
        kinds += ["neg", "creep"]
    kind = rng.choice(kinds)
    if kind == "const":
        return {"kind": "const", "c": dy(0, 4) if nonneg or rng.random() < 0.7 else dy(-4, 4)}
    if kind == "linear":
        if nonneg:  # non-negative on [lo, hi]
            a = Fraction(rng.randint(-16, 16), 8)
            b = max(-a * lo, -a * hi) + Fraction(rng.randint(0, 8), 8)
            return {"kind": "linear", "a": qs(a), "b": qs(b)}
        return {"kind": "linear", "a": dy(-4, 4), "b": dy(-4, 4)}
    if kind == "step":
        return {"kind": "step", "x0": inside(), "lo": dy(0, 4), "hi": dy(0, 8)}
    if kind == "tri":
        return {"kind": "tri", "c": inside(), "h": dy(1, 8), "w": dy(1, 8)}
    if kind == "lorentz":
        return {"kind": "lorentz", "c": inside(), "h": dy(1, 8), "w": qs(Fraction(rng.randint(1, 16), 8))}
    if kind == "sat":
        return {"kind": "sat", "c": qs(Fraction(rng.randint(1, 16), 8))} if not nonneg else {"kind": "noisy", "base": {"kind": "sat", "c": "1/4"}, "t": ["1"], "clip0": True}
    if kind == "creep":
        return {"kind": "creep", "a": dy(1, 4), "e": qs(Fraction(1, 2 ** rng.randint(20, 34)))}
    if kind == "pwl":
        m = rng.randint(2, 5)
        xs = sorted({lo + span * Fraction(rng.randint(0, 32), 32) for _ in range(m)})
        if len(xs) < 2:
            xs = [lo, lo + span]
        return {"kind": "pwl", "xs": [qs(x) for x in xs], "ys": [dy(0, 8) if nonneg else dy(-4, 8) for _ in xs]}
    if kind == "steep":
        return {"kind": "steep", "c": dy(-4, 4)}
    if kind == "table":
        return {"kind": "table", "t": [dy(0, 8, 16) if nonneg else dy(-4, 8, 16) for _ in range(rng.randint(1, 7))]}
    if kind == "hist":
        if nonneg:
            return {"kind": "noisy", "base": {"kind": "hist", "a": dy(0, 2), "b": dy(0, 2), "m": rng.randint(1, 5)}, "t": [dy(0, 1, 16)], "clip0": True}
        return {"kind": "hist", "a": dy(-2, 2), "b": dy(-2, 2), "m": rng.randint(1, 5)}
    if kind == "noisy":
        base = gen_resp(rng, lo, hi, nonneg=True)
        while base["kind"] in ("noisy",):
            base = gen_resp(rng, lo, hi, nonneg=True)
        amp = rng.choice([1, 2, 8])
        t = [qs(Fraction(rng.randint(-amp, amp), 16)) for _ in range(rng.randint(2, 9))]
        return {"kind": "noisy", "base": base, "t": t, "clip0": bool(nonneg)}
    base = gen_resp(rng, lo, hi, nonneg=True)
    return {"kind": "neg", "base": base, "off": dy(-2, 4)}


# ----------------------------------------------------------------------------- driving the real plans


class _Dev:
    """Just enough of a device for the plan code paths that run outside a RunEngine."""

    parent = None

    def __init__(self, name):
        self.name = name
        self.hints = {"fields": [name]}

    def read(self):
        return {}

    def describe(self):
        return {}

    def read_configuration(self):
        return {}

    def describe_configuration(self):
        return {}

    def trigger(self):
        pass

    def set(self, v):
        pass

    def stage(self):
        return [self]

    def unstage(self):
        return [self]


def _find_frame(gen, name, seen=None, depth=0):
    """The frame of the (possibly deeply wrapped) inner generator called `name`."""
    seen = set() if seen is None else seen
    if id(gen) in seen or depth > 60:
        return None
    seen.add(id(gen))
    fr = getattr(gen, "gi_frame", None)
    if fr is None:
        return None
    if fr.f_code.co_name == name:
        return fr
    cands = []
    if gen.gi_yieldfrom is not None:
        cands.append(gen.gi_yieldfrom)
    for v in fr.f_locals.values():
        if isinstance(v, types.GeneratorType):
            cands.append(v)
        elif isinstance(v, (list, tuple, collections.deque)):
            cands += [x for x in v if isinstance(x, types.GeneratorType)]
    for c in cands:
        r = _find_frame(c, name, seen, depth + 1)
        if r is not None:
            return r
    return None


def drive(gen, det, motor, spec, frac, np_values, core_name):
    """Consume the plan: -> dict(status, sets, readings, states).  `states` = loop variables of the inner
    generator sampled at every `checkpoint` (top of a loop iteration), for the decision comparison."""
    import numpy as np

    pos = None
    sets, reads, states = [], [], []
    handed = []  # the reading objects handed to the plan, by identity
    k = n = 0
    r = None
    core_frame = None
    status = "done"
    try:
        while True:
            msg = gen.send(r)
            n += 1
            r = None
            cmd = msg.command
            if cmd == "set" and msg.obj is motor:
                pos = msg.args[0]
                sets.append(pos)
            elif cmd == "read":
                if msg.obj is det:
                    if frac and isinstance(pos, Fraction) and pos.denominator.bit_length() > 6000:
                        status = "toobig"
                        gen.close()
                        break
                    v = resp_eval(spec, k, pos if frac else float(pos), frac)
                    if not frac:
                        v = np.float64(v) if np_values else float(v) + 0.0
                    reads.append(v)
                    handed.append(v)
                    r = {det.name: {"value": v, "timestamp": 0.0}}
                    k += 1
                elif msg.obj is motor:
                    r = {motor.name: {"value": pos, "timestamp": 0.0}}
            elif cmd == "checkpoint" and core_name == "adaptive_core":
                if core_frame is None:
                    core_frame = _find_frame(gen, core_name)
                fr = core_frame
                if fr is not None:
                    loc = fr.f_locals
                    pi = loc.get("past_I")
                    states.append({"step": loc.get("step"), "past_is_last": bool(handed) and pi is handed[-1], "past_none": pi is None})
            if n >= MSG_CAP:
                status = "cap"
                gen.close()
                break
    except StopIteration:
        status = "done"
    except Exception as e:  # noqa: BLE001
        status = type(e).__name__
    return {"status": status, "sets": sets, "reads": reads, "states": states, "messages": n}


def run_adaptive_impl(case):
    import bluesky.plans as bp

    det, motor = _Dev("det"), _Dev("motor")
    f = lambda key: float(Q(case[key]))  # noqa: E731
    gen = bp.adaptive_scan([det], "det", motor, f("start"), f("stop"), f("min_step"), f("max_step"), f("target_delta"), case["backstep"], f("threshold"))
    d = drive(gen, det, motor, case["resp"], False, case.get("np", False), "adaptive_core")
    # decisions: state sampled at the checkpoint of iteration i+1 tells what iteration i decided
    kinds = []
    for i, st in enumerate(d["states"][1:]):
        if i == 0:
            kinds.append(0)
        else:
            kinds.append(2 if st["past_is_last"] else 1)
    return {
        "status": d["status"],
        "pos": [float(x) for x in d["sets"]],
        "kinds": kinds,
        "steps": [float(st["step"]) for st in d["states"][1:]],
        "readings": [qs(Fraction(float(v))) for v in d["reads"]],
        "min_reading": min([float(v) for v in d["reads"]], default=0.0),
    }


def run_tune_impl(case, frac):
    import bluesky.plans as bp

    det, motor = _Dev("det"), _Dev("motor")
    f = (lambda key: Q(case[key])) if frac else (lambda key: float(Q(case[key])))  # noqa: E731
    gen = bp.tune_centroid([det], "det", motor, f("start"), f("stop"), f("min_step"), case["num"], f("step_factor"), case["snake"])
    d = drive(gen, det, motor, case["resp"], frac, case.get("np", False), "_tune_core")
    n_reads = len(d["reads"])
    sets = d["sets"]
    park = None
    if d["status"] == "done" and len(sets) == n_reads + 1:
        park = sets[-1]
        sets = sets[:-1]
    conv = (lambda x: qs(x)) if frac else (lambda x: float(x))  # noqa: E731
    nonneg = all((v >= 0) for v in d["reads"])
    finite = all((v == v and abs(v) != float("inf")) for v in d["reads"]) if not frac else True
    return {
        "status": d["status"],
        "pos": [conv(x) for x in sets],
        "park": None if park is None else conv(park),
        "readings": [qs(Fraction(v) if frac else Fraction(float(v))) for v in d["reads"]],
        "nonneg": bool(nonneg),
        "finite": bool(finite),
        "extra_sets": len(d["sets"]) - n_reads,
    }


# ----------------------------------------------------------------------------- the theorems' bounds


def adaptive_bound(case):
    """(excluded, bound): `excluded` = outside the hypothesis of C29_adaptive_terminates_partial;
    bound = N with FinishedWithin N from the explicit theorems (so at most N-1 points)."""
    s, e, mn, mx, thr = (Q(case[k]) for k in ("start", "stop", "min_step", "max_step", "threshold"))
    delta = min((mx - mn) / 2, mn)
    M = math.ceil(abs(e - s) / delta)
    noback = (not case["backstep"]) or e < s or thr <= 0
    if noback:
        return False, M + 1
    if thr >= 1:
        return True, None
    K = 0
    while not (mx * thr**K < mn):
        K += 1
    return False, M * (K + 1) + 2


def tune_bound(case):
    s, e, mn, sf = (Q(case[k]) for k in ("start", "stop", "min_step", "step_factor"))
    L = abs(case["num"] - 1)
    K = 0
    while not (abs(e - s) < mn * L * sf**K):
        K += 1
        if K > 5000:
            return None
    return K * (L + 1) + 1


# ----------------------------------------------------------------------------- oracle (property on the implementation)


def oracle_adaptive(case, obs):
    bad = []
    s, e, mn, mx = (float(Q(case[k])) for k in ("start", "stop", "min_step", "max_step"))
    valid = 0 < mn < mx
    if obs["status"] == "ValueError":
        if valid:
            bad.append(("adaptive-exception:ValueError-on-valid-parameters", f"ValueError for min_step={mn}, max_step={mx}"))
        return bad
    # parameters the documented guard should have rejected but did not: the property is still judged
    lo, hi = min(s, e), max(s, e)
    for i, p in enumerate(obs["pos"]):
        if not (lo <= p <= hi):
            side = "beyond-stop" if (p - e) * (1 if e >= s else -1) > 0 else "before-start"
            bad.append((f"adaptive-out-of-range:{side}:{'ascending' if e >= s else 'descending'}", f"point {i} at {p!r} outside [{lo}, {hi}] (start={s}, stop={e})"))
            break
    excluded, bound = adaptive_bound(case) if valid else (False, None)
    if obs["status"] == "cap" and not valid:
        bad.append(("adaptive-nonterminating:invalid-parameters-accepted", f"min_step={mn}, max_step={mx} accepted and still running after {MSG_CAP} messages"))
    elif obs["status"] == "cap":
        if excluded and Q(case["threshold"]) == 1 and _stationary_tail(obs):
            # threshold == 1: the documented back-step test `new_step < step * threshold` is strict, so a back-step always
            # shrinks the step; a run that sits at ONE position with ONE step value is not the open finding F21
            bad.append((SIG_STATIONARY, f"adaptive_scan(backstep=True, threshold=1) ascending {s}->{e}: re-measures position {obs['pos'][-1]!r} with an unchanged step {obs['steps'][-1]!r} for ever ({MSG_CAP} messages / {len(obs['pos'])} points)"))
        elif excluded:
            bad.append((SIG_F21, f"adaptive_scan(backstep=True, threshold={case['threshold']}) ascending {s}->{e}: still running after {MSG_CAP} messages / {len(obs['pos'])} points; last positions {obs['pos'][-3:]}"))
        elif bound is not None and bound * 9 < MSG_CAP:
            bad.append((f"adaptive-nonterminating:{'backstep' if case['backstep'] else 'no-backstep'}:{'ascending' if e >= s else 'descending'}", f"still running after {MSG_CAP} messages although the proven bound is {bound - 1} points; last positions {obs['pos'][-3:]}"))
    elif obs["status"] == "done":
        if bound is not None and len(obs["pos"]) > bound - 1:
            bad.append(("adaptive-bound-exceeded", f"{len(obs['pos'])} points, proven bound {bound - 1}"))
    else:
        bad.append((f"adaptive-exception:{obs['status']}", f"plan raised {obs['status']} after {len(obs['pos'])} points"))
    return bad


def oracle_tune(case, obs, mode):
    bad = []
    conv = Fraction if mode == "frac" else float
    s, e, mn, sf = (conv(Q(case[k])) for k in ("start", "stop", "min_step", "step_factor"))
    valid = mn > 0 and sf > 1
    if obs["status"] == "ValueError":
        if valid:
            bad.append(("tune-exception:ValueError-on-valid-parameters", f"ValueError for min_step={mn}, step_factor={sf}"))
        return bad
    # parameters the documented guards should have rejected but did not: the property is still judged
    if obs["status"] == "ZeroDivisionError" and case["num"] == 1 and not obs["pos"]:
        return bad  # documented-by-code behaviour for num == 1: raised before any motion
    lo, hi = min(s, e), max(s, e)
    inside = lambda p: p == p and lo <= p <= hi  # noqa: E731  (NaN is not inside)
    pos = [conv(Q(p)) if mode == "frac" else p for p in obs["pos"]]
    park = obs["park"] if obs["park"] is None else (conv(Q(obs["park"])) if mode == "frac" else obs["park"])
    if obs["status"] == "cap":
        why = "" if valid else ":invalid-parameters-accepted"
        bad.append((f"tune-nonterminating:{'snake' if case['snake'] else 'no-snake'}{why}", f"still running after {MSG_CAP} messages / {len(pos)} points (min_step={mn}, step_factor={sf}, num={case['num']})"))
    elif obs["status"] != "done":
        bad.append((f"tune-exception:{obs['status']}", f"plan raised {obs['status']} after {len(pos)} points (num={case['num']})"))
    else:
        b = tune_bound(case) if valid and case["num"] != 1 else None
        if b is not None and len(pos) > b - 1:
            bad.append(("tune-bound-exceeded", f"{len(pos)} points, proven bound {b - 1}"))
        if obs["extra_sets"] not in (0, 1):
            bad.append(("tune-unexpected-motion", f"{obs['extra_sets']} motor moves without a reading"))
    if obs["nonneg"] and obs["finite"]:
        for i, p in enumerate(pos):
            if not inside(p):
                bad.append(("tune-out-of-range:scan", f"point {i} at {p!r} outside [{lo}, {hi}]"))
                break
        if park is not None and not inside(park):
            # one or two ulps outside = rounding of the float centroid fl(fl(x*I)/I) when all the weight sits on the
            # boundary point (exact arithmetic gives the boundary itself); anything more is a different failure
            tiny = mode == "float" and park == park and min(abs(park - lo), abs(park - hi)) <= 1e-12 * max(1.0, abs(lo), abs(hi))
            sig = SIG_ULP if tiny else "tune-out-of-range:park"
            bad.append((sig, f"final park position {park!r} outside [{lo}, {hi}] for a non-negative signal"))
    return bad


# ----------------------------------------------------------------------------- model vs implementation


def _close(a: float, b: Fraction) -> bool:
    return abs(Fraction(a) - b) <= Fraction(POS_TOL) * max(1, abs(b))


def _walk(impl_pos, model_pos, impl_status, model_status, margins, exit_margin):
    """-> (index of first divergence or None, borderline?)"""
    status_map = {"done": "done", "cap": "running"}
    n, m = len(impl_pos), len(model_pos)
    div = None
    for i in range(max(n, m)):
        if i >= n or i >= m or not _close(impl_pos[i], model_pos[i]):
            div = i
            break
    if div is None and status_map.get(impl_status, impl_status) != model_status:
        div = n
    if div is None:
        return None, False
    near = []
    if div >= 1 and div - 1 < len(margins):
        near.append(margins[div - 1])
    if div < len(margins):
        near.append(margins[div])
    if div >= len(model_pos):
        near.append(exit_margin)
    return div, bool(near) and min(near) <= MARGIN_TOL


def compare_adaptive(case, obs, m):
    """-> (disagreement text or None, borderline flag)"""
    if obs["status"] == "ValueError" or m.get("status") == "ValueError":
        return (None if obs["status"] == m.get("status") else f"status impl={obs['status']} model={m.get('status')}"), False
    if obs["status"] not in ("done", "cap"):
        return f"impl raised {obs['status']}, model status {m.get('status')}", False
    mpos = [Q(p) for p in m["pos"]]
    div, border = _walk(obs["pos"], mpos, obs["status"], m["status"], m["margin"], m["exit_margin"])
    upto = len(mpos) if div is None else div
    # decisions and steps of the iterations before any divergence
    for i in range(min(upto, len(obs["kinds"]))):
        if i + 1 < upto or div is None:
            if obs["kinds"][i] != m["kind"][i]:
                if m["margin"][i] <= MARGIN_TOL:
                    return None, True
                return f"decision of iteration {i}: impl kind {obs['kinds'][i]}, model kind {m['kind'][i]} (0 first, 1 backstep, 2 accepted)", False
            if abs(obs["steps"][i] - m["step"][i] / 1e12) > 1e-8 * max(1.0, abs(obs["steps"][i])):
                return f"step after iteration {i}: impl {obs['steps'][i]!r}, model {m['step'][i] / 1e12!r}", False
    if div is None:
        return None, False
    if border:
        return None, True
    what = f"position {div}: impl {obs['pos'][div] if div < len(obs['pos']) else 'END(' + obs['status'] + ')'}, model {float(mpos[div]) if div < len(mpos) else 'END(' + m['status'] + ')'}"
    return what, False


def compare_tune(case, obs, m, mode):
    if obs["status"] in ("ValueError", "ZeroDivisionError") or m.get("status") in ("ValueError", "ZeroDivisionError"):
        return (None if obs["status"] == m.get("status") else f"status impl={obs['status']} model={m.get('status')}"), False
    if obs["status"] not in ("done", "cap"):
        return f"impl raised {obs['status']}, model status {m.get('status')}", False
    mpos = [Q(p) for p in m["pos"]]
    mstatus = "done" if m["status"] in ("done", "returned") else m["status"]
    mpark = None if m.get("park") is None else Q(m["park"])
    if mode == "frac":
        ipos = [Q(p) for p in obs["pos"]]
        ipark = None if obs["park"] is None else Q(obs["park"])
        istatus = {"done": "done", "cap": "running"}[obs["status"]]
        if ipos != mpos:
            i = next((j for j in range(min(len(ipos), len(mpos))) if ipos[j] != mpos[j]), min(len(ipos), len(mpos)))
            return f"exact run: position {i}: impl {ipos[i] if i < len(ipos) else 'END'}, model {mpos[i] if i < len(mpos) else 'END'}", False
        if istatus != mstatus or ipark != mpark:
            return f"exact run: status/park impl=({istatus},{ipark}) model=({mstatus},{mpark})", False
        return None, False
    div, border = _walk(obs["pos"], mpos, obs["status"], mstatus, m["margin"], m["exit_margin"])
    if div is None:
        if (obs["park"] is None) != (mpark is None) or (mpark is not None and not _close(obs["park"], mpark)):
            if m["exit_margin"] <= MARGIN_TOL or (m["margin"] and m["margin"][-1] <= MARGIN_TOL):
                return None, True
            return f"park position impl {obs['park']!r}, model {mpark}", False
        return None, False
    if border:
        return None, True
    return f"position {div}: impl {obs['pos'][div] if div < len(obs['pos']) else 'END(' + obs['status'] + ')'}, model {float(mpos[div]) if div < len(mpos) else 'END(' + m['status'] + ')'}", False


# ----------------------------------------------------------------------------- case generation

MINS = ["1/16", "1/8", "1/4", "1/2", "1"]


def gen_adaptive(rng, malformed=False, excluded=False):
    g = lambda: Fraction(rng.randint(-64, 64), 8)  # noqa: E731
    while True:
        s, e = g(), g()
        if rng.random() < 0.08:
            e = s
        if rng.random() < 0.5:
            s, e = sorted((s, e)) if not excluded else sorted((s, e))
        mn = Q(rng.choice(MINS))
        mx = mn * Q(rng.choice(["3/2", "2", "3", "4", "8", "5/4"]))
        thr = Q(rng.choice(["4/5", "4/5", "1/2", "1/4", "15/16", "0", "-1/2", "7/8"]))
        back = rng.random() < 0.6
        if excluded:
            s, e = sorted((s, e))
            if s == e:
                continue
            back = True
            thr = Q(rng.choice(["1", "3/2", "2", "17/16", "5/4"]))
        if malformed:
            mn, mx = rng.choice([(mn, mn), (mx, mn), (Fraction(0), mx), (-mn, mx), (mn, mn / 2)])
        case = {
            "plan": "adaptive", "start": qs(s), "stop": qs(e), "min_step": qs(mn), "max_step": qs(mx),
            "target_delta": rng.choice(["1/8", "1/4", "1/2", "1", "2", "0", "-1/2", "1/16"]),
            "backstep": back, "threshold": qs(thr), "np": rng.random() < 0.3,
        }
        if not malformed:
            exc, bound = adaptive_bound(case)
            if bound is not None and bound > 1500:
                continue
        lo, hi = min(s, e), max(s, e)
        case["resp"] = gen_resp(rng, lo, hi) if not excluded else rng.choice([{"kind": "linear", "a": "1", "b": "0"}, {"kind": "sat", "c": "1/4"}, {"kind": "creep", "a": "1/2", "e": "1/1073741824"}, gen_resp(rng, lo, hi)])
        return case


def gen_tune(rng, malformed=False):
    g = lambda: Fraction(rng.randint(-64, 64), 8)  # noqa: E731
    while True:
        s, e = g(), g()
        if rng.random() < 0.06:
            e = s
        mn = Q(rng.choice(MINS + ["1/32"]))
        sf = Q(rng.choice(["2", "3", "3/2", "4", "5/4", "3", "10"]))
        num = rng.choice([2, 3, 4, 5, 5, 6, 9, 10, 10, 17])
        if malformed:
            w = rng.choice(["num1", "num0", "numneg", "sf1", "sflt1", "min0", "minneg"])
            if w == "num1":
                num = 1
            elif w == "num0":
                num = 0
            elif w == "numneg":
                num = -rng.randint(1, 3)
            elif w == "sf1":
                sf = Fraction(1)
            elif w == "sflt1":
                sf = Fraction(1, 2)
            elif w == "min0":
                mn = Fraction(0)
            else:
                mn = -mn
        case = {"plan": "tune", "start": qs(s), "stop": qs(e), "min_step": qs(mn), "num": num, "step_factor": qs(sf), "snake": rng.random() < 0.4, "np": rng.random() < 0.4}
        if mn > 0 and sf > 1 and num != 1:
            b = tune_bound(case)
            if b is None or b > 1500:
                continue
        lo, hi = min(s, e), max(s, e)
        nonneg = rng.random() < 0.75
        case["resp"] = gen_resp(rng, lo, hi, nonneg=nonneg)
        if rng.random() < 0.08:
            case["resp"] = {"kind": "const", "c": "0"}
        return case


def exhaustive_cases():
    resps = [
        {"kind": "const", "c": "1"}, {"kind": "linear", "a": "1", "b": "0"}, {"kind": "step", "x0": "1/2", "lo": "0", "hi": "4"},
        {"kind": "tri", "c": "1/2", "h": "2", "w": "4"}, {"kind": "const", "c": "0"},
    ]
    for stop in ("1", "-1", "3/2"):
        for mx in ("1/2", "1"):
            for td in ("1/4", "1"):
                for back in (False, True):
                    for thr in ("1/2", "4/5"):
                        for r in resps:
                            yield {"plan": "adaptive", "start": "0", "stop": stop, "min_step": "1/4", "max_step": mx, "target_delta": td, "backstep": back, "threshold": thr, "resp": r, "np": False}
    for a, b in (("0", "4"), ("4", "0"), ("-1", "1")):
        for num in (2, 3, 5):
            for sf in ("2", "3"):
                for snake in (False, True):
                    for r in resps + [{"kind": "neg", "base": {"kind": "tri", "c": "1/2", "h": "2", "w": "4"}, "off": "1"}]:
                        yield {"plan": "tune", "start": a, "stop": b, "min_step": "1/4", "num": num, "step_factor": sf, "snake": snake, "resp": r, "np": False}


FIXED = [
    # F21 (design round): linear detector, backstep, threshold 1.5 -- parks at 0.5 for ever
    {"plan": "adaptive", "start": "0", "stop": "5", "min_step": "1/4", "max_step": "1", "target_delta": "1/2", "backstep": True, "threshold": "3/2", "resp": {"kind": "linear", "a": "1", "b": "0"}, "np": False},
    # threshold exactly 1 with the saturating detector of Counterexamples/C29.lean: the exact model never
    # finishes, IEEE doubles do (the step reaches min_step after ~55 halvings)
    {"plan": "adaptive", "start": "0", "stop": "5", "min_step": "1/4", "max_step": "2", "target_delta": "1/2", "backstep": True, "threshold": "1", "resp": {"kind": "sat", "c": "1/4"}, "np": False},
    # descending scan with backstep: the code's `next_pos -= step` moves forward
    {"plan": "adaptive", "start": "5", "stop": "0", "min_step": "1/4", "max_step": "2", "target_delta": "1/2", "backstep": True, "threshold": "3/2", "resp": {"kind": "linear", "a": "1", "b": "0"}, "np": False},
    {"plan": "adaptive", "start": "-1", "stop": "-5", "min_step": "1/4", "max_step": "1", "target_delta": "1/2", "backstep": True, "threshold": "4/5", "resp": {"kind": "steep", "c": "2"}, "np": True},
    {"plan": "tune", "start": "0", "stop": "8", "min_step": "1/4", "num": 5, "step_factor": "2", "snake": False, "resp": {"kind": "tri", "c": "3", "h": "3", "w": "1"}, "np": False},
    {"plan": "tune", "start": "0", "stop": "8", "min_step": "1/4", "num": 5, "step_factor": "2", "snake": True, "resp": {"kind": "const", "c": "0"}, "np": True},
    # negative weights: centroid 16 outside [0, 8] (Counterexamples/C29.lean) -- outside the property's hypothesis
    {"plan": "tune", "start": "0", "stop": "8", "min_step": "1/4", "num": 5, "step_factor": "2", "snake": False, "resp": {"kind": "pwl", "xs": ["0", "1", "7", "8"], "ys": ["-1", "0", "0", "2"]}, "np": False},
    {"plan": "tune", "start": "8", "stop": "0", "min_step": "1/16", "num": 10, "step_factor": "3", "snake": True, "resp": {"kind": "lorentz", "c": "5", "h": "4", "w": "1/2"}, "np": True},
]


def _cases(ctx):
    corpus = C.VERIF / "corpus" / "C29"
    if corpus.exists():
        for f in sorted(corpus.glob("*.json")):
            yield json.loads(f.read_text())["case"]
    yield from FIXED
    yield from exhaustive_cases()
    rng = ctx.rng
    n = ctx.budget(500, 12000)
    for i in range(n):
        u = rng.random()
        if u < 0.46:
            yield gen_adaptive(rng)
        elif u < 0.50:
            yield gen_adaptive(rng, malformed=True)
        elif u < 0.50 + min(0.03, 6.0 / n):
            yield gen_adaptive(rng, excluded=True)
        elif u < 0.94:
            yield gen_tune(rng)
        else:
            yield gen_tune(rng, malformed=True)


# ----------------------------------------------------------------------------- run


def _request(case, readings):
    keys = ("plan", "start", "stop", "min_step", "max_step", "target_delta", "backstep", "threshold", "num", "step_factor", "snake")
    req = {k: case[k] for k in keys if k in case}
    req["readings"] = readings
    return json.dumps(req)


def _observe(case):
    """-> list of (mode, observation) for the case"""
    if case["plan"] == "adaptive":
        return [("float", run_adaptive_impl(case))]
    out = [("float", run_tune_impl(case, False))]
    # exact run of the real code on Fractions as well -- for responses that are piecewise linear in p (for
    # rational responses the digits of the centroid square with every pass)
    valid = Q(case["min_step"]) > 0 and Q(case["step_factor"]) > 1 and case["num"] != 1
    b = tune_bound(case) if valid else 0
    if b is not None and b <= FRAC_MAX_POINTS and _pw_linear(case["resp"]):
        o = run_tune_impl(case, True)
        if o["status"] != "toobig":
            out.append(("frac", o))
    return out


def _pw_linear(spec):
    if spec["kind"] in ("lorentz", "sat", "creep"):
        return False
    if "base" in spec:
        return _pw_linear(spec["base"])
    return True


def _truncated(obs):
    """The observation restricted to the first MODEL_MAX_ITERS loop iterations (still running afterwards)."""
    if len(obs["readings"]) <= MODEL_MAX_ITERS:
        return obs
    o = dict(obs)
    o["status"] = "cap"
    o["pos"] = obs["pos"][:MODEL_MAX_ITERS]
    if "kinds" in o:
        o["kinds"] = obs["kinds"][:MODEL_MAX_ITERS]
        o["steps"] = obs["steps"][:MODEL_MAX_ITERS]
    if "park" in o:
        o["park"] = None
    o["readings"] = obs["readings"][:MODEL_MAX_ITERS]
    res_note = o.get("note", "")
    o["note"] = (res_note + " compared over the first %d iterations" % MODEL_MAX_ITERS).strip()
    return o


def _brief(obs):
    o = {k: v for k, v in obs.items() if k != "readings"}
    for k in ("pos", "kinds", "steps"):
        if k in o and len(o[k]) > 12:
            o[k] = o[k][:12] + [f"... ({len(obs[k])} total)"]
    return o


def run(ctx, model=True):
    res = C.Result(
        rule="cases = corpus + fixed findings/edge cases + small exhaustive grid (both plans, both directions, backstep on/off, "
        "5 responses) + random dyadic parameters x random response functions (const, linear, step, triangle, lorentzian, saturating, "
        "piecewise linear, exponential staircase, index table, history-dependent, noisy, negated) + malformed parameters; "
        "non-trivial = adaptive run with a backstep or >= 4 points, tune run with >= 2 passes or a zero/negative signal, or a rejected call"
    )
    items = []  # (case, mode, obs)
    for case in _cases(ctx):
        if len({v.sig for v in res.violations}) >= 1 and len(res.violations) > 80:
            res.notes.append("case generation stopped early: more than 80 oracle violations already recorded")
            break
        for mode, obs in _observe(case):
            items.append((case, mode, obs))
            if mode == "frac":
                res.count("tune:exact-fraction-run")
                bad = oracle_tune(case, obs, "frac")
            elif case["plan"] == "adaptive":
                bad = oracle_adaptive(case, obs)
                nt = obs["status"] not in ("done",) or 1 in obs["kinds"] or len(obs["pos"]) >= 4
                res.seen(case, nt)
                res.count("adaptive:" + ("ascending" if Q(case["stop"]) >= Q(case["start"]) else "descending"))
                res.count("adaptive:status:" + obs["status"])
                res.count("adaptive:backsteps-taken", obs["kinds"].count(1))
                res.count("adaptive:points", len(obs["pos"]))
                res.count("resp:" + case["resp"]["kind"])
            else:
                bad = oracle_tune(case, obs, "float")
                nt = obs["status"] != "done" or len(obs["pos"]) > max(case["num"], 1) or not obs["nonneg"]
                res.seen(case, nt)
                res.count("tune:status:" + obs["status"])
                res.count("tune:" + ("nonneg-signal" if obs["nonneg"] else "signal-with-negatives"))
                res.count("tune:points", len(obs["pos"]))
                res.count("tune:parked" if obs["park"] is not None else "tune:no-park")
                res.count("resp:" + case["resp"]["kind"])
            for sig, what in bad:
                res.violations.append(C.Violation(sig, what, case))
    if model:
        import subprocess

        try:
            replies = C.lean_batch(DRIVER, [_request(c, o["readings"][:MODEL_MAX_ITERS]) for c, _, o in items])
        except subprocess.TimeoutExpired as e:
            raise C.DriverError(f"driver {DRIVER} timed out: {e}") from e
        for (case, mode, obs), rep in zip(items, replies):
            m = json.loads(rep)
            obs = _truncated(obs)
            if "error" in m:
                res.disagreements.append({"case": case, "model": m, "impl": _brief(obs)})
                continue
            if case["plan"] == "adaptive":
                what, border = compare_adaptive(case, obs, m)
            else:
                what, border = compare_tune(case, obs, m, mode)
            if border:
                res.count(f"{case['plan']}:borderline-float-decision")
            else:
                res.count(f"{case['plan']}:{mode}:compared")
            if what:
                res.disagreements.append({"case": case, "mode": mode, "what": what, "model": {k: (v[:8] if isinstance(v, list) else v) for k, v in m.items()}, "impl": _brief(obs)})
        for i in (0, len(items) // 2, len(items) - 1):
            case, mode, obs = items[i]
            m = json.loads(replies[i])
            res.samples.append({"case": case, "mode": mode, "impl": _brief(obs), "model": {k: (v[:12] if isinstance(v, list) else v) for k, v in m.items()}})
    else:
        case, mode, obs = items[-1]
        res.samples.append({"case": case, "mode": mode, "impl": _brief(obs)})
    return res


def run_impl_only(ctx):
    return run(ctx, model=False)


def replay(ctx, data):
    res = C.Result()
    case = data.get("case")
    if not case:
        return res
    for mode, obs in _observe(case):
        bad = oracle_adaptive(case, obs) if case["plan"] == "adaptive" else oracle_tune(case, obs, mode)
        for sig, what in bad:
            res.violations.append(C.Violation(sig, what, case))
    return res
