"""C18 -- subscriptions live exactly as long as they were asked to.

Tie: (T) the structure of `Dispatcher.unsubscribe` (still-in-use rule), the de-duplication in
`CallbackRegistry.connect`, the iteration of `process`, and which of `__call__`, `_clear_call_cache`,
`_subscribe`, `_unsubscribe` touch `_temp_callback_ids` are re-read from the source into
lean/BlueskyVerif/Disp/Generated.lean; the model and the theorems depend on those flags.
(C) histories are run on the real Dispatcher / the real RunEngine and on the Lean model; replies,
callables invoked per document and the private dictionaries (token map, callbacks, func->cid map,
temporary-token set) must agree after every operation.
"""
from __future__ import annotations

import json

import common as C
import re_probes as RP
from props import dispcommon as D

MANIFEST = {
    "text": "FULL. Theorems (Props/C18.lean) about a transcription of CallbackRegistry, Dispatcher and the RunEngine's "
    "temporary-token bookkeeping: for EVERY history of RE.subscribe / RE.unsubscribe / RE(plan, subs) / in-plan "
    "subscribe+unsubscribe messages / emitted documents (any length, repeated callables, 'all' and single-kind "
    "subscriptions), the callables invoked for a document of kind k are exactly the callables that have at least one "
    "live token covering k (refinement to the abstract map token -> (callable, name, scope), by induction over the "
    "history); a token is live from its subscribe until its own unsubscribe, per-call and in-plan tokens are gone when "
    "the next call starts, permanent ones survive, and removing one token never removes another callable or another "
    "token of the same callable.",
    "note": "Trusted: Lean kernel; the extractor (AST shapes of unsubscribe/connect/process/_clear_call_cache/__call__/"
    "_subscribe/_unsubscribe -> Generated.lean flags); callables are abstract identities with decidable equality and stay "
    "alive (the weak-reference clean-up of CallbackRegistry is outside the model); callbacks do not subscribe/unsubscribe "
    "re-entrantly. The hand-written model is tied by the correspondence run (real Dispatcher and real RunEngine with "
    "count plans over ophyd.sim.det), which compares the private dictionaries after every operation.",
    "technique": "Lean 4 refinement proof (history induction with an invariant relating token map, callbacks and func->cid "
    "map) + source-extracted structure flags + correspondence run against the real Dispatcher/RunEngine",
}
LEAN_MODULES = ["BlueskyVerif.Props.C18"]
DRIVER_MODULES = ["BlueskyVerif.Disp.DriverCore"]
DRIVER = "Drivers/C18.lean"
ASSUMPTIONS = [
    "callables are abstract identities (equality = equality of their _BoundMethodProxy) and are not garbage collected "
    "while subscribed (the weak-reference aspect of CallbackRegistry is not modelled)",
    "callbacks do not call subscribe/unsubscribe re-entrantly while a document is being processed",
    "the swapped-argument convenience subscribe('name', func) is not modelled",
]
TRUSTED = ["harness/props/dispcommon.py: AST shape recognition of the anchored methods -> Disp/Generated.lean"]


def extract(ctx):
    return D.extract(ctx)


def oracle(case, obs):
    """C18 on what the implementation did: the SET of callables invoked for each document equals the
    set of callables with a live token covering its kind."""
    bad = []

    def on_emit(spec, op, rep, where):
        k = op["k"]
        want = set(spec.order[k])
        got = set(rep["called"])
        if "raised" in rep:  # delivery was cut short by a raising callback (C19's business)
            got_all = False
        else:
            got_all = True
        for f in sorted(got - want):
            bad.append((D.classify_extra(spec, f), f"document #{op['doc']} ({k}, call {where['call']}) was delivered to f{f}, which has no live subscription for {k!r}; live: {spec.live}"))
        if got_all:
            for f in sorted(want - got):
                bad.append((D.classify_missing(spec, f), f"document #{op['doc']} ({k}, call {where['call']}) was NOT delivered to f{f}, which has a live subscription for {k!r}; live: {spec.live}"))

    D.walk_spec(case, obs, on_emit, bad)
    for m in obs["mismatch"]:
        bad.append(("callback-got-different-document", f"callback received {m}"))
    return bad


def _cases(ctx):
    yield from D.corpus_cases("C18")
    deep = ctx.tier == "thorough" or ctx.deep
    for n in range(0, 4 if not deep else 5):
        yield from D.exhaustive_disp(n)
    for _ in range(ctx.budget(900, 30000)):
        yield D.gen_disp(ctx.rng)
    for _ in range(ctx.budget(90, 2500)):
        yield D.gen_re(ctx.rng)


def _nontrivial(case, obs):
    """a callable is subscribed more than once, or something is unsubscribed / dropped, and a document is emitted afterwards"""
    subs = [t for t in obs["trace"] if t["op"] in ("sub", "psub")] + [s for t in obs["trace"] if t["op"] == "call" for s in t["subs"]]
    fs = [t["f"] if isinstance(t, dict) else t[1] for t in subs]
    removal = any(t["op"] in ("unsub", "punsub") for t in obs["trace"]) or sum(1 for t in obs["trace"] if t["op"] == "call") > 1
    return (len(fs) != len(set(fs)) or removal) and any(t["op"] == "emit" for t in obs["trace"])


def percall_fault_probe(n_good, pos, mixed):
    """Implementation-only probe (NOT in the Lean model): RE(plan, subs) where ONE of the per-call callables cannot be
    subscribed (an unhashable callable: CallbackRegistry hashes the callable) -- the call fails before the plan starts;
    the callables subscribed before the failure are per-call subscriptions all the same: the NEXT call must not
    deliver anything to them, and a permanent subscription must keep receiving."""
    import logging

    import bluesky.plans as bp
    from bluesky.run_engine import RunEngine
    from ophyd.sim import det

    logging.getLogger("bluesky").setLevel(logging.CRITICAL)
    got = {}

    def mk(i):
        def cb(name, doc):
            got.setdefault(i, []).append(name)
        return cb

    class Unhashable:
        __hash__ = None

        def __call__(self, name, doc):
            got.setdefault("bad", []).append(name)

    RE = RunEngine({}, context_managers=[], loop=D._loop())
    perm = mk("perm")
    RE.subscribe(perm)
    good = [mk(i) for i in range(n_good)]
    subs = good[:pos] + [Unhashable()] + good[pos:]
    arg = {"all": subs} if mixed == "dict" else subs
    bad = []
    try:
        RE(bp.count([det], num=1), arg)
        first = "ok"
    except Exception as e:  # noqa
        first = type(e).__name__
    got.clear()
    RE(bp.count([det], num=1))
    for i in range(n_good):
        if got.get(i):
            bad.append(("leaked:per-call-subscription-of-a-call-that-failed-to-start", f"per-call callable #{i} (subs position {i if i < pos else i + 1}, unhashable callable at {pos}, first call ended {first}) received {got[i]} in the NEXT call"))
    if got.get("perm") != ["start", "descriptor", "event", "stop"]:
        bad.append(("silenced:permanent-subscription-after-failed-call", f"the permanent callable received {got.get('perm')} in the next call"))
    return bad


def percall_fault_cases():
    return [{"probe": "percall-fault", "n_good": n, "pos": p, "mixed": m} for n in (1, 2, 3) for p in range(n + 1) for m in ("list", "dict")]


def run(ctx, model=True):
    res = C.Result(
        rule="cases = corpus + every history of length <= 3 (thorough: 4) over {sub(f0|f1, all|start), unsub(0|1|2), emit(start|event)} "
        "+ random Dispatcher histories (1-22 ops, 1-6 callables incl. equal bound methods, 'all'/single-kind/unknown names, stale tokens) "
        "+ random RunEngine sessions (permanent subscribe/unsubscribe, RE(plan, subs) with callable/list/dict subs, in-plan subscribe/"
        "unsubscribe messages, count runs); non-trivial = a callable subscribed more than once or a subscription removed/dropped, "
        "with a document emitted"
    )
    cases, obss = [], []
    for case in _cases(ctx):
        obs = D.run_impl(case)
        cases.append(case)
        obss.append(obs)
        res.seen(case, _nontrivial(case, obs))
        res.count("level:" + case.get("level", "disp"))
        for t in obs["trace"]:
            res.count("op:" + t["op"])
        for sig, what in oracle(case, obs):
            res.violations.append(C.Violation(sig, what, case))
    if model:
        replies = C.lean_batch(DRIVER, [D.model_request(c, o) for c, o in zip(cases, obss)])
        for case, obs, rep in zip(cases, obss, replies):
            diff = D.compare(case, obs, rep)
            if diff:
                res.disagreements.append({"case": case, "diff": diff})
        for i in (0, len(cases) // 2, len(cases) - 1):
            m = json.loads(replies[i])
            res.samples.append({"case": cases[i], "impl_replies": obss[i]["replies"], "model_replies": m["replies"], "final_state_impl": obss[i]["snaps"].get(max(obss[i]["snaps"]) if obss[i]["snaps"] else -1)})
    else:
        res.samples.append({"case": cases[-1], "impl_replies": obss[-1]["replies"]})
    for pc in percall_fault_cases():
        res.seen(pc, True)
        res.count("impl-only-probe:percall-subscription-fault")
        for sig, what in percall_fault_probe(pc["n_good"], pc["pos"], pc["mixed"]):
            res.violations.append(C.Violation(sig, "implementation-only probe: " + what, pc))
    res.notes.append("per-call subs with one callable that cannot be subscribed (unhashable) are probed on the implementation only")
    RP.add_to(res, ["inplan-subscription", "equal-instances"])
    return res


def run_impl_only(ctx):
    return run(ctx, model=False)


def replay(ctx, data):
    r = RP.replay(data)
    if r is not None:
        return r
    res = C.Result()
    case = data.get("case")
    if not case:
        return res
    if case.get("probe") == "percall-fault":
        for sig, what in percall_fault_probe(case["n_good"], case["pos"], case["mixed"]):
            res.violations.append(C.Violation(sig, what, case))
        return res
    obs = D.run_impl(case)
    for sig, what in oracle(case, obs):
        res.violations.append(C.Violation(sig, what, case))
    return res
