"""C03 -- pause/resume and suspend/release do not change the recorded data.

Three ties, all in `run`:
 (a) generated well-formed CHECKPOINTED plans x an interruption (pause, deferred pause, suspend(+pre/post)+release)
     at EVERY arrival index of the baseline run (+ double / triple interruptions): baseline vs interrupted run on
     the real RunEngine, oracle `same_data`; the hypothesis `ReplaySafe` is evaluated on the implementation's logs;
 (b) the real built-in step plans (count, scan, grid_scan(snake), list_scan, rel_scan) through the real RunEngine
     (harness/c03_builtin.py), every arrival index: oracle only (these runs are not in the Lean model);
 (c) the scenarios of (a) also go through the Lean engine model (engine_common.run_property), and the small
     replay model of Props/C03 (Engine/Replay.lean, Drivers/C03.lean) is run on the message trace of every
     implementation run and must reproduce its events.
"""
from __future__ import annotations

import copy
import hashlib
import json

import common as C
import re_probes as RP
import engine_common as E
import engine_extract
from engine_common import M, seq
from engine_impl import run_scenario

MANIFEST = {
    "text": "PARTIAL. Lean (16 theorems): (1) the pure replay lemma over a projection of the engine state (device positions + "
    "bundler sequence counters; messages set | bundle | other), for ALL message lists, states and interruption schedules: "
    "re-executing the messages cached since the last checkpoint from the positions at the interruption with the counters rolled "
    "back emits exactly the events of the first pass and ends in the same state provided ReplaySafe (every device a bundle "
    "depends on is set earlier in the cache or did not move); hence after one interruption anywhere (C03_interrupted_prefix) or "
    "any number of them (C03_repeat) the last event per (stream, seq_num) and the final counters equal those of the "
    "uninterrupted execution and no foreign event is emitted; step-plan points (moves before bundles) satisfy ReplaySafe at "
    "every interruption point and whole step plans record the same data (induction over the point list). (2) the shared engine "
    "model projects onto it: cmdSet = set, readingOf = reading, create/read*/save = one event with seq = counter, "
    "Bundler.rewind restores the snapshot resetCheckpoint took, _rewind / resume() / _start_suspender replay exactly the "
    "cache, the handlers run over any well-formed segment SIMULATE the small model, and C03_data_preserved_partial: for the "
    "engine model's own handlers, first pass + _rewind + replay + rest of the plan leaves the same final reading per seq_num, "
    "counters and positions as the uninterrupted run. NOT proved (def C03_full): that `_run` under the scheduler executes "
    "'cache again, then the continuation' at every suspension point (Lemma A = C04). That, and the whole property, is checked "
    "on every run by sweeping EVERY arrival index (pause, deferred pause, suspend+release; double/triple interruptions) of "
    "generated checkpointed plans (model and real RunEngine, 0 disagreements) and of the real built-in plans count, scan, "
    "grid_scan, list_scan, rel_scan (oracle only).",
    "note": "Trusted: Lean kernel; engine_extract.py; the hand-written engine model tied by differential runs under a "
    "deterministic event loop; the small replay model is additionally run on the message trace of implementation runs and must "
    "reproduce their events; fake synchronous deterministic devices (readings = function of the last set values). The F4 "
    "window (pause request landing in the exit sleep: RunEngineInterrupted although the plan completed) belongs to C08 and is "
    "only counted here; the interruptions stream belongs to C05/C40.",
    "technique": "Lean 4 proof of the replay lemma over a projection of the engine state + simulation lemmas onto the shared "
    "engine model + exhaustive interruption sweeps (baseline vs interrupted) on the real RunEngine",
}
LEAN_MODULES = ["BlueskyVerif.Props.C03"]
DRIVER_MODULES = E.DRIVER_MODULES + ["BlueskyVerif.Engine.Replay"]
DRIVER = E.DRIVER
REPLAY_DRIVER = "Drivers/C03.lean"
ASSUMPTIONS = [
    "deterministic devices: a reading is a function of the last set values; stop/pause/resume hooks do not move anything; statuses complete immediately",
    "requests from other threads act atomically while _run is suspended at an await",
    "the plan does not branch on the response of the message at which a cancellation landed (F6 belongs to C13)",
]

MOTORS = ["m1", "m2"]
DETS = ["d1", "d2"]


def _memo_ast_parse():
    """engine_impl.install_proxy parses run_engine.py (60 ms) for EVERY scenario to find _run's line ranges; the
    sweeps run thousands of scenarios on the same source: memoise ast.parse for that one big unchanged string."""
    import ast

    if getattr(ast.parse, "_c03_memo", False):
        return
    orig, cache = ast.parse, {}

    def parse(source, *a, **k):
        if isinstance(source, str) and len(source) > 50000 and not a and not k:
            if source not in cache:
                cache.clear()
                cache[source] = orig(source)
            return cache[source]
        return orig(source, *a, **k)

    parse._c03_memo = True
    ast.parse = parse


_memo_ast_parse()


def extract(ctx):
    return engine_extract.extract()


def _facts():
    if not hasattr(_facts, "v"):
        f = engine_extract.extract()
        _facts.v = (set(f["uncacheable"]), set(f["resets_checkpoint"]))
    return _facts.v


# ------------------------------------------------------------------------------------------------ plans
def devices():
    return {
        "m1": {"kind": "motor", "modes": {}},
        "m2": {"kind": "motor", "modes": {}},
        "d1": {"kind": "det", "modes": {}, "offset": 1},
        "d2": {"kind": "det", "modes": {}, "offset": 2},
    }


def gen_wf_plan(rng, npoints=None, unsafe_tail=False):
    """A well-formed checkpointed plan: every point = checkpoint, sets (+wait), optional trigger+wait / sleep,
    create, reads, save.  `unsafe_tail` (the separate malformed stream): a point moves a motor AFTER its bundle
    without a checkpoint in between -- outside the hypothesis ReplaySafe."""
    npoints = npoints or rng.choice([2, 2, 3, 3, 4])
    layout = rng.choice(["single", "single", "keyed", "two-seq", "nested"])
    streams = {}

    def objs_for(run, stream):
        k = (run, stream)
        if k not in streams:
            o = [d for d in DETS if rng.random() < 0.7] or [rng.choice(DETS)]
            if rng.random() < 0.3:
                o.append(rng.choice(MOTORS))
            streams[k] = o
        return streams[k]

    def bundle(run, stream):
        return [M("create", None, name=stream, run=run)] + [M("read", o, run=run) for o in objs_for(run, stream)] + [M("save", run=run)]

    def point(run, tail=False):
        b = [M("checkpoint")]
        grp = rng.choice(["g", "h", None])
        tail_motor = rng.choice(MOTORS) if tail else None
        sets = [m for m in MOTORS if rng.random() < 0.6 and m != tail_motor]
        if rng.random() < 0.1 and sets:
            sets.append(sets[0])
        for m in sets:
            b.append(M("set", m, rng.choice([1, 2, 3, 5, 8, -4]), **({"group": grp} if grp else {})))
        if sets or rng.random() < 0.3:
            b.append(M("wait", None, group=grp))
        if rng.random() < 0.35:
            b.append(M("trigger", "d1", group="t"))
            if rng.random() < 0.5:
                b.append(M("trigger", "d2", group="t"))
            b.append(M("wait", None, group="t"))
        if rng.random() < 0.2:
            b.append(M("sleep", None, rng.choice([0, 1, 5])))
        if rng.random() < 0.15:
            b += bundle(run, "baseline")
        b += bundle(run, "primary")
        if rng.random() < 0.1:
            b.append(M("null"))
        if tail:
            b.append(M("set", tail_motor, 77, group="z"))
            b.append(M("wait", None, group="z"))
            b += bundle(run, "after")
        return b

    tails = [unsafe_tail and i == npoints - 1 for i in range(npoints)]
    body = []
    staged = [d for d in DETS + MOTORS if rng.random() < 0.25]
    body += [M("stage", d) for d in staged]
    if layout in ("single", "keyed"):
        key = "a" if layout == "keyed" else None
        body.append(M("open_run", run=key))
        for i in range(npoints):
            body += point(key, tails[i])
        body.append(M("close_run", run=key))
    elif layout == "two-seq":
        k1 = rng.choice([None, "a"])
        n1 = max(1, npoints // 2)
        body.append(M("open_run", run=k1))
        for i in range(n1):
            body += point(k1)
        body.append(M("close_run", run=k1))
        if rng.random() < 0.5:
            body.append(M("sleep", None, 2))
        k2 = rng.choice([None, "b"])
        streams.clear()
        body.append(M("open_run", run=k2))
        for i in range(n1, npoints):
            body += point(k2, tails[i])
        body.append(M("close_run", run=k2))
    else:  # nested runs with run keys: b is opened and closed while a is open, points alternate
        body.append(M("open_run", run="a"))
        body += point("a")
        body.append(M("open_run", run="b"))
        for i in range(npoints):
            body += point("b" if i % 2 == 0 else "a", tails[i])
        body.append(M("close_run", run="b"))
        if rng.random() < 0.6:
            body += point("a")
        body.append(M("close_run", run="a"))
    body += [M("unstage", d) for d in reversed(staged)]
    return seq(*body)


def base_scenario(rng, plan):
    devs = devices()
    if rng.random() < 0.3:
        # slow motor: its first moves complete only when the loop is otherwise idle (the plan blocks in `wait`:
        # quiescence arrivals, where an interruption can land too); the position itself is deterministic
        devs[rng.choice(MOTORS)]["modes"]["set"] = ["pending"] * rng.choice([1, 2, 6])
    return {"record_interruptions": rng.random() < 0.5, "devices": devs, "plan": plan, "script": {}, "decisions": ["resume"] * 12, "max_arrivals": 900}


def null_plan(rng):
    k = rng.choice([0, 0, 1, 2])
    return None if k == 0 else seq(*[M("null") for _ in range(k)])


def interruption(rng, kind, at, fut):
    """-> {arrival index: [actions]} for one interruption of `kind` landing at arrival `at`"""
    if kind == "pause":
        return {at: [{"a": "pause", "defer": False}]}
    if kind == "pause-deferred":
        return {at: [{"a": "pause", "defer": True}]}
    out = {at: [{"a": "suspend", "fut": fut, "pre": null_plan(rng), "post": null_plan(rng), "just": rng.choice([None, "beam"])}]}
    if rng.random() < 0.5:  # otherwise the future is released at the quiescence arrival (nothing else can run)
        out.setdefault(at + rng.randrange(1, 7), []).append({"a": "release", "fut": fut})
    return out


KINDS = ["pause", "pause-deferred", "suspend"]


def variant(rng, base, kinds_at):
    sc = copy.deepcopy(base)
    script = {}
    for fut, (kind, at) in enumerate(kinds_at):
        for k, acts in interruption(rng, kind, at, fut).items():
            script.setdefault(str(k), []).extend(acts)
    sc["script"] = script
    sc["c03"] = {"interruptions": [[k, a] for k, a in kinds_at]}
    return E.number(sc)


def plan_key(sc):
    return hashlib.sha1(json.dumps([sc["plan"], sc["devices"], sc["record_interruptions"]], sort_keys=True).encode()).hexdigest()


_BASE = {}


def baseline_of(sc):
    k = plan_key(sc)
    if k not in _BASE:
        b = copy.deepcopy(sc)
        b["script"] = {}
        b.pop("c03", None)
        _BASE[k] = run_scenario(E.number(b))
    return _BASE[k]


def sweep(rng, plan, n_double, n_triple, unsafe=False):
    base = E.number(base_scenario(rng, plan))
    if unsafe:
        base["c03_unsafe_stream"] = True
    bobs = baseline_of(base)
    n = len(bobs["arrivals"])
    out = []
    for at in range(n):
        for kind in KINDS:
            out.append(variant(rng, base, [(kind, at)]))
    for _ in range(n_double):
        a = rng.randrange(0, n)
        b = rng.randrange(a, n + 14)
        out.append(variant(rng, base, [(rng.choice(KINDS), a), (rng.choice(KINDS), b)]))
    for _ in range(n_triple):
        a = rng.randrange(0, n)
        b = rng.randrange(a, n + 14)
        c = rng.randrange(b, n + 28)
        out.append(variant(rng, base, [(rng.choice(KINDS), a), (rng.choice(KINDS), b), (rng.choice(KINDS), c)]))
    return out


# ------------------------------------------------------------------------------------------------ oracle
def data_view(o):
    """per run (in order of their start documents): stream -> {seq_num: data of the LAST event with it}, stop"""
    order, runs = [], {}
    for d in o["docs"]:
        if d["k"] == "start":
            order.append(d["run"])
            runs[d["run"]] = {"streams": {}, "stop": None}
        elif d["k"] == "event" and d["stream"] != "interruptions":
            runs.setdefault(d["run"], {"streams": {}, "stop": None})["streams"].setdefault(d["stream"], {})[d["seq"]] = d["data"]
        elif d["k"] == "stop":
            r = runs.setdefault(d["run"], {"streams": {}, "stop": None})
            r["stop"] = {"exit": d["exit"], "num_events": {k: v for k, v in d["num_events"].items() if k != "interruptions"}}
    return [runs[r] for r in order]


def where_landed(sc, o):
    """names of the interruption points: <kind>@<arrival kind>-after-<last command before it>"""
    names = []
    arr_t, msg_t = o["ticks"]["arrivals"], o["ticks"]["msgs"]
    for k in sorted(sc.get("script", {}), key=int):
        for a in sc["script"][k]:
            if a["a"] not in ("pause", "suspend"):
                continue
            kind = "suspend" if a["a"] == "suspend" else ("pause-deferred" if a.get("defer") else "pause")
            i = int(k)
            if i >= len(o["arrivals"]):
                continue   # the run was over before this request could land
            last = "start"
            for m, t in zip(o["msgs"], msg_t):
                if t < arr_t[i]:
                    last = m[0]
                else:
                    break
            names.append(f"{kind}@{o['arrivals'][i]}-after-{last}")
    return "+".join(names) or "none"


def compare(base, var):
    """-> list of (difference kind, text); empty = sameData"""
    bad = []
    b, v = data_view(base), data_view(var)
    if len(b) != len(v):
        bad.append(("runs-differ", f"{len(v)} runs instead of {len(b)}"))
    for i, (rb, rv) in enumerate(zip(b, v)):
        for stream in sorted(set(rb["streams"]) | set(rv["streams"])):
            eb, ev = rb["streams"].get(stream, {}), rv["streams"].get(stream, {})
            if eb != ev:
                lost = sorted(set(eb) - set(ev))
                extra = sorted(set(ev) - set(eb))
                kind = "data-lost" if lost else ("data-duplicated" if extra else "data-changed")
                bad.append((kind, f"run {i} stream {stream}: final readings per seq_num {ev} instead of {eb}"))
        if rb["stop"] != rv["stop"]:
            bad.append(("stop-differs", f"run {i}: RunStop {rv['stop']} instead of {rb['stop']}"))
    return bad


def returns_ok(o):
    """every blocking call returned or was interrupted-and-resumed; -> (list of (kind, text), f4_window)"""
    bad, f4 = [], False
    rs = o["returns"]
    for i, r in enumerate(rs):
        op, result, state = r[0], r[1], r[2]
        if result == "return":
            continue
        if result == "raise:RunEngineInterrupted":
            if state == "paused" and i + 1 < len(rs) and rs[i + 1][0] == "resume":
                continue
            if state == "idle" and o.get("plan_finished") and i == len(rs) - 1:
                f4 = True  # F4 (C08): the request landed in the exit sleep(0); nothing is left to resume
                continue
        bad.append((f"resume-error:{result.split(':')[-1]}", f"{op} ended with {result} in state {state}: {o['return_texts'][i][:100]}"))
    if o["final_state"] != "idle":
        bad.append((f"not-idle:{o['final_state']}", f"final state {o['final_state']}"))
    if not o.get("plan_finished"):
        bad.append(("plan-not-finished", "the plan did not run to completion"))
    return bad, f4


def _msg_table(sc):
    """static id -> msg statement of the scenario (plan + pre/post plans of suspend actions)"""
    tab = {}

    def walk(st):
        if st is None:
            return
        if st["k"] == "msg":
            if "id" in st:
                tab[st["id"]] = st
        elif st["k"] == "seq":
            for x in st["body"]:
                walk(x)
        elif st["k"] == "try":
            walk(st["body"]), walk(st.get("handler")), walk(st.get("fin"))

    walk(sc.get("plan"))
    for k in sc.get("script", {}):
        for a in sc["script"][k]:
            if a["a"] == "suspend":
                walk(a.get("pre")), walk(a.get("post"))
    return tab


def cache_to_rmsgs(K, pos_before, sets_in_K):
    """the cached messages (message log entries) as small-model messages: set d v | bundle objs | other;
    the value of a `set` comes from the device ledger (sets_in_K: the ledger values in order)"""
    out, cur, it = [], None, iter(sets_in_K)
    for m in K:
        cmd, obj = m[0], m[1]
        if cmd == "set":
            out.append({"k": "set", "dev": obj, "v": next(it, None)})
        elif cmd == "create":
            cur = []
        elif cmd == "read" and cur is not None:
            cur.append(obj)
        elif cmd == "save" and cur is not None:
            out.append({"k": "bundle", "stream": "s", "objs": cur})
            cur = None
        elif cmd == "drop":
            cur = None
    return out


def replay_safe(sc, o):
    """The hypothesis ReplaySafe evaluated on the implementation's logs: at every rewind (resume() after a pause,
    _start_suspender) let K = the messages cached since the cache was last emptied (reconstructed from the message
    log with the extracted caching rule), posT the motor positions now and posC those when the cache was emptied:
    every device a bundled read in K depends on is set earlier in K or has posT = posC.
    -> (all safe, [per rewind: kind, cache commands, safe, why, request for the Lean `replaySafeB`])"""
    unc, resets = _facts()
    kinds = {n: s["kind"] for n, s in sc["devices"].items()}
    motors = [n for n, k in kinds.items() if k == "motor"]
    merged = []
    for key in ("msgs", "ledger", "returns"):
        merged += [(t, key, e) for t, e in zip(o["ticks"][key], o[key])]
    merged.sort(key=lambda x: x[0])
    pos = {m: 0 for m in motors}
    st = {"cache": [], "posC": dict(pos), "rewindable": True, "sets": []}
    helpers = []
    rewinds = []

    def reset():
        if st["cache"] is not None:
            st["cache"] = []
            st["sets"] = []
            st["posC"] = dict(pos)

    def rewind(kind):
        K = st["cache"] or []
        set_so_far, in_bundle, ok, why = set(), False, True, None
        for m in K:
            cmd, obj = m[0], m[1]
            if cmd == "set":
                set_so_far.add(obj)
            elif cmd == "create":
                in_bundle = True
            elif cmd in ("save", "drop"):
                in_bundle = False
            elif cmd == "read" and in_bundle:
                deps = motors if kinds.get(obj) == "det" else ([obj] if kinds.get(obj) == "motor" else [])
                for d in deps:
                    if d not in set_so_far and pos[d] != st["posC"][d]:
                        ok, why = False, f"{obj} depends on {d}: {st['posC'][d]} at the checkpoint, {pos[d]} at the interruption, not set earlier in the cache"
        # NB a bundle interrupted before its `save` emits nothing: only completed bundles count in the Lean version;
        # the Python version above is (harmlessly) stricter: it also looks at the reads of an unfinished bundle
        req = {"op": "safe", "devices": [{"name": n, "kind": s["kind"], "offset": s.get("offset", 0)} for n, s in sorted(sc["devices"].items())],
               "K": cache_to_rmsgs(K, None, st["sets"]), "posT": dict(pos), "posC": dict(st["posC"])}
        rewinds.append({"kind": kind, "cache": [m[0] for m in K], "safe": ok, "why": why, "lean": req})
        if st["cache"] is not None:
            st["cache"] = []   # _rewind empties the cache; the counters' snapshot stays, positions restart from here
            st["sets"] = []
            st["posC"] = dict(pos)

    for _, key, e in merged:
        if key == "ledger":
            if e[1] == "set" and e[2] != "raise":
                pos[e[0]] = e[2]
                if st["cache"] is not None and st["rewindable"]:
                    st["sets"].append(e[2])
        elif key == "returns":
            if e[1] == "raise:RunEngineInterrupted" and e[2] == "paused":
                rewind("pause")
        else:
            cmd = e[0]
            if st["cache"] is not None and st["rewindable"] and cmd not in unc:
                st["cache"].append(e)
            if cmd in resets:
                reset()
            elif cmd == "clear_checkpoint":
                st["cache"] = None
            elif cmd == "_start_suspender":
                rewind("suspend")
                helpers.append([st["rewindable"], 0])
            elif cmd == "rewindable" and e[3] is None and helpers:
                h = helpers[-1]
                new = False if h[1] == 0 else h[0]
                if h[1] == 0:
                    h[1] = 1
                else:
                    helpers.pop()
                if new != st["rewindable"]:
                    st["rewindable"] = new
                    reset()
    return all(r["safe"] for r in rewinds), rewinds


OUTSIDE = []   # differences with ReplaySafe false: listed in the evidence, not reported


def _hung(o):
    return any(r[1] == "hang" for r in o.get("returns", []))


def settle(sc, o, runner=run_scenario):
    """a blocking call that did not return within the harness time-out may be an overloaded machine, not a stuck
    engine: run the (deterministic) scenario again, alone, before believing it"""
    for _ in range(2):
        if not _hung(o):
            break
        o = runner(sc)
    return o


def oracle(sc, o):
    o = settle(sc, o)
    base = settle(sc, baseline_of(sc))
    bad = []
    rbad, f4 = returns_ok(o)
    diffs = compare(base, o)
    if not rbad and not diffs:
        return []
    safe, rewinds = replay_safe(sc, o)
    where = where_landed(sc, o)
    for kind, text in rbad + diffs:
        if safe:
            bad.append((f"{kind}:{where}", f"{text} (interruptions: {where}; ReplaySafe holds at all {len(rewinds)} rewinds)"))
        else:
            OUTSIDE.append({"sig": f"{kind}:{where}", "what": text, "unsafe_stream": bool(sc.get("c03_unsafe_stream")), "why": [r["why"] for r in rewinds if not r["safe"]][:2]})
    return bad


# ------------------------------------------------------------------------------------------------ small replay model
def replay_trace(sc, o):
    """the implementation's executed message trace as steps of the small replay model (Engine/Replay.lean):
    set (value from the device ledger) / bundle (create, reads, save; stream name from the plan statement of the
    `create`) / checkpoint (cache emptied: counters snapshotted) / rewind"""
    unc, resets = _facts()
    tab = _msg_table(sc)
    merged = []
    for key in ("msgs", "ledger", "returns"):
        merged += [(t, key, e) for t, e in zip(o["ticks"][key], o[key])]
    merged.sort(key=lambda x: x[0])
    steps = []
    cur = {}      # run key -> [stream, [objs]] of the open bundle
    keyrun = {}   # run key -> index of the run it names now
    nruns = 0
    cache_len = 0  # mirrors `if len_msg_cache` of _rewind
    rewindable = [True]
    helpers = []

    def do_rewind():
        nonlocal cache_len, cur
        steps.append({"k": "rewind", "nonempty": cache_len > 0})
        if cache_len:
            cur = {}
        cache_len = 0

    for _, key, e in merged:
        if key == "returns":
            if e[1] == "raise:RunEngineInterrupted" and e[2] == "paused":
                do_rewind()
        elif key == "msgs":
            cmd, obj, run, mid = e
            rk = run or ""
            if rewindable[0] and cmd not in unc:
                cache_len += 1
            if cmd == "open_run":
                keyrun[rk] = nruns
                nruns += 1
            elif cmd == "create":
                name = (tab.get(mid, {}).get("kw") or {}).get("name", "primary")
                cur[rk] = [name, []]
            elif cmd == "read" and rk in cur:
                cur[rk][1].append(obj)
            elif cmd == "save" and rk in cur:
                b = cur.pop(rk)
                if b[1]:
                    steps.append({"k": "bundle", "stream": f"{keyrun.get(rk, -1)}/{b[0]}", "objs": b[1]})
            elif cmd == "drop":
                cur.pop(rk, None)
            if cmd in resets:
                steps.append({"k": "checkpoint"})
                cache_len = 0
            elif cmd == "_start_suspender":
                do_rewind()
                helpers.append([rewindable[0], 0])
            elif cmd == "rewindable" and mid is None and helpers:
                h = helpers[-1]
                new = False if h[1] == 0 else h[0]
                if h[1] == 0:
                    h[1] = 1
                else:
                    helpers.pop()
                if new != rewindable[0]:
                    rewindable[0] = new
                    steps.append({"k": "checkpoint"})
                    cache_len = 0
        elif key == "ledger":
            if e[1] == "set" and e[2] != "raise":
                steps.append({"k": "set", "dev": e[0], "v": e[2]})
    devs = [{"name": n, "kind": s["kind"], "offset": s.get("offset", 0)} for n, s in sorted(sc["devices"].items())]
    want = [[f"{d['run'][4:]}/{d['stream']}", d["seq"], sorted([k, v] for k, v in d["data"].items())] for d in o["docs"] if d["k"] == "event" and d["stream"] != "interruptions"]
    return {"op": "trace", "devices": devs, "steps": steps}, want


def check_replay_model(res, pairs):
    """(1) the small replay model run on the message trace of an implementation run must emit the implementation's
    events (stream, seq_num, data), in order; (2) the Lean `replaySafeB` must agree with the Python evaluation of
    ReplaySafe at every rewind whose cache holds only completed bundles"""
    reqs, tags = [], []
    for sc, o in pairs:
        r, w = replay_trace(sc, o)
        reqs.append(json.dumps(r))
        tags.append(("trace", sc, w))
        for rw in replay_safe(sc, o)[1]:
            if rw["cache"].count("create") == rw["cache"].count("save") + rw["cache"].count("drop"):
                reqs.append(json.dumps(rw["lean"]))
                tags.append(("safe", sc, rw["safe"]))
    replies = C.lean_batch(REPLAY_DRIVER, reqs, timeout=1500)
    n_bad = 0
    for (kind, sc, want), rep in zip(tags, replies):
        rep = json.loads(rep)
        if kind == "trace":
            got = [[e[0], e[1], sorted([k, v] for k, v in e[2])] for e in rep["events"]]
            res.count("replay-model-traces")
            if got != want:
                n_bad += 1
                if n_bad <= 2:
                    first = next((i for i, (x, y) in enumerate(zip(got, want)) if x != y), min(len(got), len(want)))
                    res.disagreements.append({"case": sc, "first_difference": {"key": "replay-model-events", "index": first, "model": got[first:first + 2], "impl": want[first:first + 2], "lens": [len(got), len(want)]}})
        else:
            res.count("replay-safe-evaluations")
            if rep["safe"] != want:
                n_bad += 1
                if n_bad <= 2:
                    res.disagreements.append({"case": sc, "first_difference": {"key": "ReplaySafe", "model": rep["safe"], "impl": want}})
    return n_bad


# ------------------------------------------------------------------------------------------------ run
def build_cases(ctx):
    rng = ctx.rng
    thorough = ctx.tier == "thorough" or ctx.deep
    n_plans = ctx.budget(3, 120)
    cases = []
    for i in range(n_plans):
        plan = gen_wf_plan(rng, npoints=None if thorough else rng.choice([2, 2, 3]))
        cases += sweep(rng, plan, n_double=(16 if thorough else 12), n_triple=(10 if thorough else 0))
    # the separate stream outside the hypothesis: a motor is moved after the bundle, before the next checkpoint
    for i in range(ctx.budget(1, 6)):
        plan = gen_wf_plan(rng, npoints=2, unsafe_tail=True)
        cases += sweep(rng, plan, n_double=(10 if thorough else 2), n_triple=0, unsafe=True)
    return cases


def run(ctx, model=True):
    import c03_builtin

    del OUTSIDE[:]
    cases = build_cases(ctx)
    rng = ctx.rng

    def one_more(r):
        plan = gen_wf_plan(r)
        base = E.number(base_scenario(r, plan))
        n = len(baseline_of(base)["arrivals"])
        return variant(r, base, [(r.choice(KINDS), r.randrange(0, n))])

    res = E.run_property(ctx, "C03", oracle, gen=one_more, quick=1, thorough=1, model=model, extra_scenarios=cases)
    if res.disagreements and model:
        # keep only disagreements that are reproducible (a timed-out implementation run is not one)
        kept = []
        for d in res.disagreements:
            impl, models = E.run_both([d["case"]])
            if _hung(impl[0]):
                impl = [settle(d["case"], impl[0])]
            dd = E.diff(models[0], E.canon_impl(impl[0]))
            if dd:
                kept.append({"case": d["case"], "first_difference": dd})
        res.disagreements = kept
    res.rule = ("(a) generated well-formed checkpointed plans (runs, run keys, nested runs, two streams, sleeps, triggers; "
                "deterministic devices) x one interruption of each kind (pause, deferred pause, suspend+release with pre/post plans) at "
                "EVERY arrival index of the baseline run + random double/triple interruptions; each compared with the baseline run of the "
                "same plan (sameData); non-trivial = a request actually landed; (b) built-in plans count/scan/grid_scan/list_scan/rel_scan "
                "on the real RunEngine, every arrival index (oracle only); (c) every scenario of (a) through the Lean engine model and "
                "its message trace through the small replay model")
    # ReplaySafe statistics + the outside-hypothesis list
    res.count("outside-hypothesis", len(OUTSIDE))
    unexpected = [x for x in OUTSIDE if not x["unsafe_stream"]]
    res.facts["outside_hypothesis"] = {"count": len(OUTSIDE), "from_well_formed_generator": len(unexpected), "examples": OUTSIDE[:5], "well_formed_examples": unexpected[:5]}
    if unexpected:
        res.notes.append(f"{len(unexpected)} differences outside ReplaySafe came from the WELL-FORMED generator: examine them")
    # (c') small replay model on the implementation's traces (baseline + a sample of the variants)
    if model:
        pairs = []
        seen = set()
        for sc in cases:
            k = plan_key(sc)
            if k not in seen:
                seen.add(k)
                b = copy.deepcopy(sc)
                b["script"] = {}
                pairs.append((b, baseline_of(sc)))
        step = max(1, len(cases) // ctx.budget(60, 1500))
        for sc in cases[::step]:
            pairs.append((sc, run_scenario(sc)))
        check_replay_model(res, pairs)
    # (b) the real built-in plans
    b = c03_builtin.run_builtin(ctx)
    for v in b["violations"]:
        res.violations.append(C.Violation(v["sig"], v["what"], v["case"]))
    for k, n in b["counts"].items():
        res.count(k, n)
    for case, took in b["seen"]:
        res.seen(case, took)
    res.facts["builtin_plans"] = b["summary"]
    res.samples.append({"builtin_sample": b["sample"]})
    RP.add_to(res, ["nonrewindable-region", "classic-flyer", "replayed-group", "noreplay-pause"])
    return res


def run_impl_only(ctx):
    return run(ctx, model=False)


def replay(ctx, data):
    r = RP.replay(data)
    if r is not None:
        return r
    case = data.get("case") or {}
    if case.get("builtin"):
        import c03_builtin

        res = C.Result()
        for v in c03_builtin.replay_case(case):
            res.violations.append(C.Violation(v["sig"], v["what"], case))
        return res
    return E.replay_property(ctx, data, oracle)
