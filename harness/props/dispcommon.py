"""Shared by C18 and C19: extractor for Disp/Generated.lean, callable pool, runners for the real
Dispatcher and the real RunEngine, the abstract subscription spec (oracle) and the case generators.

A *case* is a history.  Two levels:
  level "disp": operations applied directly to a real `bluesky.run_engine.Dispatcher`
      {"op":"sub","f":i,"name":s} {"op":"unsub","tok":t} {"op":"emit","k":kind,"doc":n}
  level "re": top-level actions on a real RunEngine
      {"op":"sub",...} {"op":"unsub",...}
      {"op":"call","subs":SUBS,"plan":[{"p":"psub","f":i,"name":s},{"p":"punsub","tok":t},{"p":"run","n":k}]}
      SUBS = {"kind":"none"} | {"kind":"callable","f":i} | {"kind":"list","fs":[..]} | {"kind":"dict","items":[[name, f | [f..]]..]}
Running a case yields a *trace* in the model's alphabet (sub/unsub/call/psub/punsub/emit -- what the
engine actually did, in order) plus the reply to every trace element and snapshots of the private
dictionaries; the Lean model is run on the trace and must give the same replies and snapshots.
"""
from __future__ import annotations

import ast
import copy
import itertools
import json
import re
import warnings

import common as C
import pyexpr as P

GEN_PATH = C.LEAN / "BlueskyVerif" / "Disp" / "Generated.lean"
MAIN_KINDS = ["start", "descriptor", "event", "stop"]


# ----------------------------------------------------------------------------- extractor
def _src(n):
    return ast.unparse(n)


def _method(tree, cls, name):
    c = P.find_class(tree, cls)
    for n in c.body:
        if isinstance(n, (ast.FunctionDef, ast.AsyncFunctionDef)) and n.name == name:
            return n
    raise P.Untranslatable(f"{cls}.{name} not found")


def _is_call_to(node, dotted):
    return isinstance(node, ast.Call) and P.dotted(node.func) == dotted


def extract_unsubscribe(fn):
    """Dispatcher.unsubscribe -> (guarded, scan_after_pop)."""
    body = P.body_wo_doc(fn)
    pop_src = "self._token_mapping.pop(token, [])"

    def is_disconnect(st, var):
        return isinstance(st, ast.Expr) and _is_call_to(st.value, "self.cb_registry.disconnect") and [_src(a) for a in st.value.args] == [var] and not st.value.keywords

    # old shape:  for private_token in self._token_mapping.pop(token, []): self.cb_registry.disconnect(private_token)
    if len(body) == 1 and isinstance(body[0], ast.For) and _src(body[0].iter) == pop_src and isinstance(body[0].target, ast.Name):
        v = body[0].target.id
        if len(body[0].body) == 1 and is_disconnect(body[0].body[0], v) and not body[0].orelse:
            return False, True
    # guarded shape
    pop_i = scan_i = None
    privs = inuse = None
    loop = None
    for i, st in enumerate(body):
        if isinstance(st, ast.Assign) and len(st.targets) == 1 and isinstance(st.targets[0], ast.Name):
            if _src(st.value) == pop_src:
                pop_i, privs = i, st.targets[0].id
                continue
            v = st.value
            if isinstance(v, (ast.SetComp, ast.ListComp)) and len(v.generators) == 2:
                g0, g1 = v.generators
                if (
                    _src(g0.iter) == "self._token_mapping.values()"
                    and isinstance(g0.target, ast.Name)
                    and _src(g1.iter) == g0.target.id
                    and isinstance(g1.target, ast.Name)
                    and _src(v.elt) == g1.target.id
                    and not g0.ifs
                    and not g1.ifs
                ):
                    scan_i, inuse = i, st.targets[0].id
                    continue
            raise P.Untranslatable(f"Dispatcher.unsubscribe: unrecognised assignment `{_src(st)}`")
        elif isinstance(st, ast.For) and loop is None:
            loop = st
            if i != len(body) - 1:
                raise P.Untranslatable("Dispatcher.unsubscribe: statements after the loop")
        else:
            raise P.Untranslatable(f"Dispatcher.unsubscribe: unrecognised statement `{_src(st)[:80]}`")
    if pop_i is None or loop is None or not isinstance(loop.target, ast.Name) or _src(loop.iter) != privs or loop.orelse:
        raise P.Untranslatable("Dispatcher.unsubscribe: pop / loop shape not recognised")
    v = loop.target.id
    if len(loop.body) == 1 and is_disconnect(loop.body[0], v) and scan_i is None:
        return False, True
    if len(loop.body) == 1 and isinstance(loop.body[0], ast.If) and scan_i is not None:
        iff = loop.body[0]
        if _src(iff.test) == f"{v} not in {inuse}" and len(iff.body) == 1 and is_disconnect(iff.body[0], v) and not iff.orelse:
            return True, scan_i > pop_i
    raise P.Untranslatable("Dispatcher.unsubscribe: loop body not recognised")


def extract_connect(fn):
    """CallbackRegistry.connect -> de-duplicates equal callables?"""
    dedup = False
    counter = False
    for st in P.body_wo_doc(fn):
        if isinstance(st, ast.If) and _src(st.test) == "proxy in self._func_cid_map[sig]":
            if len(st.body) == 1 and isinstance(st.body[0], ast.Return) and _src(st.body[0].value) == "self._func_cid_map[sig][proxy]" and not st.orelse:
                dedup = True
            else:
                raise P.Untranslatable("CallbackRegistry.connect: de-duplication branch not recognised")
        if isinstance(st, ast.AugAssign) and _src(st) == "self._cid += 1":
            counter = True
    srcs = [_src(s) for s in P.body_wo_doc(fn)]
    need = ["proxy = _BoundMethodProxy(func)", "cid = self._cid", "self._func_cid_map[sig][proxy] = cid", "self.callbacks[sig][cid] = proxy", "return cid"]
    if not counter or any(n not in srcs for n in need):
        raise P.Untranslatable("CallbackRegistry.connect: body not recognised")
    return dedup


def extract_process(fn):
    """CallbackRegistry.process -> (forward iteration?, collects when ignoring?)."""
    loops = [n for n in ast.walk(fn) if isinstance(n, ast.For)]
    if len(loops) != 1:
        raise P.Untranslatable("CallbackRegistry.process: expected one loop")
    loop = loops[0]
    it = _src(loop.iter)
    if it == "list(self.callbacks[sig].items())":
        forward = True
    elif it in ("reversed(list(self.callbacks[sig].items()))", "list(self.callbacks[sig].items())[::-1]", "reversed(self.callbacks[sig].items())"):
        forward = False
    else:
        raise P.Untranslatable(f"CallbackRegistry.process: iteration `{it}` not recognised")
    if len(loop.body) != 1 or not isinstance(loop.body[0], ast.Try):
        raise P.Untranslatable("CallbackRegistry.process: loop body is not a single try")
    tr = loop.body[0]
    if len(tr.body) != 1 or _src(tr.body[0]) != "func(*args, **kwargs)":
        raise P.Untranslatable("CallbackRegistry.process: try body not recognised")
    hs = [h for h in tr.handlers if _src(h.type) == "Exception"]
    if len(hs) != 1 or [(_src(h.type)) for h in tr.handlers] not in (["ReferenceError", "Exception"], ["Exception"]):
        raise P.Untranslatable("CallbackRegistry.process: handlers not recognised")
    hb = hs[0].body
    if len(hb) == 1 and isinstance(hb[0], ast.If) and _src(hb[0].test) == "self.ignore_exceptions":
        a, b = hb[0].body, hb[0].orelse
        if len(a) == 1 and _src(a[0]).startswith("exceptions.append(") and len(b) == 1 and isinstance(b[0], ast.Raise) and b[0].exc is None:
            return forward, True
    if len(hb) == 1 and isinstance(hb[0], ast.Raise) and hb[0].exc is None:
        return forward, False
    raise P.Untranslatable("CallbackRegistry.process: exception policy not recognised")


def extract_percall(tree):
    """RunEngine: which of __call__/_clear_call_cache/_subscribe/_unsubscribe touch _temp_callback_ids."""
    T = "self._temp_callback_ids"
    out = {}
    # _clear_call_cache
    fn = _method(tree, "RunEngine", "_clear_call_cache")
    uns = clr = False
    uns_i = clr_i = -1
    for i, st in enumerate(fn.body):
        if isinstance(st, ast.For) and _src(st.iter) == T and isinstance(st.target, ast.Name):
            if len(st.body) == 1 and _src(st.body[0]) == f"self.unsubscribe({st.target.id})" and not st.orelse:
                uns, uns_i = True, i
            else:
                raise P.Untranslatable("_clear_call_cache: loop over _temp_callback_ids not recognised")
        elif T in _src(st):
            if _src(st) == f"{T}.clear()":
                clr, clr_i = True, i
            else:
                raise P.Untranslatable(f"_clear_call_cache: unrecognised use of _temp_callback_ids `{_src(st)[:80]}`")
    if uns and clr and clr_i < uns_i:
        raise P.Untranslatable("_clear_call_cache: clears before unsubscribing")
    out["clearUnsubscribes"], out["clearClears"] = uns, clr
    # __call__
    fn = _method(tree, "RunEngine", "__call__")
    clear_i = sub_i = None
    temp = None
    for i, st in enumerate(fn.body):
        if _src(st) == "self._clear_call_cache()":
            clear_i = i
        if isinstance(st, ast.For) and "normalize_subs_input(subs)" in _src(st.iter):
            sub_i = i
            inner = st.body
            if len(inner) == 1 and isinstance(inner[0], ast.For) and len(inner[0].body) == 1:
                s = _src(inner[0].body[0])
                if s == f"{T}.add(self.subscribe(func, name))":
                    temp = True
                elif s == "self.subscribe(func, name)":
                    temp = False
    if clear_i is None or sub_i is None or temp is None or clear_i > sub_i:
        raise P.Untranslatable("RunEngine.__call__: _clear_call_cache / per-call subscription loop not recognised")
    out["perCallSubsTemp"] = temp
    # _subscribe
    fn = _method(tree, "RunEngine", "_subscribe")
    srcs = [_src(s) for s in P.body_wo_doc(fn)]
    if "token = self.subscribe(*args, **kwargs)" not in srcs or "return token" not in srcs:
        raise P.Untranslatable("RunEngine._subscribe: body not recognised")
    uses = [s for s in srcs if T in s]
    if uses == [f"{T}.add(token)"]:
        out["inPlanSubscribeTemp"] = True
    elif uses == []:
        out["inPlanSubscribeTemp"] = False
    else:
        raise P.Untranslatable("RunEngine._subscribe: use of _temp_callback_ids not recognised")
    # _unsubscribe
    fn = _method(tree, "RunEngine", "_unsubscribe")
    srcs = [_src(s) for s in P.body_wo_doc(fn)]
    if "self.unsubscribe(token)" not in srcs:
        raise P.Untranslatable("RunEngine._unsubscribe: body not recognised")
    uses = [s for s in srcs if T in s]
    if uses == [f"{T}.remove(token)"] and srcs.index(f"{T}.remove(token)") > srcs.index("self.unsubscribe(token)"):
        out["inPlanUnsubscribeForgets"] = True
    elif uses == []:
        out["inPlanUnsubscribeForgets"] = False
    else:
        raise P.Untranslatable("RunEngine._unsubscribe: use of _temp_callback_ids not recognised")
    # RE.subscribe / RE.unsubscribe pass through
    for nm, want in (("subscribe", "return self.dispatcher.subscribe(func, name)"), ("unsubscribe", "return self.dispatcher.unsubscribe(token)")):
        fn = _method(tree, "RunEngine", nm)
        if [_src(s) for s in P.body_wo_doc(fn)] != [want]:
            raise P.Untranslatable(f"RunEngine.{nm} is not a pass-through to the dispatcher")
    return out


def extract_subscribe(fn):
    """Dispatcher.subscribe: the two branches are the ones the model transcribes."""
    srcs = [_src(s) for s in P.body_wo_doc(fn)]
    tail = srcs[-5:]
    want_tail = [
        "name = DocumentNames[name]",
        "private_token = self.cb_registry.connect(name, func)",
        "public_token = next(self._counter)",
        "self._token_mapping[public_token] = [private_token]",
        "return public_token",
    ]
    all_branch = [s for s in P.body_wo_doc(fn) if isinstance(s, ast.If) and _src(s.test) == "name == 'all'"]
    want_all = [
        "private_tokens = []",
        "for key in DocumentNames:\n    private_tokens.append(self.cb_registry.connect(key, func))",
        "public_token = next(self._counter)",
        "self._token_mapping[public_token] = private_tokens",
        "return public_token",
    ]
    if tail != want_tail or len(all_branch) != 1 or [_src(s) for s in all_branch[0].body] != want_all:
        raise P.Untranslatable("Dispatcher.subscribe: body not recognised")


def extract(ctx=None):
    from event_model import DocumentNames

    re_tree = ast.parse((C.SRC / "run_engine.py").read_text())
    ut_tree = ast.parse((C.SRC / "utils" / "__init__.py").read_text())
    facts = {}
    guarded, after = extract_unsubscribe(_method(re_tree, "Dispatcher", "unsubscribe"))
    extract_subscribe(_method(re_tree, "Dispatcher", "subscribe"))
    facts["unsubGuarded"], facts["unsubScanAfterPop"] = guarded, after
    facts["connectDedup"] = extract_connect(_method(ut_tree, "CallbackRegistry", "connect"))
    facts["processForward"], facts["processCollectsWhenIgnoring"] = extract_process(_method(ut_tree, "CallbackRegistry", "process"))
    facts.update(extract_percall(re_tree))
    ua = _method(re_tree, "Dispatcher", "unsubscribe_all")
    facts["unsubAllIsLoop"] = [_src(s) for s in P.body_wo_doc(ua)] == [
        "for public_token in list(self._token_mapping.keys()):\n    self.unsubscribe(public_token)"]
    names = [d.name for d in DocumentNames]
    out = [
        "-- GENERATED by harness/props/dispcommon.py from src/bluesky/run_engine.py and src/bluesky/utils/__init__.py -- do not edit.",
        "namespace BlueskyVerif.Disp.Generated",
        "/-- `[d.name for d in event_model.DocumentNames]` -/",
        "def documentNames : List String := [" + ", ".join(json.dumps(n) for n in names) + "]",
    ]
    docs = {
        "connectDedup": "CallbackRegistry.connect returns the existing cid when an equal callable is already connected to the signal",
        "processForward": "CallbackRegistry.process walks `list(self.callbacks[sig].items())` forwards",
        "processCollectsWhenIgnoring": "CallbackRegistry.process: `if self.ignore_exceptions: exceptions.append(...) else: raise`",
        "unsubGuarded": "Dispatcher.unsubscribe disconnects a private token only `if private_token not in still_in_use`",
        "unsubScanAfterPop": "Dispatcher.unsubscribe computes `still_in_use` after popping the token",
        "clearUnsubscribes": "_clear_call_cache: `for cid in self._temp_callback_ids: self.unsubscribe(cid)`",
        "clearClears": "_clear_call_cache: `self._temp_callback_ids.clear()`",
        "perCallSubsTemp": "__call__: `self._temp_callback_ids.add(self.subscribe(func, name))`",
        "inPlanSubscribeTemp": "_subscribe: `self._temp_callback_ids.add(token)`",
        "inPlanUnsubscribeForgets": "_unsubscribe: `self._temp_callback_ids.remove(token)`",
        "unsubAllIsLoop": "Dispatcher.unsubscribe_all is exactly `for public_token in list(self._token_mapping.keys()): self.unsubscribe(public_token)`",
    }
    for k, doc in docs.items():
        out += [f"/-- {doc} -/", f"def {k} : Bool := {'true' if facts[k] else 'false'}"]
    out += ["end BlueskyVerif.Disp.Generated", ""]
    C.write_if_changed(GEN_PATH, "\n".join(out))
    facts["documentNames"] = names
    facts["source"] = "run_engine.py: Dispatcher.subscribe/unsubscribe, RunEngine.__call__/_clear_call_cache/_subscribe/_unsubscribe; utils/__init__.py: CallbackRegistry.connect/process"
    return facts


# ----------------------------------------------------------------------------- callables
class CbError(Exception):
    def __init__(self, ident):
        super().__init__(ident)
        self.ident = ident

    def __repr__(self):
        return f"CbError({self.ident})"


class Pool:
    """Callables with identities 0..n-1.  Identity i is, cyclically: a plain function, a bound method
    `a.m1`, another bound method `a.m2` of the SAME object, a callable object, a bound method `b.m1` of
    another object.  Bound methods are created afresh at every use (`getattr`), so two uses of the
    same identity are different Python objects that compare equal -- exactly the case the registry's
    proxy equality is about."""

    def __init__(self, n, raise_at=()):
        self.n = n
        self.raise_at = {(int(f), int(k)) for f, k in raise_at}
        self.counts = [0] * n
        self.called = []  # invocations during the current emit: callable ids
        self.current = None  # (kind name, doc object) being emitted
        self.mismatch = []
        pool = self

        class Holder:
            def __init__(self, i1, i2):
                self.i1, self.i2 = i1, i2

            def m1(self, name, doc):
                pool.rec(self.i1, name, doc)

            def m2(self, name, doc):
                pool.rec(self.i2, name, doc)

        class CallableObj:
            def __init__(self, i):
                self.i = i

            def __call__(self, name, doc):
                pool.rec(self.i, name, doc)

        self._get = []
        self._key = {}
        holder = None
        for i in range(n):
            kind = i % 5
            if kind == 0:

                def f(name, doc, _i=i):
                    pool.rec(_i, name, doc)

                self._get.append(lambda f=f: f)
                self._key[("func", id(f))] = i
                self._keep = getattr(self, "_keep", []) + [f]
            elif kind == 1:
                holder = Holder(i, i + 1)
                self._keep = getattr(self, "_keep", []) + [holder]
                self._get.append(lambda h=holder: h.m1)
                self._key[("meth", id(holder), "m1")] = i
            elif kind == 2:
                h = holder
                self._get.append(lambda h=h: h.m2)
                self._key[("meth", id(h), "m2")] = i
            elif kind == 3:
                o = CallableObj(i)
                self._keep = getattr(self, "_keep", []) + [o]
                self._get.append(lambda o=o: o)
                self._key[("func", id(o))] = i
            else:
                hb = Holder(i, -1)
                self._keep = getattr(self, "_keep", []) + [hb]
                self._get.append(lambda h=hb: h.m1)
                self._key[("meth", id(hb), "m1")] = i

    def cb(self, i):
        return self._get[i]()

    def ident_of(self, obj):
        """identity of a callable or of a registry proxy"""
        inst = getattr(obj, "inst", None)
        if hasattr(obj, "func") and hasattr(obj, "klass"):  # _BoundMethodProxy
            if inst is not None:
                return self._key.get(("meth", id(inst()), obj.func.__name__), -1)
            return self._key.get(("func", id(obj.func)), -1)
        if hasattr(obj, "__self__") and hasattr(obj, "__func__"):
            return self._key.get(("meth", id(obj.__self__), obj.__func__.__name__), -1)
        return self._key.get(("func", id(obj)), -1)

    def rec(self, i, name, doc):
        self.called.append(i)
        if self.current is not None and (name != self.current[0] or doc is not self.current[1]):
            self.mismatch.append({"callable": i, "got_name": name, "emitted_name": self.current[0], "same_doc_object": doc is self.current[1]})
        k = self.counts[i]
        self.counts[i] += 1
        if (i, k) in self.raise_at:
            raise CbError(i)


def n_callables(case):
    m = 0

    def see(f):
        nonlocal m
        m = max(m, int(f) + 1)

    for op in case["ops"]:
        if "f" in op:
            see(op["f"])
        if op.get("op") == "call":
            for _, f in expand_subs(op["subs"]):
                see(f)
            for p in op["plan"]:
                if "f" in p:
                    see(p["f"])
    for f, _ in case.get("raise_at", []):
        see(f)
    return max(m, 1)


def snapshot(pool, disp, temp=()):
    reg = disp.cb_registry
    cbs = {}
    for sig, d in reg.callbacks.items():
        if d:
            cbs[sig.name] = [[cid, pool.ident_of(proxy)] for cid, proxy in d.items()]
    fc = {}
    for sig, m in reg._func_cid_map.items():
        items = sorted(([pool.ident_of(proxy), cid] for proxy, cid in m.items()), key=lambda p: p[1])
        if items:
            fc[sig.name] = items
    return {
        "tokens": [[t, list(p)] for t, p in disp._token_mapping.items()],
        "counter": next(copy.copy(disp._counter)),
        "cid": reg._cid,
        "callbacks": cbs,
        "funcCid": fc,
        "temp": sorted(temp),
    }


_WARN_RE = re.compile(r"CbError\((\d+)\)")


def _emit(pool, process, kname, doc):
    """call process(DocumentNames[kname], doc); -> reply dict.  Re-raises nothing."""
    from event_model import DocumentNames

    pool.called = []
    pool.current = (kname, doc)
    raised = None
    with warnings.catch_warnings(record=True) as w:
        warnings.simplefilter("always")
        try:
            process(DocumentNames[kname], doc)
        except CbError as e:
            raised = e
        finally:
            pool.current = None
    collected = [int(m.group(1)) for x in w for m in [_WARN_RE.search(str(x.message))] if m]
    rep = {"called": list(pool.called)}
    if raised is not None:
        rep["raised"] = raised.ident
    else:
        rep["collected"] = collected
    return rep, raised


# ----------------------------------------------------------------------------- level "disp"
def run_disp(case):
    from bluesky.run_engine import Dispatcher

    pool = Pool(n_callables(case), case.get("raise_at", ()))
    d = Dispatcher()
    d.ignore_exceptions = bool(case.get("ignore", False))
    replies, snaps = [], {}
    for i, op in enumerate(case["ops"]):
        o = op["op"]
        if o == "sub":
            try:
                replies.append(d.subscribe(pool.cb(op["f"]), op["name"]))
            except KeyError:
                replies.append("KeyError")
        elif o == "unsub":
            d.unsubscribe(op["tok"])
            replies.append(None)
        elif o == "emit":
            rep, _ = _emit(pool, d.process, op["k"], {"id": op["doc"]})
            replies.append(rep)
        elif o == "unsuball":
            d.unsubscribe_all()
            replies.append(None)
        else:
            raise ValueError(o)
        snaps[i] = snapshot(pool, d)
    return {"trace": list(case["ops"]), "replies": replies, "snaps": snaps, "mismatch": pool.mismatch, "calls": []}


# ----------------------------------------------------------------------------- level "re"
_LOOP = None


def _loop():
    global _LOOP
    if _LOOP is None:
        import asyncio

        _LOOP = asyncio.new_event_loop()
    return _LOOP


def subs_names():
    from bluesky.utils import SUBS_NAMES

    return list(SUBS_NAMES)


def expand_subs(spec):
    """What `RE(plan, subs)` is documented to subscribe: a callable or a list -> 'all'; a dict -> by key.
    Order: keys in the order of bluesky.utils.SUBS_NAMES, callables in the order given."""
    k = spec["kind"]
    if k == "none":
        return []
    if k == "callable":
        return [("all", spec["f"])]
    if k == "list":
        return [("all", f) for f in spec["fs"]]
    out = []
    for name in ["all", "start", "stop", "event", "descriptor"]:
        for key, v in spec["items"]:
            if key == name:
                out += [(name, f) for f in (v if isinstance(v, list) else [v])]
    return out


def _subs_arg(pool, spec):
    k = spec["kind"]
    if k == "none":
        return None
    if k == "callable":
        return pool.cb(spec["f"])
    if k == "list":
        return [pool.cb(f) for f in spec["fs"]]
    d = {}
    for key, v in spec["items"]:
        d[key] = [pool.cb(f) for f in v] if isinstance(v, list) else pool.cb(v)
    return d


def run_re(case):
    """Run a level-"re" case on a real RunEngine."""
    import bluesky.plan_stubs as bps
    import bluesky.plans as bp
    from bluesky.run_engine import RunEngine
    from ophyd.sim import det

    pool = Pool(n_callables(case), case.get("raise_at", ()))
    RE = RunEngine({}, context_managers=[], loop=_loop())
    RE.ignore_callback_exceptions = bool(case.get("ignore", False))
    trace, replies, snaps, calls = [], [], {}, []
    docs = []  # emitted documents in order: (kind, doc)
    mode = {"m": "top", "percall": None}
    orig_process = RE.dispatcher.process
    orig_subscribe = RE.subscribe

    def process(name, doc):
        idx = len(docs)
        docs.append((name.name, doc))
        trace.append({"op": "emit", "k": name.name, "doc": idx})
        rep, raised = _emit(pool, orig_process, name.name, doc)
        replies.append(rep)
        if raised is not None:
            raise raised

    def subscribe(func, name="all"):
        tok = orig_subscribe(func, name)
        if mode["m"] == "percall":
            mode["percall"].append([name, pool.ident_of(func), tok])
        return tok

    RE.dispatcher.process = process
    RE.subscribe = subscribe

    def plan(steps):
        mode["m"] = "plan"
        for p in steps:
            if p["p"] == "psub":
                trace.append({"op": "psub", "f": p["f"], "name": p["name"]})
                replies.append(None)
                at = len(replies) - 1
                try:
                    replies[at] = yield from bps.subscribe(p["name"], pool.cb(p["f"]))
                except KeyError:
                    replies[at] = "KeyError"
            elif p["p"] == "punsub":
                trace.append({"op": "punsub", "tok": p["tok"]})
                replies.append(None)
                at = len(replies) - 1
                try:
                    yield from bps.unsubscribe(p["tok"])
                except KeyError:
                    replies[at] = "KeyError"
            elif p["p"] == "run":
                yield from bp.count([det], num=p["n"])
            else:
                raise ValueError(p)

    for op in case["ops"]:
        o = op["op"]
        if o == "sub":
            trace.append({"op": "sub", "f": op["f"], "name": op["name"]})
            try:
                replies.append(RE.subscribe(pool.cb(op["f"]), op["name"]))
            except KeyError:
                replies.append("KeyError")
        elif o == "unsub":
            trace.append({"op": "unsub", "tok": op["tok"]})
            RE.unsubscribe(op["tok"])
            replies.append(None)
        elif o == "unsuball":
            trace.append({"op": "unsuball"})
            RE.dispatcher.unsubscribe_all()
            replies.append(None)
        elif o == "call":
            t = {"op": "call", "subs": None, "given": [list(x) for x in expand_subs(op["subs"])]}
            trace.append(t)
            replies.append(None)
            mode["m"], mode["percall"] = "percall", []
            first_doc = len(docs)
            outcome = {"result": "ok"}
            try:
                RE(plan(op["plan"]), _subs_arg(pool, op["subs"]))
            except CbError as e:
                chain, x = [], e
                while x is not None and len(chain) < 20:
                    if isinstance(x, CbError):
                        chain.append(x.ident)
                    x = x.__cause__ or x.__context__
                outcome = {"result": "CbError", "ident": e.ident, "chain": chain}
            except Exception as e:  # anything else is reported as is
                outcome = {"result": type(e).__name__, "msg": str(e)[:200]}
            mode["m"] = "top"
            t["subs"] = [[n, f] for n, f, _ in mode["percall"]]
            t["tokens"] = [tok for _, _, tok in mode["percall"]]
            outcome["state"] = str(RE.state)
            outcome["docs"] = [[k, (d.get("exit_status") if k == "stop" else None)] for k, d in docs[first_doc:]]
            calls.append(outcome)
        else:
            raise ValueError(o)
        snaps[len(trace) - 1] = snapshot(pool, RE.dispatcher, RE._temp_callback_ids)
    return {"trace": trace, "replies": replies, "snaps": snaps, "mismatch": pool.mismatch, "calls": calls}


def run_impl(case):
    return run_re(case) if case.get("level") == "re" else run_disp(case)


# ----------------------------------------------------------------------------- model side
def model_request(case, obs):
    ops = []
    for t in obs["trace"]:
        if t["op"] == "call":
            ops.append({"op": "call", "subs": t["subs"]})
        else:
            ops.append(t)
    return json.dumps({"ignore": bool(case.get("ignore", False)), "raise_at": case.get("raise_at", []), "ops": ops, "snap": True})


def compare(case, obs, reply_line):
    """-> None or a dict describing the first difference between model and implementation."""
    m = json.loads(reply_line)
    if m.get("replies") != obs["replies"]:
        for i, (a, b) in enumerate(itertools.zip_longest(m.get("replies", []), obs["replies"], fillvalue="<missing>")):
            if a != b:
                return {"at": i, "op": obs["trace"][i] if i < len(obs["trace"]) else None, "model": a, "impl": b}
    for i, s in sorted(obs["snaps"].items()):
        ms = m["snaps"][int(i)] if int(i) < len(m.get("snaps", [])) else None
        if ms != s:
            return {"at": int(i), "op": obs["trace"][int(i)], "model_state": ms, "impl_state": s}
    return None


# ----------------------------------------------------------------------------- abstract spec (oracle)
class Spec:
    """The specification side, written independently of the code: the live subscriptions
    token -> (callable, name, scope) and, per kind, the callables that are live for that kind in the
    order in which they became live."""

    def __init__(self, kinds):
        self.kinds = kinds
        self.live = {}
        self.order = {k: [] for k in kinds}
        self.ever = set()
        self.history = {}  # callable -> list of (event, scope) for signatures

    @staticmethod
    def covers(name, k):
        return name == "all" or name == k

    def live_for(self, f, k):
        return any(s["f"] == f and self.covers(s["name"], k) for s in self.live.values())

    def add(self, tok, f, name, scope):
        self.live[tok] = {"f": f, "name": name, "scope": scope}
        self.ever.add(tok)
        self.history.setdefault(f, []).append(("sub", scope))
        for k in self.kinds:
            if self.covers(name, k) and f not in self.order[k]:
                self.order[k].append(f)

    def remove(self, tok, how):
        s = self.live.pop(tok, None)
        if s is not None:
            self.history.setdefault(s["f"], []).append((how, s["scope"]))
        self._prune()

    def drop_temporary(self):
        for tok in [t for t, s in self.live.items() if s["scope"] != "permanent"]:
            s = self.live.pop(tok)
            self.history.setdefault(s["f"], []).append(("call-ended", s["scope"]))
        self._prune()

    def _prune(self):
        for k in self.kinds:
            self.order[k] = [f for f in self.order[k] if self.live_for(f, k)]


def walk_spec(case, obs, on_emit, bad):
    """Drive the abstract spec along the observed trace; `on_emit(spec, op, reply, ctx)` judges each emission."""
    from event_model import DocumentNames

    kinds = [d.name for d in DocumentNames]
    spec = Spec(kinds)
    call_no = -1
    for i, (op, rep) in enumerate(zip(obs["trace"], obs["replies"])):
        o = op["op"]
        if o in ("sub", "psub"):
            valid = op["name"] == "all" or op["name"] in kinds
            if rep == "KeyError":
                if valid:
                    bad.append(("subscribe-rejected-valid-name", f"subscribe(f{op['f']}, {op['name']!r}) raised KeyError"))
                continue
            if not valid:
                bad.append(("subscribe-accepted-unknown-name", f"subscribe(f{op['f']}, {op['name']!r}) returned {rep}"))
                continue
            if rep in spec.ever:
                bad.append(("token-reused", f"subscribe returned token {rep} which was issued before"))
            spec.add(rep, op["f"], op["name"], "permanent" if o == "sub" else "in-plan")
        elif o == "unsub":
            spec.remove(op["tok"], "unsubscribed")
        elif o == "punsub":
            spec.remove(op["tok"], "unsubscribed")
        elif o == "unsuball":
            for tok in list(spec.live):
                spec.remove(tok, "unsubscribed-all")
        elif o == "call":
            call_no += 1
            spec.drop_temporary()
            if sorted(map(tuple, op["subs"])) != sorted(map(tuple, op["given"])):
                bad.append(("per-call-subs-not-subscribed-as-given", f"RE(plan, subs) subscribed {op['subs']} for subs={op['given']}"))
            for (name, f), tok in zip(op["subs"], op["tokens"]):
                if tok in spec.ever:
                    bad.append(("token-reused", f"per-call subscribe returned token {tok} which was issued before"))
                spec.add(tok, f, name, "per-call")
        elif o == "emit":
            on_emit(spec, op, rep, {"index": i, "call": call_no})
    return spec


def classify_missing(spec, f):
    h = spec.history.get(f, [])
    n_sub = sum(1 for e, _ in h if e == "sub")
    removed = [(e, sc) for e, sc in h if e != "sub"]
    if n_sub > 1 and removed:
        how, sc = removed[-1]
        return f"silenced:shared-callable:{sc}-token-{how}"
    if n_sub > 1:
        return "silenced:shared-callable"
    return "silenced:single-subscription"


def classify_extra(spec, f):
    h = spec.history.get(f, [])
    removed = [(e, sc) for e, sc in h if e != "sub"]
    if removed:
        how, sc = removed[-1]
        return f"leaked:{sc}-token-{how}"
    return "leaked:never-subscribed"


# ----------------------------------------------------------------------------- generators
def rand_name(rng, bogus=0.03):
    r = rng.random()
    if r < 0.35:
        return "all"
    if r < 0.35 + bogus:
        return "bogus"
    if r < 0.9:
        return rng.choice(MAIN_KINDS)
    return rng.choice(["resource", "datum", "event_page", "stream_datum"])


def gen_disp(rng, raising=False):
    nf = rng.choice([1, 2, 2, 3, 3, 4, 6])
    n = rng.choice([1, 2, 3, 4, 6, 8, 10, 14, 20])
    ops = []
    issued = 0
    doc = 0
    for _ in range(n):
        r = rng.random()
        if r < 0.42 or not ops:
            name = rand_name(rng)
            ops.append({"op": "sub", "f": rng.randrange(nf), "name": name})
            if name != "bogus":
                issued += 1
        elif r < 0.62:
            tok = rng.randrange(issued) if issued and rng.random() < 0.93 else rng.randrange(0, issued + 3)
            ops.append({"op": "unsub", "tok": tok})
        elif r < 0.65:
            ops.append({"op": "unsuball"})
        else:
            ops.append({"op": "emit", "k": rng.choice(MAIN_KINDS + ["start", "event", "resource"]), "doc": doc})
            doc += 1
    for k in rng.sample(MAIN_KINDS, 2):
        ops.append({"op": "emit", "k": k, "doc": doc})
        doc += 1
    case = {"level": "disp", "ignore": rng.random() < 0.5 if raising else False, "raise_at": [], "ops": ops}
    if raising:
        case["raise_at"] = sorted({(rng.randrange(nf), rng.choice([0, 0, 1, 1, 2, 3])) for _ in range(rng.choice([1, 1, 2, 3]))})
        case["raise_at"] = [list(x) for x in case["raise_at"]]
    return case


def exhaustive_disp(length, tail=True):
    """every history of exactly `length` operations over a small alphabet with two callables"""
    alpha = [{"op": "sub", "f": f, "name": nm} for f in (0, 1) for nm in ("all", "start")]
    alpha += [{"op": "unsub", "tok": t} for t in (0, 1, 2)]
    alpha += [{"op": "emit", "k": "start"}, {"op": "emit", "k": "event"}, {"op": "unsuball"}]
    for combo in itertools.product(alpha, repeat=length):
        ops = [dict(o) for o in combo]
        if tail:
            ops += [{"op": "emit", "k": "start"}, {"op": "emit", "k": "event"}]
        d = 0
        for o in ops:
            if o["op"] == "emit":
                o["doc"] = d
                d += 1
        yield {"level": "disp", "ignore": False, "raise_at": [], "ops": ops}


def gen_subs_spec(rng, nf):
    r = rng.random()
    if r < 0.25:
        return {"kind": "none"}
    if r < 0.45:
        return {"kind": "callable", "f": rng.randrange(nf)}
    if r < 0.7:
        return {"kind": "list", "fs": [rng.randrange(nf) for _ in range(rng.choice([1, 2, 2, 3]))]}
    keys = rng.sample(["all", "start", "stop", "event", "descriptor"], rng.choice([1, 2, 2, 3]))
    items = []
    for k in keys:
        if rng.random() < 0.5:
            items.append([k, rng.randrange(nf)])
        else:
            items.append([k, [rng.randrange(nf) for _ in range(rng.choice([1, 2]))]])
    return {"kind": "dict", "items": items}


def gen_re(rng, raising=False):
    nf = rng.choice([2, 2, 3, 3, 4, 5])
    ops = []
    issued = 0  # tokens expected to have been issued so far (counter simulation)
    n_top = rng.choice([2, 3, 3, 4, 5, 6])
    n_calls = 0
    for j in range(n_top):
        r = rng.random()
        if r < 0.3:
            name = rand_name(rng, bogus=0.02)
            ops.append({"op": "sub", "f": rng.randrange(nf), "name": name})
            if name != "bogus":
                issued += 1
        elif r < 0.40 and issued:
            ops.append({"op": "unsub", "tok": rng.randrange(issued + (1 if rng.random() < 0.1 else 0))})
        elif r < 0.46 and issued:
            ops.append({"op": "unsuball"})
        else:
            spec = gen_subs_spec(rng, nf)
            issued += len(expand_subs(spec))
            plan = []
            inplan = []
            for _ in range(rng.choice([1, 1, 2, 3, 4])):
                q = rng.random()
                if q < 0.3:
                    name = rand_name(rng, bogus=0.02)
                    plan.append({"p": "psub", "f": rng.randrange(nf), "name": name})
                    if name != "bogus":
                        inplan.append(issued)
                        issued += 1
                elif q < 0.45 and issued:
                    if inplan and rng.random() < 0.7:
                        tok = rng.choice(inplan)
                    else:
                        tok = rng.randrange(issued + (1 if rng.random() < 0.1 else 0))
                    plan.append({"p": "punsub", "tok": tok})
                else:
                    plan.append({"p": "run", "n": rng.choice([0, 1, 1, 2, 3])})
            if not any(p["p"] == "run" for p in plan):
                plan.append({"p": "run", "n": rng.choice([1, 2])})
            ops.append({"op": "call", "subs": spec, "plan": plan})
            n_calls += 1
    if n_calls == 0 or rng.random() < 0.6:
        ops.append({"op": "call", "subs": {"kind": "none"}, "plan": [{"p": "run", "n": 1}]})
    case = {"level": "re", "ignore": (rng.random() < 0.5) if raising else False, "raise_at": [], "ops": ops}
    if raising:
        case["raise_at"] = [list(x) for x in sorted({(rng.randrange(nf), rng.choice([0, 0, 1, 1, 2, 3, 4, 6])) for _ in range(rng.choice([1, 1, 2, 3]))})]
    return case


def corpus_cases(prop):
    d = C.VERIF / "corpus" / prop
    if d.exists():
        for f in sorted(d.glob("*.json")):
            yield json.loads(f.read_text())["case"]
