"""C07 -- RunEngine lifecycle never takes an illegal transition or gets stuck."""
from __future__ import annotations

import common as C
import re_probes as RP
import fault_probes as FP
import engine_common as E
import engine_extract

MANIFEST = {
    "text": "PARTIAL (one open finding). Lean: in the engine model the state and its transition log live in a "
    "structure that can only be extended through the table generated from RunEngineStateMachine.Meta.transitions, so "
    "every recorded change is an edge of the table in EVERY model state (by construction, kernel-checked); theorems "
    "show that whenever a blocking call returns the state is idle or paused unless the final 'idle' assignment was "
    "refused, that no other state assignment executed by _run can be refused ... (see Props/C07.lean). The model is tied "
    "to the real RunEngine by running both on generated plans x request scripts at every suspension point of _run.",
    "note": "Trusted: Lean kernel; engine_extract.py; the hand-written _run machine (Engine/Model.lean, Sim.lean) is tied by "
    "the correspondence run under a deterministic event loop (harness/simloop.py); threads/_state_lock, SIGINT and the "
    "panic path are not modelled (requests are atomic actions at _run's suspension points).",
    "technique": "Lean 4 proof over a program-counter model of RunEngine._run with source-extracted tables + differential runs against the real RunEngine",
}
LEAN_MODULES = ["BlueskyVerif.Props.C07"]
DRIVER_MODULES = E.DRIVER_MODULES
DRIVER = E.DRIVER
ASSUMPTIONS = ["requests from other threads act atomically while _run is suspended at an await", "synchronous fake devices; statuses complete only when the script says so"]


def extract(ctx):
    return engine_extract.extract()


def oracle(sc, o):
    bad = []
    table = engine_extract.extract()["transitions"] if not hasattr(oracle, "_t") else oracle._t
    oracle._t = table
    for a, b in o["trans"]:
        if b not in table.get(a, []):
            bad.append((f"illegal-transition:{a}->{b}", f"state changed {a} -> {b}, not in the transition table"))
    acts = [a["a"] for k in sc.get("script", {}) for a in sc["script"][k]]
    for r, txt in zip(o["returns"], o["return_texts"]):
        op, result, state = r[0], r[1], r[2]
        if result == "hang":
            bad.append((f"hang:{op}", f"blocking call {op} never returned (state {state})"))
        elif state not in ("idle", "paused"):
            cls = "suspend-request-while-finishing" if (state == "suspending" and "suspend" in acts) else f"state:{state}"
            bad.append((f"stuck:{cls}", f"{op} ended with {result} but the engine is left in state {state!r} ({txt[:80]})"))
        elif result == "raise:TransitionError":
            bad.append((f"transition-error-escaped:{op}", f"{op} raised TransitionError: {txt[:100]}"))
    return bad


def hook_probes(rng, n):
    """Implementation-only probes (NOT in the Lean model): a Pausable device whose pause() is a coroutine that
    really suspends gives _run one more suspension point, inside the pause sequence; a request from another
    thread may land there."""
    from engine_common import M, number, seq

    out = []
    for i in range(n):
        body = [M("open_run"), M("checkpoint"), M("set", "m1", 1 + i % 3, group="g"), M("wait", None, group="g")]
        body += [M("null")] * rng.randrange(0, 3) + [M("pause", None, defer=False), M("null"), M("close_run")]
        plan = {"k": "try", "body": seq(*body), "handler": None, "fin": seq(M("null"))}
        sc = {"record_interruptions": rng.random() < 0.5, "devices": {"m1": {"kind": "motor", "pausable": "async"}}, "plan": plan,
              "script": {}, "decisions": [rng.choice(["resume", "abort", "stop", "halt"]) for _ in range(3)], "max_arrivals": 200}
        base = E.run_scenario(number(sc))
        hooks = [k for k, a in enumerate(base["arrivals"]) if a == "hook"]
        if hooks:
            sc["script"] = {str(rng.choice(hooks)): [{"a": rng.choice(["abort", "stop", "halt", "pause", "abort"])}]}
        out.append(number(sc))
    return out


PROBE_JUDGES = [FP.ends_usable]


def run(ctx, model=True):
    res = E.run_property(ctx, "C07", oracle, gen=lambda rng: E.gen_scenario(rng, dense=rng.random() < 0.5), quick=150, thorough=4000, model=model)
    probes = hook_probes(ctx.rng, ctx.budget(12, 200))
    for sc in probes:
        o = E.run_scenario(sc)
        res.seen(sc, True)
        res.count("impl-only-probe:async-pause-hook")
        for sig, what in oracle(sc, o):
            res.violations.append(C.Violation("async-pause-hook:" + sig, "implementation-only probe (async pause hook): " + what, sc))
    res.notes.append(f"{len(probes)} implementation-only probes with an async Pausable.pause() hook (a suspension point of _run that the Lean model does not have)")
    FP.run_probes(ctx, res, PROBE_JUDGES, ["close", "teardown-request", "leftover-stage", "pause-hook", "async-stop"], 20, 400)
    RP.add_to(res, ["raising-state-hook"])
    return res


def run_impl_only(ctx):
    return run(ctx, model=False)


def replay(ctx, data):
    r = RP.replay(data)
    if r is not None:
        return r
    if FP.is_probe(data):
        return FP.replay_probe(ctx, data, PROBE_JUDGES)
    return E.replay_property(ctx, data, oracle)
