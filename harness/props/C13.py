"""C13 -- each yield receives the response to its own message."""
from __future__ import annotations

import copy

import common as C
import re_probes as RP
import fault_probes as FP
import engine_common as E
import engine_extract
from engine_common import M, seq
from props import c13lib as L

MANIFEST = {
    "text": "PARTIAL (one open finding, F6). Lean (Props/C13.lean): in the program-counter model of RunEngine._run the "
    "parallel plan-stack / response-stack discipline -- len(response_stack) + [a popped response in flight] = "
    "len(plan_stack), a response being in flight only while _run is suspended inside a command -- is a GLOBAL "
    "invariant: proved block by block (fin, takeResp, popPlan, afterResume, processMsg/afterCommand incl. "
    "_start_suspender pushing plan+slot, hCancel, pauseBlock, loopTop, leaveLoop, cleanup) and lifted through "
    "runLoop / advanceAt / every environment action (request_pause, request_suspend, abort/stop/halt, status "
    "completions, monitor updates) / schedule by induction on fuel, for EVERY plan (any generator behaviour), "
    "script and fuel, and for resume()/abort()/stop()/halt(). Local delivery theorems: the slot of the top plan is "
    "filled by processMsg with the value (or the exception) of the message that plan just yielded and the next "
    "afterSleep sends (throws) exactly that into the same generator; open_run returns the uid of the start document "
    "it emits and appends it to the list RE() returns; read returns the reading that is cached for (and emitted in) "
    "the event; set/trigger return the status created by that very call. C13_return_uids: a second GLOBAL invariant "
    "(every block / action / scheduler step extends _run_start_uids and the runs of the emitted start documents by the "
    "same entries) gives: what RE()/resume()/abort()/stop()/halt() return is exactly the list of start documents "
    "emitted since the call began, in order, for every plan, script and fuel. For commands that really suspend the "
    "theorem `C13_resumed_command_pushes` says what is pushed when _run is resumed; the full statement C13_full "
    "(only the command's own answer is ever pushed) is FALSE (Counterexamples/C13.lean, finding F6: a cancellation "
    "delivered inside `wait` answers it with None) and proved as C13_own_answer_partial for resumptions without a "
    "cancellation. The model is tied to the real RunEngine by running both on generated scenarios (plans that "
    "use every command with a response, pauses/suspensions with pre/post plans at every arrival incl. inside "
    "sleep/wait on pending statuses, rewinds) and the Python oracle checks on the IMPLEMENTATION's observation that "
    "every plan-level yield got the response of its own message and that RE()/resume() return the start uids.",
    "note": "Trusted: Lean kernel; engine_extract.py; the hand-written _run machine (Engine/Model.lean, Sim.lean), tied by "
    "the correspondence run under a deterministic event loop (harness/simloop.py). Preprocessor transparency is "
    "C20/C21; RunEngineResult (call_returns_result=True), flyers, `input`, threads are not modelled. A global "
    "trace-level statement (every logged `send r` is the value of the logged message with that id) is not proved: "
    "the model has no log of command results; the local delivery theorems + the global stack invariant stand for it.",
    "technique": "Lean 4 invariant proof over a program-counter model of RunEngine._run with source-extracted tables + differential runs against the real RunEngine",
}
LEAN_MODULES = ["BlueskyVerif.Props.C13"]
DRIVER_MODULES = E.DRIVER_MODULES
DRIVER = E.DRIVER
ASSUMPTIONS = [
    "requests from other threads act atomically while _run is suspended at an await",
    "synchronous fake devices; statuses complete only when the script says so",
    "plan messages carry a static id (mid); a message executed again with the same id is a replay from the message cache",
]


def extract(ctx):
    return engine_extract.extract()


# ----------------------------------------------------------------------------- oracle (on the implementation)
def oracle(sc, o):
    bad = []
    A = L.analyse(sc, o)
    helper_raises = any(a["a"] == "suspend" and (L.has_raise(a.get("pre")) or L.has_raise(a.get("post"))) for acts in sc.get("script", {}).values() for a in acts)
    any_failed_status = any(st[2] and not st[3] for st in o.get("statuses", []))
    seen = {}
    for ty, mid, kind, val in A.yields:
        if mid is None or mid < 0 or kind == "caught":
            continue
        if kind == "throw" and val in ("GeneratorExit", "PlanHalt"):
            continue  # close() of the plan / halt
        if mid not in A.first:
            bad.append((f"resumed-before-executed:{A.stmts.get(mid, {}).get('cmd')}", f"yield of message {mid} was resumed although the message never reached the engine"))
            continue
        t0, cmd, obj, run = A.first[mid]
        if ty < t0:
            bad.append((f"resumed-before-executed:{cmd}", f"yield of message {mid} ({cmd}) resumed at tick {ty} before its execution at {t0}"))
            continue
        seen[mid] = seen.get(mid, 0) + 1
        if seen[mid] > 1:
            bad.append((f"yield-resumed-twice:{cmd}", f"message {mid} ({cmd}) received a second response {kind} {val!r}"))
            continue
        exp = L.expected(A, mid)
        if kind == "send":
            if exp[0] == "throw":
                bad.append((f"exception-lost:{cmd}:{exp[1]}", f"message {mid} ({cmd} {obj}) raised {exp[1]} but its yield received send {val!r}"))
            elif exp[0] == "bool":
                if not isinstance(val, bool):
                    bad.append((f"wrong-response:{cmd}", f"message {mid} ({cmd}) received {val!r}, expected the rewindable flag"))
            elif exp[0] == "value" and exp[1] != val:
                intr = L.interrupted_inside(A, mid, ty)
                if cmd in L.BLOCKING and val is None and intr:
                    bad.append((f"response-lost:interrupted-blocking-command:{cmd}", f"message {mid} ({cmd}) was interrupted by {intr[0]} while _run was suspended inside it; its yield received None instead of {exp[1]!r} (replayed copies executed: {len(A.execs[mid]) - 1})"))
                else:
                    replay = ""
                    if len(A.execs[mid]) > 1:
                        replay = f" (the message was executed {len(A.execs[mid])} times)"
                    bad.append((f"wrong-response:{cmd}", f"message {mid} ({cmd} {obj}) received {val!r}, expected {exp[1]!r}{replay}"))
        elif kind == "throw":
            if val == "StopIteration":
                bad.append(("stopiteration-thrown-into-plan-below", f"message {mid} ({cmd}) received throw StopIteration (a plan above swallowed an exception and returned)"))
            elif exp[0] == "throw" and exp[1] == val:
                pass
            elif val in L.INTERRUPTIONS:
                pass
            elif val == "FailedStatus" and any_failed_status:
                pass
            elif val == "PlanError" and helper_raises:
                pass
            elif val in L.CMD_ERRORS.get(cmd, ()):
                pass
            elif L.explained_from_above(A, mid, ty, val, helper_raises):
                pass  # a helper / rewind plan above died with it: _run hands it to the next plan down
            else:
                bad.append((f"unexpected-throw:{cmd}:{val}", f"message {mid} ({cmd} {obj}) completed ({exp}) but its yield received throw {val}"))
    # the engine's own `assert len(self._response_stack) == len(self._plan_stack)` is the stack invariant itself
    for r, txt in zip(o["returns"], o.get("return_texts", [""] * len(o["returns"]))):
        if r[1] in ("raise:AssertionError", "raise:IndexError"):
            bad.append((f"stack-discipline-broken:{r[1][6:]}", f"{r[0]} ended with {r[1]} ({txt[:60]!r}): the response stack and the plan stack went out of step"))
    # RE(...) / resume() / abort() ... return the uids of the runs opened by this call, in order
    rv = o.get("return_values")
    if rv is not None:
        for (tr, r), v in zip(A.returns, rv):
            if r[1] != "return" or v is None:
                continue
            starts = [d["run"] for dt, d in A.docs if d["k"] == "start" and dt < tr]
            if list(v) != starts:
                bad.append((f"returned-uids-differ:{r[0]}", f"{r[0]} returned {v} but the start documents so far are {starts}"))
    return bad


# ----------------------------------------------------------------------------- targeted generator
def rich_plan(rng):
    """uses every command that has a response; the groups are waited immediately or later"""
    b = []
    staged = [d for d in ("m1", "d1", "d2") if rng.random() < 0.35]
    b += [M("stage", d) for d in staged]
    nruns = rng.choice([1, 2, 2, 3])
    for irun in range(nruns):
        b += run_body(rng, rng.choice([None, None, "a"]), last=(irun == nruns - 1))
    b += [M("unstage", d) for d in reversed(staged)]
    if rng.random() < 0.25:
        return {"k": "try", "body": seq(*b), "handler": seq(M("null")) if rng.random() < 0.5 else None, "fin": seq(M("null"))}
    return seq(*b)


def run_body(rng, key, last):
    b = []
    b.append(M("open_run", run=key))
    second = None
    if rng.random() < 0.2:   # a second run with its own key open at the same time
        second = "b"
        b.append(M("open_run", run=second))
    if rng.random() < 0.2:
        b.append(M("monitor", "s1", run=key, name="s1_monitor"))
    for _ in range(rng.choice([1, 1, 2])):
        if rng.random() < 0.85:
            b.append(M("checkpoint"))
        grp = rng.choice(["g", "h"])
        b.append(M("set", "m1", rng.choice([1, 2, 3, 5]), group=grp))
        if rng.random() < 0.4:
            b.append(M("set", "m2", rng.choice([1, 4]), group=grp))
        if rng.random() < 0.3:
            b.append(M("null"))
        b.append(M("wait", None, group=grp))
        if rng.random() < 0.6:
            b.append(M("trigger", "d1", group="t"))
            if rng.random() < 0.3:
                b.append(M("checkpoint"))
            b.append(M("wait", None, group="t"))
        if rng.random() < 0.4:
            b.append(M("sleep", None, rng.choice([0, 1, 5])))
        if rng.random() < 0.25:
            b.append(M("rewindable", None, rng.random() < 0.5))
        b.append(M("create", None, name="primary", run=key))
        for d in ("d1", "d2", "m1"):
            if rng.random() < 0.6:
                b.append(M("read", d, run=key))
        b.append(M("save", run=key) if rng.random() < 0.9 else M("drop", run=key))
        r = rng.random()
        if r < 0.1:
            b.append(M("pause", None, defer=rng.random() < 0.5))
        elif r < 0.15:
            b.append(M("clear_checkpoint"))
        elif r < 0.2:
            b.append(M("bogus"))
        elif r < 0.25:
            b.append(M("wait", None, group="never"))
    if second is not None and rng.random() < 0.8:
        b.append(M("close_run", run=second))
    if (not last) or rng.random() < 0.9:
        b.append(M("close_run", run=key))
    return b


def rich_devices(rng):
    def modes(choices, n=4):
        return [rng.choice(choices) for _ in range(n)]

    return {
        "m1": {"kind": "motor", "modes": {"set": modes(["pending", "pending", "done", "fail", "raise"] if rng.random() < 0.3 else ["pending", "done", "pending"])}, "pausable": rng.random() < 0.2},
        "m2": {"kind": "motor", "modes": {"set": modes(["done", "pending"])}},
        "d1": {"kind": "det", "modes": {"trigger": modes(["pending", "done", "done"]), **({"read": modes(["done", "done", "raise"])} if rng.random() < 0.2 else {})}, "offset": 1},
        "d2": {"kind": "det", "modes": ({"stage": ["raise"]} if rng.random() < 0.1 else {}), "offset": 2},
        "s1": {"kind": "sig"},
    }


def helper_plan(rng):
    k = rng.random()
    if k < 0.3:
        return None
    if k < 0.8:
        return seq(*[rng.choice([M("null"), M("set", "m2", 7, group="sp"), M("sleep", None, 1), M("wait", None, group="sp")]) for _ in range(rng.choice([1, 2]))])
    return {"k": "try", "body": seq(M("null")), "handler": None, "fin": seq(M("null"))}


class Gen:
    """one base scenario -> variants with an interruption at each (sampled) arrival of _run"""

    def __init__(self):
        self.queue = []

    def __call__(self, rng):
        if not self.queue:
            self.refill(rng)
        return self.queue.pop(0)

    def refill(self, rng):
        if rng.random() < 0.3:
            base = {"record_interruptions": rng.random() < 0.5, "devices": E.gen_devices(rng), "plan": E.gen_plan(rng), "script": {}, "decisions": [], "max_arrivals": 300}
        else:
            base = {"record_interruptions": rng.random() < 0.3, "devices": rich_devices(rng), "plan": rich_plan(rng), "script": {}, "decisions": [], "max_arrivals": 300}
        base["decisions"] = [rng.choice(["resume", "resume", "resume", "resume", "abort", "stop", "halt"]) for _ in range(6)]
        o = E.run_scenario(E.number(copy.deepcopy(base)))
        arr = o["arrivals"]
        inner = [i for i, k in enumerate(arr) if k in ("quiesce", "sleep", "ckpt")]
        outer = [i for i, k in enumerate(arr) if k in ("S1", "S4")]
        points = inner[:] + rng.sample(outer, min(len(outer), 4))
        rng.shuffle(points)
        out = [base]
        for at in points[:7]:
            sc = copy.deepcopy(base)
            r = rng.random()
            if r < 0.55:
                sc["script"] = {str(at): [{"a": "pause", "defer": rng.random() < 0.1}]}
                if rng.random() < 0.3:  # a second pause during the replay
                    sc["script"].setdefault(str(at + rng.randrange(1, 6)), []).append({"a": "pause", "defer": False})
            elif r < 0.9:
                sc["script"] = {str(at): [{"a": "suspend", "fut": 0, "pre": helper_plan(rng), "post": helper_plan(rng), "just": rng.choice([None, "beam"])}]}
                if rng.random() < 0.7:
                    sc["script"].setdefault(str(at + rng.randrange(1, 5)), []).append({"a": "release", "fut": 0})
                if rng.random() < 0.2:
                    sc["script"].setdefault(str(at + rng.randrange(1, 4)), []).append({"a": "pause", "defer": False})
            else:
                sc["script"] = {str(at): [{"a": rng.choice(["abort", "stop", "halt"])}]}
            if rng.random() < 0.3:
                sc["script"].setdefault(str(rng.randrange(0, len(arr) + 2)), []).append({"a": "status", "id": rng.randrange(0, 3), "ok": rng.random() < 0.7})
            out.append(sc)
        sc = copy.deepcopy(base)
        sc["script"] = E.gen_script(rng, len(arr), dense=rng.random() < 0.5)
        out.append(sc)
        self.queue = [E.number(s) for s in out]


def dropped_message_probe(rng, n):
    """Implementation-only probe of the preprocessor clause: msg_mutator with a processor that DROPS messages (returns
    None, as stub_wrapper does for open_run / close_run / stage / unstage): a dropped message is answered with None, every
    other message with the response to itself."""
    from bluesky.preprocessors import msg_mutator, stub_wrapper
    from bluesky.utils import Msg

    bad = []
    for case_no in range(n):
        k = rng.randrange(1, 9)
        use_stub = rng.random() < 0.3
        if use_stub:
            cmds = [(rng.choice(["open_run", "close_run", "stage", "unstage", "read", "set", "null", "save"]), None) for _ in range(k)]
            cmds = [(c, c in ("open_run", "close_run", "stage", "unstage")) for c, _ in cmds]
        else:
            cmds = [(rng.choice(["read", "set", "null", "trigger", "x"]), rng.random() < 0.4) for _ in range(k)]
        got = []

        def plan(cmds=cmds, got=got):
            for i, (c, _) in enumerate(cmds):
                got.append((yield Msg(c, None, i)))
            return "ret"

        g = stub_wrapper(plan()) if use_stub else msg_mutator(plan(), lambda m, cmds=cmds: None if cmds[m.args[0]][1] else m)
        seen, ret = [], None
        try:
            m = next(g)
            while True:
                seen.append(m.args[0])
                m = g.send(("resp", m.args[0]))
        except StopIteration as e:
            ret = e.value
        want = [None if d else ("resp", i) for i, (_, d) in enumerate(cmds)]
        case = {"probe": "dropped-message", "cmds": cmds, "stub_wrapper": use_stub}
        if got != want:
            first = next(i for i in range(len(want)) if i >= len(got) or got[i] != want[i])
            kind = "dropped" if cmds[first][1] else "kept"
            bad.append((f"preprocessor:{kind}-message-got-wrong-response", f"{'stub_wrapper' if use_stub else 'msg_mutator(drop)'} over {cmds}: yield #{first} ({kind}) received {got[first] if first < len(got) else '<nothing>'!r}, expected {want[first]!r}", case))
        elif seen != [i for i, (_, d) in enumerate(cmds) if not d] or (ret != "ret" and not use_stub):   # stub_wrapper returns the open_run metadata
            bad.append(("preprocessor:messages-or-return-value", f"passed on {seen}, returned {ret!r} for {cmds}", case))
    return bad


PROBE_JUDGES = [FP.plan_undisturbed]


def run(ctx, model=True):
    res = E.run_property(ctx, "C13", oracle, gen=Gen(), quick=160, thorough=4000, model=model)
    FP.run_probes(ctx, res, PROBE_JUDGES, ["list-plan-suspension"], 12, 200)
    n = ctx.budget(300, 5000)
    res.count("impl-only-probe:msg_mutator-dropping-messages", n)
    for sig, what, case in dropped_message_probe(ctx.rng, n):
        res.violations.append(C.Violation(sig, "implementation-only probe: " + what, case))
    RP.add_to(res, ["wrapper-response"])
    return res


def run_impl_only(ctx):
    return run(ctx, model=False)


def replay(ctx, data):
    r = RP.replay(data)
    if r is not None:
        return r
    if FP.is_probe(data):
        return FP.replay_probe(ctx, data, PROBE_JUDGES)
    if (data.get("case") or {}).get("probe") == "dropped-message":
        import random

        res = C.Result()
        for sig, what, case in dropped_message_probe(random.Random(0), 2000):
            res.violations.append(C.Violation(sig, what, case))
        return res
    return E.replay_property(ctx, data, oracle)
