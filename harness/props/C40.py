"""C40 -- interruption records are complete and uniquely numbered."""
from __future__ import annotations

import copy

import common as C
import engine_common as E
import engine_extract
from engine_common import M, seq

MANIFEST = {
    "text": "FULL for the modelled engine. Lean (Props/C40.lean over the shared engine model): RunBundler.record_interruption "
    "emits exactly one event (stream 'interruptions', seq = the stream's counter, the given text) iff the run has the "
    "interruptions descriptor and then advances AND commits the counter (driven by the generated fact "
    "Src.bundlerCommits, i.e. the fix commit 'rewind no longer rolls back seq_nums'); the engine's pause request, "
    "RE.resume() and _start_suspender each emit exactly one such event per open run with recording, in bundler order, and "
    "nothing else; for ANY sequence of bundler operations {record_interruption, rewind, reset_checkpoint, clear_checkpoint, "
    "events/descriptors of other streams} in which a rewind never follows a clear_checkpoint directly (the engine cannot "
    "rewind then) the seq_nums handed out are exactly n+1, n+2, ... (never reused) and close_run reports counter-1 = their "
    "number; open_run creates the stream iff record_interruptions. The model is tied to the real RunEngine by running both "
    "on generated plans x request scripts; the Python oracle states the property on the real documents.",
    "note": "Trusted: Lean kernel; engine_extract.py; the hand-written _run machine (tied by the correspondence run under a "
    "deterministic event loop); installed suspender objects are not modelled, only request_suspend.",
    "technique": "Lean 4 proof over the program-counter model of RunEngine + bundler with source-extracted facts; differential runs against the real RunEngine",
}
LEAN_MODULES = ["BlueskyVerif.Props.C40"]
DRIVER_MODULES = E.DRIVER_MODULES
DRIVER = E.DRIVER
ASSUMPTIONS = [
    "requests from other threads act atomically while _run is suspended at an await",
    "synchronous fake devices; statuses complete only when the script says so",
    "a run is open between its RunStart and its RunStop document",
]
STREAM = "interruptions"


def extract(ctx):
    return engine_extract.extract()


# ----------------------------------------------------------------------------- oracle
def _timeline(o):
    """[(tick, log, index)] of every log entry, by the global clock"""
    tl = []
    for key, ts in o["ticks"].items():
        for i, t in enumerate(ts):
            tl.append((t, key, i))
    tl.sort()
    return tl


def occurrences(sc, o):
    """[(tick, kind, allowed texts or None)]: the interruptions that happened, from trans / msgs / returns"""
    T = o["ticks"]
    occ = []
    for i, (a, b) in enumerate(o["trans"]):
        if b == "pausing":
            occ.append((T["trans"][i], "pause", ["pause"]))
    # suspension requests issued so far (arrival index -> tick)
    reqs = []
    for k, acts in sc.get("script", {}).items():
        k = int(k)
        if k < len(T["arrivals"]):
            for a in acts:
                if a["a"] == "suspend":
                    reqs.append((T["arrivals"][k], a.get("just") if a.get("just") is not None else "suspended"))
    for i, m in enumerate(o["msgs"]):
        if m[0] == "_start_suspender":
            t = T["msgs"][i]
            occ.append((t, "suspension", sorted({txt for (rt, txt) in reqs if rt < t})))
    for k in range(1, len(o["returns"])):
        if o["returns"][k][0] == "resume":
            occ.append((T["returns"][k - 1], "resume", ["resume"]))
    occ.sort()
    return occ


def oracle(sc, o):
    bad = []
    if any(r[1] == "hang" for r in o["returns"]):
        return bad  # C07's business
    rec = bool(sc.get("record_interruptions"))
    T = o["ticks"]
    docs = o["docs"]
    dt = T["docs"]
    start_t, stop_t = {}, {}
    for d, t in zip(docs, dt):
        if d["k"] == "start":
            start_t[d["run"]] = t
        elif d["k"] == "stop":
            stop_t[d["run"]] = t
    other = sorted(t for key, ts in T.items() if key != "docs" for t in ts)

    def window_end(t):
        import bisect

        i = bisect.bisect_right(other, t)
        return other[i] if i < len(other) else float("inf")

    if not rec:
        for d in docs:
            if d.get("stream") == STREAM or STREAM in d.get("num_events", {}):
                bad.append(("stream-exists-while-recording-disabled", f"record_interruptions is False but a {d['k']} document mentions the stream: {d}"))
                break
        return bad

    # the stream exists for every run: one descriptor, directly after the start document
    for r in start_t:
        n = sum(1 for d in docs if d["k"] == "descriptor" and d["run"] == r and d["stream"] == STREAM)
        if n != 1:
            bad.append(("interruptions-descriptor-count", f"run {r} has {n} 'interruptions' descriptors with recording enabled"))
    claimed = set()
    for t, kind, texts in occurrences(sc, o):
        end = window_end(t)
        open_runs = sorted(r for r, ts in start_t.items() if ts < t and stop_t.get(r, float("inf")) > t)
        got = {}
        for i, (d, td) in enumerate(zip(docs, dt)):
            if t < td < end and d["k"] == "event" and d["stream"] == STREAM:
                got.setdefault(d["run"], []).append(d["data"].get("interruption"))
                claimed.add(i)
        for r in open_runs:
            evs = got.get(r, [])
            if len(evs) == 0:
                bad.append((f"interruption-not-recorded:{kind}", f"{kind} at tick {t} while run {r} was open: no event in its 'interruptions' stream"))
            elif len(evs) > 1:
                bad.append((f"interruption-recorded-twice:{kind}", f"{kind} at tick {t}: run {r} got {len(evs)} events {evs}"))
            elif evs[0] not in texts:
                bad.append((f"interruption-wrong-text:{kind}", f"{kind} at tick {t}: run {r} recorded {evs[0]!r}, expected one of {texts}"))
        for r in got:
            if r not in open_runs:
                bad.append((f"interruption-recorded-in-closed-run:{kind}", f"{kind} at tick {t}: run {r} is not open but got {got[r]}"))
        if len({tuple(v) for v in got.values()}) > 1:
            bad.append((f"interruption-text-differs-between-runs:{kind}", f"{kind} at tick {t}: {got}"))
    for i, d in enumerate(docs):
        if d["k"] == "event" and d["stream"] == STREAM and i not in claimed:
            bad.append(("interruption-event-without-interruption", f"event {d} in the interruptions stream matches no pause / resume / suspension"))
    # numbering and the RunStop count
    for r in start_t:
        seqs = [d["seq"] for d in docs if d["k"] == "event" and d["run"] == r and d["stream"] == STREAM]
        if seqs != list(range(1, len(seqs) + 1)):
            cls = "reused" if len(set(seqs)) < len(seqs) else "gap"
            bad.append((f"interruption-seq-nums-not-1..N:{cls}", f"run {r}: seq_nums of the interruptions stream are {seqs}"))
        stops = [d for d in docs if d["k"] == "stop" and d["run"] == r]
        if stops:
            n = stops[0]["num_events"].get(STREAM)
            if n != len(seqs):
                bad.append(("runstop-interruptions-count", f"run {r}: {len(seqs)} interruption events but RunStop.num_events['interruptions'] = {n}"))
    return bad


# ----------------------------------------------------------------------------- targeted generator
def gen_plan(rng):
    two = rng.random() < 0.3
    keys = ["a", "b"] if two else [None]
    body = []
    if rng.random() < 0.3:
        body.append(M("stage", "d1"))
    for k in keys:
        body.append(M("open_run", run=k))
        if rng.random() < 0.3:
            body.append(M("sleep", None, 1))  # a place for an interruption before any checkpoint of the run
    if rng.random() < 0.2:
        body.append(M("monitor", "s1", run=keys[0], name="s1_monitor"))
    n = rng.choice([1, 2, 2, 3, 4])
    for _ in range(n):
        k = rng.choice(keys)
        if rng.random() < 0.6:
            body.append(M("checkpoint"))
        r = rng.random()
        if r < 0.25:
            body.append(M("pause", None, defer=rng.random() < 0.4))
        elif r < 0.33:
            body.append(M("clear_checkpoint"))  # FailedPause path for a later pause
        elif r < 0.40:
            body.append(M("rewindable", None, rng.random() < 0.5))
        if rng.random() < 0.5:
            body.append(M("set", "m1", rng.choice([1, 2, 3]), group="g"))
            body.append(M("wait", None, group="g"))
        if rng.random() < 0.4:
            body.append(M("sleep", None, rng.choice([0, 1, 3])))
        body.append(M("create", None, name="primary", run=k))
        body.append(M("read", "d1", run=k))
        body.append(M("save", run=k))
        if rng.random() < 0.15:
            body.append({"k": "raise"})
    for k in keys:
        if rng.random() < 0.85:
            body.append(M("close_run", run=k))
    if rng.random() < 0.3:
        # a second run after the first ones
        body += [M("open_run"), M("checkpoint"), M("sleep", None, 1), M("create", None, name="primary"), M("read", "d1"), M("save")]
        if rng.random() < 0.8:
            body.append(M("close_run"))
    return seq(*body)


def gen_script(rng, n_arr):
    script = {}
    fut = 0
    for _ in range(rng.choice([1, 2, 2, 3, 4, 5])):
        at = rng.randrange(0, max(1, n_arr + 3))
        r = rng.random()
        if r < 0.45:
            act = {"a": "pause", "defer": rng.random() < 0.3}
        elif r < 0.85:
            act = {"a": "suspend", "fut": fut, "pre": E.small_plan(rng), "post": E.small_plan(rng), "just": rng.choice([None, f"why{fut}"])}
            if rng.random() < 0.7:
                script.setdefault(str(at + rng.randrange(1, 5)), []).append({"a": "release", "fut": fut})
            fut += 1
        elif r < 0.90:
            act = {"a": rng.choice(["abort", "stop", "halt"])}
        else:
            act = {"a": "monitor", "sig": "s1", "v": rng.randrange(1, 9)}
        script.setdefault(str(at), []).append(act)
    return script


def normalise_script(script):
    """The harness executes status / monitor / release actions of an arrival at once and queues the requests
    (pause / suspend / abort / stop / halt) with call_soon; the model plays the list in order.  Put the immediate
    actions first so that both orders coincide."""
    imm = ("monitor", "status", "release")
    return {k: [a for a in v if a["a"] in imm] + [a for a in v if a["a"] not in imm] for k, v in script.items()}


def gen(rng):
    if rng.random() < 0.25:
        sc = E.gen_scenario(rng, dense=True)
        sc["record_interruptions"] = rng.random() < 0.8
        sc["script"] = normalise_script(sc["script"])
        return sc
    devs = {
        "m1": {"kind": "motor", "modes": {"set": [rng.choice(["done", "pending"]) for _ in range(3)]} if rng.random() < 0.5 else {}, "pausable": rng.random() < 0.3},
        "m2": {"kind": "motor", "modes": {}},
        "d1": {"kind": "det", "modes": {}, "offset": 1},
        "d2": {"kind": "det", "modes": {}, "offset": 2},
        "s1": {"kind": "sig"},
    }
    if devs["m1"]["pausable"] and rng.random() < 0.4:
        devs["m1"]["modes"]["pause"] = [rng.choice(["done", "noreplay"])]
    sc = {
        "record_interruptions": rng.random() < 0.8,
        "devices": devs,
        "plan": gen_plan(rng),
        "script": {},
        "decisions": [rng.choice(["resume"] * 6 + ["abort", "stop", "halt"]) for _ in range(8)],
        "max_arrivals": 300,
    }
    base = E.run_scenario(E.number(copy.deepcopy(sc)))
    sc["script"] = normalise_script(gen_script(rng, len(base["arrivals"])))
    return E.number(sc)


def run(ctx, model=True):
    res = E.run_property(ctx, "C40", oracle, gen=gen, quick=120, thorough=3000, model=model)
    res.rule += " | C40 generator: recording on (80%) / off, 1-5 pause / suspend(+release) requests at random arrivals, plan-level pause messages (deferred or not), clear_checkpoint / rewindable(False) for the FailedPause paths, interruptions before the first checkpoint of a run, two keyed runs, follow-up run; 25% generic engine scenarios"
    return res


def run_impl_only(ctx):
    return run(ctx, model=False)


def replay(ctx, data):
    return E.replay_property(ctx, data, oracle)
