"""C22 -- cleanup wrappers run their cleanup exactly once on every exit path.

Tie: (T) harness/genextract.py re-reads finalize_wrapper / contingency_wrapper / finalize_decorator:
their `except` clause lists go to lean/BlueskyVerif/Gen/GeneratedWrappers.lean (the Lean phase
machine dispatches on them; the theorems depend on them) and every statement is compared with the
transcribed shape.  (C) wrapped / cleanup / except / else plans from the AST grammar are compiled to
real generators, combined by the REAL bluesky wrappers and driven by scripts; the same ASTs go
through the Lean phase machine (Gen/Wrappers.lean); traces AND the instrumentation logs (which
sub-plan started / how it ended) are compared.  Oracles on the implementation: (1) trace equal to a
plain Python try/except/else/finally reference generator built from the same pieces, (2) the
property stated directly on the instrumentation log.
"""
from __future__ import annotations

import itertools
import json
from concurrent.futures import ThreadPoolExecutor

import common as C
import genextract
import plangen as G

MANIFEST = {
    "text": "FULL. Theorems (Props/C22.lean) about the phase machine transcribing the three wrappers (one machine, three "
    "configurations; except-clause tables extracted from the source), for ANY wrapped / cleanup / except / else plan "
    "behaviours and ANY input history: the instrumentation log (appended exactly where a sub-plan is started/ends) always "
    "has the shape of a Python try statement (C22_log_like_python); the final plan is started at most once, exactly once "
    "whenever the wrapper finishes after the wrapped plan ended other than by GeneratorExit, never before the wrapped plan "
    "ended (C22_final_once); not at all when the wrapped plan is closed / ends with GeneratorExit (C22_not_on_close); "
    "except_plan(e) starts iff the wrapped plan raised an Exception e, else_plan iff it returned, never both, at most once "
    "(C22_except_else_like_python); the wrapper's own outcome is Python's: value of the wrapped plan, or of except_plan when "
    "auto_raise=False, or the original exception, replaced by an exception raised in except/else/final plans "
    "(C22_result_preserved + per-path corollaries).",
    "note": "Trusted: Lean kernel; generator protocol / PEP 380 model (validated by the AST correspondence on every run); "
    "harness/genextract.py, plangen.py.  pause() is modelled as a one-message plan.  The equivalence with an independent "
    "reference try-statement semantics is checked on the implementation by the correspondence run (reference generator in "
    "plain Python), not proved in Lean.",
    "technique": "Lean 4 proof (invariant of a transcribed phase machine, induction over the input history) + "
    "exhaustive/random correspondence run of traces and instrumentation logs against the real wrappers and a plain-Python reference",
}
LEAN_MODULES = ["BlueskyVerif.Props.C22"]
DRIVER_MODULES = ["BlueskyVerif.Gen.Driver", "BlueskyVerif.Gen.Wrappers"]
DRIVER = "Drivers/C22.lean"
ASSUMPTIONS = [
    "wrapped, cleanup, except and else plans are generators (bluesky's ensure_generator makes them so); except_plan/else_plan/final_plan callables return a fresh generator and do not raise when called",
    "pause() behaves as the one-message plan `return (yield Msg('pause'))`",
    "StopIteration is never thrown into a plan",
]
TRUSTED = ["harness/genextract.py (clause tables + statement-shape comparison)", "harness/plangen.py (AST -> Python source; trace canonicalisation)"]

KINDS = ["finalize_wrapper", "finalize_decorator", "contingency_wrapper"]


def extract(ctx):
    return genextract.extract_wrappers_file(ctx)


# ----------------------------------------------------------------------------- implementation side


def _pend(e=None, ret=None, is_exc=False):
    if is_exc:
        c = G.canon_exc(e)
        return ["exc", c[1], c[2]]
    return ["ret", ret]


def logged(name, gen, log):
    """pass-through generator that records when `gen` is started and how it ends"""
    if name != "body":
        log.append([name + "Start"])
    try:
        ret = yield from gen
    except BaseException as e:  # noqa: BLE001
        log.append([name + "End"] + _pend(e, is_exc=True))
        raise
    log.append([name + "End"] + _pend(ret=ret))
    return ret


def compile_case(case):
    """the generator functions of the pieces (compiled once per case)"""
    shared = G.Shared()
    return {k: (G.make_genfunc(case[k], shared, k + "_plan") if case.get(k) is not None else None) for k in ("plan", "final", "except", "else")}


def build(case, mk, log=None, final_as_instance=False):
    """the real wrapper around real generators; with `log` every piece is instrumented"""
    from bluesky.preprocessors import contingency_wrapper, finalize_decorator, finalize_wrapper

    def piece(name, key):
        f = mk[key]
        if f is None:
            return None
        if log is None:
            return f
        return lambda: logged(name, f(), log)

    body = piece("body", "plan")
    final = piece("final", "final")
    els = piece("else", "else")
    exc = None
    if mk["except"] is not None:
        fe = mk["except"]
        if log is None:
            exc = lambda e: fe()  # noqa: E731
        else:

            def exc(e):
                c = G.canon_exc(e)
                log.append(["exceptStart", c[1], c[2]])
                return logged("except_", fe(), log)

    kind = case["wrapper"]
    if kind == "finalize_wrapper":
        return finalize_wrapper(body(), final() if final_as_instance else final, pause_for_debug=case["pause"])
    if kind == "finalize_decorator":
        return finalize_decorator(final)(body)()
    if kind == "contingency_wrapper":
        return contingency_wrapper(body(), except_plan=exc, else_plan=els, final_plan=final, pause_for_debug=case["pause"], auto_raise=case["auto_raise"])
    raise ValueError(kind)


def reference(case, mk):
    """A plain Python try/except/else/finally generator built from the same pieces -- the statement
    of the property: cleanup always, except when GeneratorExit comes out of the wrapped plan."""
    from bluesky.plan_stubs import pause

    kind = case["wrapper"]
    debug = case["pause"] and kind != "finalize_decorator"

    def gen():
        closed = False
        try:
            try:
                ret = yield from mk["plan"]()
            except GeneratorExit:
                closed = True
                raise
        except Exception as e:
            if debug:
                yield from pause()
            if kind == "contingency_wrapper" and mk["except"] is not None:
                ret = yield from mk["except"]()
                if case["auto_raise"]:
                    raise e
                return ret
            raise
        except BaseException:
            if debug and kind == "finalize_wrapper" and not closed:
                yield from pause()
            raise
        else:
            if kind == "contingency_wrapper" and mk["else"] is not None:
                yield from mk["else"]()
        finally:
            if not closed and mk["final"] is not None:
                yield from mk["final"]()
        return ret

    return gen()


def _fix_log(log):
    out = []
    for ev in log:
        if ev[0].startswith("except_"):
            if ev[0] == "except_Start":
                continue
            ev = ["exceptEnd"] + ev[1:]
        out.append(ev)
    return out


def run_impl(case):
    """per script: trace of the real wrapper, trace of the reference, instrumented trace + log"""
    out = {"trace": [], "ref": [], "itrace": [], "log": []}
    mk = compile_case(case)
    for si, s in enumerate(case["scripts"]):
        out["trace"].append(G.drive(build(case, mk, final_as_instance=(si % 2 == 1)), s))
        out["ref"].append(G.drive(reference(case, mk), s))
        log = []
        g = build(case, mk, log)
        out["itrace"].append(G.drive(g, s))
        out["log"].append(_fix_log(list(log)))  # snapshot BEFORE g is collected (its close() would log more)
        del g
    return json.loads(json.dumps(out))


# ----------------------------------------------------------------------------- oracle on the log


def _death(script, trace):
    """index at which the wrapper generator finished, or None"""
    fresh = True
    for i, (cmd, obs) in enumerate(zip(script, trace)):
        if fresh:
            if cmd[0] == "send" and cmd[1] is not None:
                continue  # TypeError, still not started
            if cmd[0] in ("throw", "close"):
                return i
            fresh = False
        if obs[0] in ("ret", "raise", "closed"):
            if cmd[0] == "close" and obs == ["raise", "RuntimeError", G.TAG_CLOSE_IGNORED]:
                # the wrapper yielded during close() (still alive) or a sub-plan did and the
                # RuntimeError went through the wrapper (finished): the caller cannot tell
                return None
            return i
    return None


def log_oracle(case, script, trace, log):
    """the property stated on what actually ran; returns a list of (sig, text)"""
    bad = []
    names = [e[0] for e in log]
    kind = case["wrapper"]
    has_final = case.get("final") is not None
    has_exc = kind == "contingency_wrapper" and case.get("except") is not None
    has_else = kind == "contingency_wrapper" and case.get("else") is not None
    for n in ("finalStart", "elseStart", "exceptStart", "bodyEnd"):
        if names.count(n) > 1:
            bad.append((f"{n}-more-than-once", f"{n} occurs {names.count(n)} times: {log}"))
    body_end = log[0] if log and log[0][0] == "bodyEnd" else None
    if log and body_end is None:
        bad.append(("plan-started-before-wrapped-plan-ended", f"log does not start with bodyEnd: {log}"))
        return bad
    death = _death(script, trace)
    finished = death is not None
    if body_end is None:
        return bad
    by_genexit = body_end[1] == "exc" and body_end[2] in G.GENEXIT_CLASSES
    by_exception = body_end[1] == "exc" and body_end[2] in G.EXCEPTION_CLASSES
    if by_genexit and len(log) > 1:
        bad.append(("cleanup-ran-after-GeneratorExit", f"wrapped plan ended with {body_end[2]} but then {names[1:]} ran"))
    if "finalStart" in names and by_genexit:
        bad.append(("final-on-close", f"final plan started although the wrapped plan was closed: {log}"))
    if finished and not by_genexit and has_final and names.count("finalStart") != 1:
        bad.append((f"final-not-run-after-{body_end[1]}", f"wrapper finished, wrapped plan ended with {body_end[1:]}, final plan started {names.count('finalStart')} times: {log}"))
    if "elseStart" in names and body_end[1] != "ret":
        bad.append(("else-after-exception", f"else plan ran although the wrapped plan raised: {log}"))
    if "exceptStart" in names:
        ev = log[names.index("exceptStart")]
        if not by_exception or ev[1:] != body_end[2:]:
            bad.append(("except-plan-when-python-would-not", f"except plan called with {ev[1:]} but wrapped plan ended with {body_end[1:]}"))
        if "elseStart" in names:
            bad.append(("except-and-else", f"both except and else plans ran: {log}"))
    if has_else and body_end[1] == "ret" and "elseStart" not in names:
        bad.append(("else-not-run-after-return", f"wrapped plan returned but the else plan did not start: {log}"))
    if has_exc and by_exception and not case["pause"] and "exceptStart" not in names:
        bad.append(("except-not-run-after-exception", f"wrapped plan raised {body_end[2:]} but the except plan did not start: {log}"))
    # result preserved (Python's rule for the pending outcome)
    pause_raised = case["pause"] and by_exception and has_exc and "exceptStart" not in names
    if finished and not by_genexit and script[death][0] != "close" and not pause_raised and not (case["pause"] and not has_exc and body_end[1] == "exc"):
        pend = body_end[1:]
        for ev in log[1:]:
            if ev[0] == "exceptEnd":
                pend = ev[1:] if ev[1] == "exc" or not case["auto_raise"] else pend
            elif ev[0] in ("elseEnd", "finalEnd") and ev[1] == "exc":
                pend = ev[1:]
        want = ["ret", pend[1]] if pend[0] == "ret" else ["raise", pend[1], pend[2]]
        both_genexit = want[0] == "raise" and want[1] in G.GENEXIT_CLASSES and trace[death][0] == "raise" and trace[death][1] in G.GENEXIT_CLASSES
        if trace[death] != want and not both_genexit:
            bad.append(("result-not-preserved", f"wrapper ended with {trace[death]} but Python's try statement gives {want}; log {log}"))
    return bad


# ----------------------------------------------------------------------------- cases

STEP = [["send", 7], ["throw", "E1", 5], ["throw", "RequestStop", 6], ["throw", "GeneratorExit", 0], ["close"]]
Y, YY, RAISE, RET = ["yield", 0, True], ["seq", ["yield", 0, True], ["yield", 0, True]], ["raise", "E2", 2], ["seq", ["yield", 0, True], ["ret", ["var"]]]


def _num(ast, start):
    return None if ast is None else G.renumber(ast, start)


def _case(kind, plan, final, exc, els, pause, auto_raise, scripts):
    return {
        "wrapper": kind,
        "plan": G.renumber(plan, 1),
        "final": _num(final, 30),
        "except": _num(exc, 40) if kind == "contingency_wrapper" else None,
        "else": _num(els, 50) if kind == "contingency_wrapper" else None,
        "pause": bool(pause) and kind != "finalize_decorator",
        "auto_raise": bool(auto_raise),
        "scripts": scripts,
    }


def _cases(ctx):
    rng = ctx.rng
    deep = ctx.tier == "thorough" or ctx.deep
    out = []
    for path in sorted((C.VERIF / "corpus" / "C22").glob("*.json")):
        d = json.loads(path.read_text())
        d["scripts"] = d.get("scripts") or [d.pop("script")]
        out.append(("corpus", d))
    scripts4 = list(G.enum_scripts(4, STEP))
    plans_small = [s for n in range(1, 3) for s in G.enum_stmts(n)]
    plans_fin = [s for n in range(1, (4 if deep else 3)) for s in G.enum_stmts(n)]
    finals = [["pass"], Y, YY, RAISE]
    for plan in plans_fin:
        for fin in finals:
            for pause in (False, True):
                out.append(("exhaustive", _case("finalize_wrapper", plan, fin, None, None, pause, True, scripts4)))
            out.append(("exhaustive", _case("finalize_decorator", plan, fin, None, None, False, True, scripts4)))
    combos = list(itertools.product([None, Y, RAISE, RET], [None, Y, RAISE], [None, Y, RAISE], [True, False]))
    for plan in plans_small:
        cs = combos if deep else rng.sample(combos, 36 if G.size(plan) == 1 else 4)
        for exc, els, fin, ar in cs:
            out.append(("exhaustive", _case("contingency_wrapper", plan, fin, exc, els, False, ar, scripts4)))
    if deep:
        scripts5 = list(G.enum_scripts(5, STEP))
        for plan in [s for s in G.enum_stmts(1)] + rng.sample(G.enum_stmts(2), 6):
            for exc, els, fin, ar in rng.sample(combos, 12):
                out.append(("exhaustive-len5", _case("contingency_wrapper", plan, fin, exc, els, True, ar, scripts5)))
    for _ in range(ctx.budget(700, 9000)):
        kind = rng.choice(KINDS + ["contingency_wrapper"])
        opt = (lambda b: G.rand_stmt(rng, rng.randrange(1, b)) if rng.random() < 0.75 else None)  # noqa: E731
        final = G.rand_stmt(rng, rng.randrange(1, 5)) if kind != "contingency_wrapper" else opt(5)
        scripts = [G.rand_script(rng, rng.randrange(2, 11), p_misuse=0.05) for _ in range(5)]
        out.append(("random", _case(kind, G.rand_stmt(rng, rng.randrange(1, 10)), final, opt(6), opt(5), rng.random() < 0.3, rng.random() < 0.5, scripts)))
    return out


def _lean(cases):
    reqs = [json.dumps(c) for _, c in cases]
    chunk = max(1, (len(reqs) + 3) // 4)
    parts = [reqs[i : i + chunk] for i in range(0, len(reqs), chunk)]
    with ThreadPoolExecutor(max_workers=4) as ex:
        outs = list(ex.map(lambda part: C.lean_batch(DRIVER, part), parts))
    return [json.loads(line) for part in outs for line in part]


def _strip_pause(log):
    """pause() cannot be instrumented from outside; a GeneratorExit subclass thrown into the wrapper
    reaches an instrumented piece as a plain GeneratorExit (its instrumentation layer is close()d)"""
    out = []
    for e in log:
        if e[0].startswith("pause"):
            continue
        if e[0].endswith("End") and e[1] == "exc" and e[2] in G.GENEXIT_CLASSES:
            e = [e[0], "exc", "GeneratorExit", 0]
        out.append(e)
    return out


def _judge(res, case, si, impl):
    """oracles on the implementation's observation of script si"""
    s = case["scripts"][si]
    one = {k: v for k, v in case.items() if k != "scripts"}
    one["script"] = s
    if impl["trace"][si] != impl["ref"][si]:
        i = next(j for j, (a, b) in enumerate(zip(impl["trace"][si], impl["ref"][si])) if a != b)
        what = s[i][0]
        res.violations.append(
            C.Violation(
                f"{case['wrapper']}-differs-from-python-try-statement-on-{what}",
                f"{case['wrapper']} differs from the plain try/except/else/finally reference at step {i} ({s[i]}): reference {impl['ref'][si][i]}, wrapper {impl['trace'][si][i]}",
                dict(one, script=s[: i + 1], wrapper_trace=impl["trace"][si][: i + 1], reference_trace=impl["ref"][si][: i + 1]),
            )
        )
    if impl["itrace"][si] != impl["trace"][si]:
        res.notes.append(f"instrumented trace differs from plain trace on {json.dumps(one)[:300]}")
    for sig, text in log_oracle(case, s, impl["itrace"][si], impl["log"][si]):
        res.violations.append(C.Violation(f"{case['wrapper']}-{sig}", text, dict(one, trace=impl["itrace"][si], log=impl["log"][si])))


def api_probes():
    """Implementation-only probes of the wrappers' documented argument forms (NOT in the Lean phase machine, whose pieces
    are generators): for finalize_wrapper (documented: `final_plan : callable, iterable or iterator`; contingency_wrapper documents
    generator functions only and is not probed) the cleanup given as a list / tuple / iterator / callable returning a list must behave exactly like a
    generator function (with NON-None responses sent to the cleanup's messages), and a decorated plan can be called
    any number of times, its cleanup running every time."""
    from bluesky.preprocessors import finalize_decorator, finalize_wrapper
    from bluesky.utils import Msg

    def drive(g, throw_at=None):
        out = []
        try:
            m = next(g)
            i = 0
            while True:
                out.append(m.command)
                if throw_at == i:
                    m = g.throw(KeyError("thrown"))
                else:
                    m = g.send(("resp", i))
                i += 1
        except StopIteration as e:
            out.append(["ret", e.value])
        except Exception as e:  # noqa
            out.append(["exc", type(e).__name__])
        return out

    def body():
        yield Msg("b1")
        yield Msg("b2")
        return "ret"

    def body_raises():
        yield Msg("b1")
        raise ValueError("x")

    def cleanup():
        yield Msg("c1")
        yield Msg("c2")

    msgs = lambda: [Msg("c1"), Msg("c2")]  # noqa: E731
    forms = {"list": lambda: msgs(), "tuple": lambda: tuple(msgs()), "iterator": lambda: iter(msgs()), "callable-returning-list": lambda: msgs, "callable-returning-iterator": lambda: (lambda: iter(msgs()))}
    bad = []
    for bname, b in (("returns", body), ("raises", body_raises)):
        for throw_at in (None, 0, 1):
            ref = drive(finalize_wrapper(b(), cleanup), throw_at)
            for fname, form in forms.items():
                got = drive(finalize_wrapper(b(), form()), throw_at)
                if got != ref:
                    bad.append((f"finalize_wrapper:cleanup-given-as-{fname}-differs", f"body {bname}, throw at {throw_at}: with a generator function {ref}, with the same cleanup as {fname} {got}", {"probe": "api", "form": fname, "body": bname, "throw_at": throw_at}))
            deco = finalize_decorator(cleanup)(b)
            runs = [drive(deco(), throw_at) for _ in range(3)]
            if any(r != ref for r in runs):
                bad.append(("finalize_decorator:cleanup-not-run-on-every-call", f"body {bname}, throw at {throw_at}: three calls of one decorated plan gave {runs}, expected {ref} each time", {"probe": "api", "form": "decorator-reuse", "body": bname, "throw_at": throw_at}))
    return bad


def run(ctx, model=True):
    G.quiet_unraisable()
    res = C.Result()
    res.rule = (
        "cases = (wrapper kind, wrapped plan, final / except / else plans, pause_for_debug, auto_raise) x scripts.  Corpus; "
        "finalize_wrapper and finalize_decorator: EVERY wrapped plan of the grammar with <=2 (quick) / <=3 (thorough) nodes x "
        "final in {empty, 1 msg, 2 msgs, raise} x pause_for_debug x EVERY script of length 4 over {next, send 7, throw E1, "
        "throw RequestStop, throw GeneratorExit, close; misuse of the fresh generator}; contingency_wrapper: wrapped plans "
        "with <=2 nodes x except in {none, msg, raise, msg+return value} x else/final in {none, msg, raise} x auto_raise "
        "(quick: half of the combinations for 1-node plans, 4 per 2-node plan; thorough: all) x the same scripts; random larger "
        "plans for every piece (try/finally with yields, nested yield from, loops, all exception classes) x random scripts "
        "of length 2-10 incl. RequestAbort, PlanHalt, BaseExc.  Each case runs on the real wrapper (final plan passed as "
        "callable and as instance alternately), on a plain-Python try/except/else/finally reference generator, instrumented "
        "(start/end of every piece logged) and in the Lean phase machine (trace + log).  Non-trivial: the script throws or "
        "closes, or the wrapped plan raises."
    )
    cases = _cases(ctx)
    impl = [run_impl(c) for _, c in cases]
    lean = _lean(cases) if model else None
    for ci, (label, case) in enumerate(cases):
        res.count("cases:" + label + ":" + case["wrapper"])
        feats = G.features(case["plan"])
        if lean is not None and "traces" not in lean[ci]:
            res.disagreements.append({"case": case, "model_error": lean[ci]})
            continue
        for si, s in enumerate(case["scripts"]):
            one = {k: v for k, v in case.items() if k != "scripts"}
            one["script"] = s
            res.seen(one, any(c[0] != "send" for c in s) or "raise" in feats)
            ev = impl[ci]["log"][si]
            res.count("path:" + ("not-started" if not ev else "body-" + ev[0][1] + ("-" + ev[0][2] if ev[0][1] == "exc" else "")))
            for e in ev[1:]:
                if e[0].endswith("Start"):
                    res.count("ran:" + e[0])
            _judge(res, case, si, impl[ci])
            if lean is not None:
                if lean[ci]["traces"][si] != impl[ci]["trace"][si]:
                    res.disagreements.append({"case": one, "what": "trace", "model": lean[ci]["traces"][si], "impl": impl[ci]["trace"][si]})
                elif _strip_pause(lean[ci]["logs"][si]) != _strip_pause(impl[ci]["log"][si]) and impl[ci]["itrace"][si] == impl[ci]["trace"][si]:
                    res.disagreements.append({"case": one, "what": "log", "model": lean[ci]["logs"][si], "impl": impl[ci]["log"][si]})
                if len(res.samples) < 3 and label == "random" and len(ev) >= 3:
                    res.samples.append({"case": one, "impl": {"trace": impl[ci]["trace"][si], "log": ev}, "model": {"trace": lean[ci]["traces"][si], "log": lean[ci]["logs"][si]}})
    res.exhaustive = True
    for sig, what, case in api_probes():
        res.violations.append(C.Violation(sig, "implementation-only probe: " + what, case))
    res.count("impl-only-probe:argument-forms-and-decorator-reuse", 1)
    res.notes.append("cleanup given as list / tuple / iterator / callable returning a list, and repeated calls of a decorated plan, are probed on the implementation only")
    return res


def run_impl_only(ctx):
    return run(ctx, model=False)


def replay(ctx, data):
    G.quiet_unraisable()
    res = C.Result()
    case = dict(data["case"])
    if case.get("probe") == "api":
        for sig, what, c in api_probes():
            res.violations.append(C.Violation(sig, what, c))
        return res
    if "plan" not in case:
        return res
    case["scripts"] = [case.pop("script")]
    for k in ("trace", "log", "wrapper_trace", "reference_trace"):
        case.pop(k, None)
    _judge(res, case, 0, run_impl(case))
    return res
